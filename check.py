#!/usr/bin/env python3
"""CLI of the static checks.

  check.py C01 --tier quick|thorough      decide one property on /repo's working tree
  check.py --replay <file>                re-evaluate one recorded violation
  check.py --all                          run every claimed property (quick)

Exit 0: all obligations discharged (or only listed known findings); exit 1: at least one
unlisted violation (prints `VIOLATION property=<id> replay=<path>`); exit 2: analysis
error (unrecognised shape, floor not met, internal exception) - never a traceback.
"""
from __future__ import annotations

import argparse
import json
import os
import sys
import time
import traceback

HERE = os.path.dirname(os.path.abspath(__file__))
sys.path.insert(0, HERE)

from sa import registry  # noqa: E402
from sa.loader import AnalysisError, Repo  # noqa: E402
from sa.interp import Raised, Undecided  # noqa: E402
from sa.report import (  # noqa: E402
    DISCHARGED, UNRECOGNISED, VIOLATED, Sink, split_known, write_evidence, write_replay,
)


def run_rules(prop, repo, tier):
    sink = Sink()
    spec = registry.PROPS[prop]
    for rid, fn in spec["rules"]:
        try:
            registry.call_rule(fn, repo, sink, tier)
        except AnalysisError as exc:
            sink.unknown(rid, f"analysis:{rid}", None, f"{exc}")
        except RecursionError:
            sink.unknown(rid, f"analysis:{rid}", None, "recursion limit in the analysis")
        except Undecided as exc:
            sink.unknown(rid, f"analysis:{rid}", None, f"condition outside the rule's abstract domain: {exc}")
        except Raised as exc:
            sink.unknown(rid, f"analysis:{rid}", None, f"unexpected abstract exception {exc.name}: {exc.exc!r}")
    return sink


def decide(prop, tier, root, seed, evidence_path=None, quiet=False):
    t0 = time.time()
    repo = Repo(root)
    sink = run_rules(prop, repo, tier)
    extra = {}
    if tier == "thorough":
        from sa import variants
        extra = variants.run_for_property(prop, root, sink)
    spec = registry.PROPS[prop]
    sink.note("files", repo.digests())
    wall = time.time() - t0
    listed, unlisted = split_known(prop, sink.obs)
    unknown = [o for o in sink.obs if o.verdict == UNRECOGNISED]
    path = write_evidence(
        prop, tier, seed, sink, wall, [r for r, _ in spec["rules"]], spec["explanation"],
        spec["assumptions"], extra, evidence_path,
    )
    out = sys.stdout
    if not quiet:
        n_ok = sum(o.verdict == DISCHARGED for o in sink.obs)
        print(f"[{prop}] tier={tier} obligations={len(sink.obs)} discharged={n_ok} "
              f"violated={len(listed) + len(unlisted)} unrecognised={len(unknown)} wall={wall:.2f}s evidence={path}", file=out)
    for o, k in listed:
        print(f"KNOWN-FINDING: property={prop} rule={o.rule} {o.where} {o.func}: {o.msg}", file=out)
    for o in unknown:
        print(f"ANALYSIS-ERROR property={prop} rule={o.rule} key={o.key} {o.where}: {o.msg}", file=out)
    for o, _ in unlisted:
        rp = write_replay(prop, o)
        print(f"  {o.rule} {o.where} {o.func} [{o.key}]: {o.msg}", file=out)
        print(f"VIOLATION property={prop} replay={rp}", file=out)
    if unlisted:
        return 1
    if unknown:
        return 2
    return 0


def replay(path, root):
    with open(path, encoding="utf-8") as fh:
        rec = json.load(fh)
    prop = rec["property"]
    repo = Repo(root)
    sink = run_rules(prop, repo, "quick")
    hits = [o for o in sink.obs if o.rule == rec["rule"] and o.key == rec["key"]]
    if not hits:
        print(f"replay: obligation {rec['rule']} [{rec['key']}] no longer exists on this tree")
        return 2
    o = hits[0]
    print(f"replay: {o.rule} [{o.key}] {o.where} {o.func}: {o.verdict} {o.msg}")
    if o.verdict == VIOLATED:
        print(f"VIOLATION property={prop} replay={path}")
        return 1
    return 0 if o.verdict == DISCHARGED else 2


def main(argv=None):
    ap = argparse.ArgumentParser()
    ap.add_argument("prop", nargs="?")
    ap.add_argument("--tier", default=os.environ.get("VERIF_TIER", "quick"), choices=["quick", "thorough"])
    ap.add_argument("--root", default=os.environ.get("VERIF_REPO", "/repo"))
    ap.add_argument("--replay")
    ap.add_argument("--all", action="store_true")
    ap.add_argument("--evidence")
    ap.add_argument("--evidence-dir", help="with --all: write the evidence files into this directory instead of /verif/evidence")
    ap.add_argument("--selfcheck", action="store_true")
    args = ap.parse_args(argv)
    seed = int(os.environ.get("VERIF_SEED", "0") or 0)
    try:
        if args.selfcheck:
            from sa import lek
            repo = Repo(args.root)
            ads, eps = lek.require_table(repo)
            print(f"selfcheck: {len(repo.modules)} modules, {len(list(repo.all_classes()))} classes, "
                  f"{len(ads)} adapters, {len(eps)} end points")
            return 0
        if args.replay:
            return replay(args.replay, args.root)
        if args.all:
            rc = 0
            for p in registry.PROPS:
                ev = None
                if args.evidence_dir:
                    os.makedirs(args.evidence_dir, exist_ok=True)
                    ev = os.path.join(args.evidence_dir, f"{p}.json")
                rc = max(rc, decide(p, args.tier, args.root, seed, ev))
            return rc
        if args.prop not in registry.PROPS:
            print(f"ANALYSIS-ERROR unknown or unclaimed property {args.prop}")
            return 2
        return decide(args.prop, args.tier, args.root, seed, args.evidence)
    except AnalysisError as exc:
        print(f"ANALYSIS-ERROR {exc}")
        return 2
    except Exception:  # pylint: disable=broad-except
        print("ANALYSIS-ERROR internal exception:\n" + traceback.format_exc())
        return 2


if __name__ == "__main__":
    sys.exit(main())
