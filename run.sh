#!/bin/sh
# Picks the repository's own interpreter (3.12) and falls back to the system python3 (>=3.9:
# only the stdlib `ast` is needed, nothing from /repo is imported).
cd "$(dirname "$0")" || exit 2
if [ -x /venv/bin/python ]; then PY=/venv/bin/python; else PY=python3; fi
exec "$PY" check.py "$@"
