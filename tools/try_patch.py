#!/usr/bin/env python3
"""usage: try_patch.py <patch.diff> [Cnn ...]   (default: all claimed properties)
Evaluates the checks on the current /repo tree with the patch applied IN MEMORY (copies of the
touched files in a temp dir, parsed as Repo overrides); /repo is not touched.
Prints per property: ok | VIOLATED rule [key] msg | UNRECOGNISED rule msg."""
import os, sys
sys.path.insert(0, os.path.dirname(os.path.dirname(os.path.abspath(__file__))))
from concurrent.futures import ProcessPoolExecutor
from sa import registry, variants
from sa.report import VIOLATED, UNRECOGNISED

def one(args):
    prop, ov = args
    try:
        sink = variants._run(prop, "/repo", ov)
    except Exception as exc:
        return prop, [f"CRASH {type(exc).__name__}: {exc}"]
    out = []
    from sa.report import split_known
    known = {id(o) for o, _k in split_known(prop, sink.obs)[0]}
    for o in sink.obs:
        if id(o) in known:
            continue
        if o.verdict == VIOLATED:
            out.append(f"VIOLATED {o.rule} [{o.key}] {o.msg[:220]}")
        elif o.verdict == UNRECOGNISED:
            out.append(f"UNRECOGNISED {o.rule} [{o.key}] {o.msg[:220]}")
    return prop, out

if __name__ == "__main__":
    patch = sys.argv[1]
    props = [a for a in sys.argv[2:] if a != "-v"] or sorted(registry.PROPS)
    ov = variants.seed_overrides("/repo", patch)
    if ov is None:
        print("PATCH DOES NOT APPLY"); sys.exit(3)
    rc = 0
    groups = {}
    with ProcessPoolExecutor(max_workers=16) as ex:
        for prop, out in ex.map(one, [(p, ov) for p in props]):
            for l in out:
                rc = 1
                groups.setdefault(l, []).append(prop)
    seen = set()
    for l, ps in groups.items():
        head = " ".join(l.split()[:3])
        if head in seen and "-v" not in sys.argv:
            continue
        seen.add(head)
        print(f"{l[:260]}   <- {','.join(ps)}")
    if rc == 0:
        print("all silent")
    sys.exit(rc)
