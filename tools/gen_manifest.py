#!/usr/bin/env python3
"""Regenerates MANIFEST.json from sa/registry.py and sa/claims.py (keeps the two in sync)."""
import json, os, sys
HERE = os.path.dirname(os.path.dirname(os.path.abspath(__file__)))
sys.path.insert(0, HERE)
from sa import registry, claims  # noqa: E402

checks = []
for pid in sorted(registry.PROPS):
    c = claims.CLAIMS[pid]
    checks.append({
        "property_id": pid,
        "quick_cmd": f"./run.sh {pid} --tier quick",
        "thorough_cmd": f"./run.sh {pid} --tier thorough",
        "evidence_file": f"/verif/evidence/{pid}.json",
        "replay_cmd_template": "./run.sh --replay {path}",
        "engine": "sa",
        "level_claimed": {"category": "other", "text": c["text"], "design_ref": c["design_ref"]},
        "level_note": c["note"],
        "technique": c["technique"],
    })
man = {
    "version": 1,
    "setup_cmd": "./run.sh --selfcheck",
    "hooks": {
        "guard": "FINAM_VERIF_UNUSED",
        "enable": "none: static analysis reads the source, no instrumentation or hook commits exist",
        "baseline_off_cmd": "cd /repo && /venv/bin/python -m pytest -ra -q -p no:cacheprovider --timeout=900 --continue-on-collection-errors",
        "source_commits": [],
        "add_only": True,
    },
    "engines": [{
        "name": "sa",
        "path": "/verif/sa",
        "serves_properties": sorted(registry.PROPS),
        "kind_free_text": "repository-specific static analyser on the stdlib ast: class-hierarchy call resolution, statement CFG with dominators, def-use/tag dataflow, finite-domain abstract interpretation (decision-table extraction), polynomial normal forms",
    }],
    "checks": checks,
    "not_applicable": claims.NOT_APPLICABLE,
    "notes": claims.NOTES,
}
with open(os.path.join(HERE, "MANIFEST.json"), "w") as fh:
    json.dump(man, fh, indent=1)
print("wrote MANIFEST.json with", len(checks), "checks;", len(claims.NOT_APPLICABLE), "not applicable")
