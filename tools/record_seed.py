#!/usr/bin/env python3
"""Record a confirmed seeded change under /verif/seeded/<id>/ (patch.diff, demo.py, README.md, meta.json).
usage: record_seed.py <srcdir> <id> <property> [props to run ...]
Applies the patch to /repo, runs the named checks, reverts, and stores which rules fired."""
import json, os, re, shutil, subprocess, sys
src, sid, prop = sys.argv[1:4]
props = sys.argv[4:] or [prop]
dst = f"/verif/seeded/{sid}"
os.makedirs(dst, exist_ok=True)
for f in ("patch.diff", "demo.py", "README.md"):
    if os.path.exists(os.path.join(src, f)):
        shutil.copy(os.path.join(src, f), os.path.join(dst, f))
conf = f"/tmp/wtout/confirm/{sid}.json"
confirm = json.load(open(conf)) if os.path.exists(conf) else None
assert subprocess.run(["git", "-C", "/repo", "diff", "--quiet"]).returncode == 0, "repo not clean"
subprocess.run(["git", "-C", "/repo", "apply", os.path.join(dst, "patch.diff")], check=True)
caught = {}
try:
    for p in props:
        r = subprocess.run(["/verif/run.sh", p, "--evidence", f"/tmp/seed_ev_{p}.json"], capture_output=True, text=True)
        rules = sorted(set(re.findall(r"^\s+(R\w+) \S+ \S+ \[([^\]]+)\]", r.stdout, re.M)))
        caught[p] = {"exit": r.returncode, "fired": [f"{a} [{b}]" for a, b in rules][:8]}
finally:
    subprocess.run(["git", "-C", "/repo", "checkout", "--", "."], check=True)
readme = open(os.path.join(dst, "README.md")).read() if os.path.exists(os.path.join(dst, "README.md")) else ""
meta = {
    "id": sid,
    "breaks_property": prop,
    "origin": "independent sub-agent given only the property text and a scratch worktree (nothing from /verif)",
    "what_it_needs_to_manifest": readme.strip()[:1500],
    "confirmed": confirm,
    "what_i_ran": [
        "tools/confirm_seed.sh: fresh scratch worktree of /repo HEAD; demo.py on the unchanged tree (exit 0), "
        "git apply patch.diff, demo.py again (non-zero), pytest tests/ (same 14 environment failures as the unchanged tree); worktree removed",
        "tools/record_seed.py: git -C /repo apply patch.diff; ./run.sh <property>; git -C /repo checkout -- .",
    ],
    "checks": caught,
    "detected": any(v["exit"] == 1 for v in caught.values()),
}
json.dump(meta, open(os.path.join(dst, "meta.json"), "w"), indent=1)
print(sid, {k: (v["exit"], v["fired"][:2]) for k, v in caught.items()})
