#!/usr/bin/env python3
"""In-memory replay of every recorded seeded change (must be reported under its property) and every recorded
behaviour-preserving refactoring (must leave ALL properties silent).  /repo is not touched.  Exit 0 iff all as expected."""
import glob, json, os, sys
sys.path.insert(0, os.path.dirname(os.path.dirname(os.path.abspath(__file__))))
from concurrent.futures import ProcessPoolExecutor
from sa import registry, variants

def seed_job(a):
    return variants.eval_seed(a)

def benign_job(a):
    return variants.eval_benign(a)

if __name__ == "__main__":
    root = "/repo"
    seeds = [(n, p, root) for n, p in variants.seeded_for(None)]
    ben = [(b, p, root) for b in variants.benign_all() for p in sorted(registry.PROPS)]
    bad = 0
    with ProcessPoolExecutor(max_workers=16) as ex:
        for n, p, st, d in ex.map(seed_job, seeds, chunksize=2):
            if st != "detected":
                bad += 1
                print("SEED", n, p, st, d[:160])
        for n, p, st, d in ex.map(benign_job, ben, chunksize=8):
            if st != "silent":
                bad += 1
                print("BENIGN", n, p, st, d[:160])
    print(f"seeded changes: {len(seeds)}, refactorings x properties: {len(ben)}, unexpected: {bad}")
    sys.exit(1 if bad else 0)
