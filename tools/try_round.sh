#!/bin/sh
# usage: try_round.sh <dirname> [prop]   evaluates /tmp/wtout/<dirname>/{m*,b*}/patch.diff in memory against all properties
d=$1
for k in /tmp/wtout/$d/m* /tmp/wtout/$d/b*; do
  [ -f $k/patch.diff ] || continue
  echo "=== $k: $(head -1 $k/README.md 2>/dev/null | cut -c1-150)"
  /venv/bin/python /verif/tools/try_patch.py $k/patch.diff $2 2>&1 | cut -c1-330
done
