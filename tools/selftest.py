#!/usr/bin/env python3
"""Self-test of the checkers: every seeded breaking edit must be detected by (one of) the
named rules, every behaviour-preserving edit must leave the checks silent.
Usage: tools/selftest.py [--root /repo] [--only substring]"""
import argparse, os, sys, time
sys.path.insert(0, os.path.dirname(os.path.dirname(os.path.abspath(__file__))))
from sa import variants, registry  # noqa: E402

ap = argparse.ArgumentParser()
ap.add_argument("--root", default="/repo")
ap.add_argument("--only", default="")
ap.add_argument("-v", action="store_true")
a = ap.parse_args()
jobs = [j for j in variants.jobs_for() if a.only in j[0] or a.only == j[1]]
from sa.variants_data import VARIANTS  # noqa: E402
unreg = sorted({p for v in VARIANTS for p in list(v.breaks) + list(v.benign_for) if p not in registry.PROPS})
t0 = time.time()
res = variants.run_jobs(jobs, a.root)
tally = {}
for n, p, st, d in res:
    tally[st] = tally.get(st, 0) + 1
    if a.v or st not in ("detected", "silent"):
        print(f"{st:20s} {p} {n}: {d}")
print(f"{len(res)} variant/property pairs in {time.time()-t0:.1f}s: {tally}; unregistered properties referenced: {unreg}")
sys.exit(0 if all(st in ("detected", "silent", "skipped") for _n, _p, st, _d in res) else 1)
