#!/usr/bin/env python3
"""(refactorings only) usage: mkprompt_b.py <Cnn> <dirname> [n_breaking] [n_benign]
Writes /tmp/wtout/<dirname>/PROMPT.txt for a sub-agent: only the property's text, its scratch
worktree and (to avoid repeats) the one-line titles of the changes earlier sub-agents produced."""
import glob, json, os, sys
pid, d = sys.argv[1], sys.argv[2]
nb = int(sys.argv[3]) if len(sys.argv) > 3 else 2
ng = int(sys.argv[4]) if len(sys.argv) > 4 else 2
props = {json.loads(l)["id"]: json.loads(l) for l in open("/verif/properties.jsonl")}
p = props[pid]
wt, out = f"/tmp/wt/{d}", f"/tmp/wtout/{d}"
known = []
for meta in sorted(glob.glob("/verif/seeded/*/meta.json")):
    m = json.load(open(meta))
    if m["breaks_property"] == pid:
        t = m["what_it_needs_to_manifest"].strip().splitlines()[0].lstrip("# ").strip()
        known.append("  - " + t[:230])
known_b = []
for meta in sorted(glob.glob("/verif/benign/*/meta.json")):
    m = json.load(open(meta))
    if m["written_around_property"] == pid:
        t = m["what_was_restructured"].strip().splitlines()[0].lstrip("# ").strip()
        known_b.append("  - " + t[:230])
quant = p.get("quantifier") or p.get("quantification") or p.get("for_all") or ""
title = p.get("title", "")
stmt = p.get("statement") or p.get("text") or ""
txt = f"""You are helping to evaluate a verification effort for the open-source Python project FINAM (finam-ufz/finam), a framework that couples time-stepped environmental models. You have your OWN scratch git worktree of the project at {wt} (source under {wt}/src/finam, tests under {wt}/tests). Work ONLY inside {wt} and write your results to {out}. Do NOT read, list or touch /repo or /verif (they are off limits), and do not create other worktrees.

How to run things (the python environment /venv has an editable install that points elsewhere, so ALWAYS set PYTHONPATH):
  cd {wt} && PYTHONPATH={wt}/src /venv/bin/python your_script.py
  cd {wt} && PYTHONPATH={wt}/src /venv/bin/python -m pytest -q -p no:cacheprovider tests        (about 1-2 minutes)
On the unchanged tree the following tests fail for environment reasons and are to be ignored: everything in tests/adapters/test_regrid.py (5 tests), tests/data/test_tools.py (collection error), tests/components/test_parametric.py::TestParametricGrid::test_parametric_1d/_2d/_3d, TestStaticParametricGrid::test_static_parametric, and tests/components/test_weighted_sum.py (all but test_weighted_sum_simple). Every other test passes. There is no network.

THE PROPERTY ({pid}: {title}):
"{stmt}"
(It is meant to hold for: {quant})

YOUR TASK:

{ng} DIFFERENT behaviour-PRESERVING refactorings of code that this property depends on (the functions/classes that implement the mechanism the property talks about - the very places where a defect would break it). Each must leave the behaviour of the public API exactly as it is for every input (same values, times, errors, files, log-free semantics), so the property still holds. Make them the kind of clean-up a maintainer would really do, and make them substantial enough to change the shape of the code (10-60 changed lines): restructure conditionals (early returns vs nesting, merged or split conditions, De Morgan), replace a loop by a comprehension or vice versa, extract a helper function/method or inline one, rename local variables and private attributes consistently, reorder statements that do not depend on each other, replace a comparison by an equivalent one, use a different but equivalent library call, move a computation between a method and a property, change an internal bookkeeping container (list/dict/tuple) where invisible from outside. Do not change public names or signatures. The test suite must pass exactly as before.

ALREADY KNOWN refactorings (do NOT repeat these; restructure OTHER functions / classes / modules that matter for this property, or the same ones in a clearly different way - e.g. move logic between a base class and its subclasses, turn a method into a module-level function or vice versa, replace flags by early exits, change how a private collection is stored, split one function into two phases, merge two functions into one, introduce a small private helper class or a dataclass for private state, use properties instead of attributes for private state):
{chr(10).join(known_b) if known_b else "  (none)"}

For EACH refactoring k = 1..{ng} deliver in {out}/b<k>/ :
  - patch.diff : output of `git -C {wt} diff` for exactly that refactoring
  - demo.py    : a script that exercises the refactored code through the public API in a scenario relevant to the property and exits 0 printing PASS; it must pass on the unchanged tree AND with the refactoring applied.
  - README.md  : first line `# {pid} / b<k> - <one-line title>`, then a few lines: what was restructured and why the behaviour is unchanged for all inputs.

Never use `git stash` (the stash is shared between worktrees of different people); use only `git diff`, `git apply` and `git checkout -- .`.
Procedure per change: start from a clean tree (`git -C {wt} checkout -- .`), confirm demo.py passes, apply the change, check that demo.py still passes, run the full test suite (ALWAYS with a time limit: prefix the command with `timeout 600`, and never leave a test run behind in the background) and confirm the same tests pass as on the unchanged tree, save `git diff` to patch.diff, then revert (`git -C {wt} checkout -- .`) before the next change. Leave the worktree clean at the end. Report briefly (a few lines per change) what you did and the test-suite result, plus anything in the unchanged code that you noticed already violates the property; the files in {out} are what counts.
"""
os.makedirs(out, exist_ok=True)
open(f"{out}/PROMPT.txt", "w").write(txt)
print(f"{out}/PROMPT.txt", len(txt))
