#!/usr/bin/env python3
"""Re-run every recorded seeded change against its property's check (applies each patch to /repo
and reverts it).  Prints the ones that are NOT detected; exit 0 iff all are detected."""
import glob, json, os, subprocess, sys
assert subprocess.run(["git", "-C", "/repo", "diff", "--quiet"]).returncode == 0, "repo not clean"
bad = 0
for d in sorted(glob.glob("/verif/seeded/*/")):
    m = json.load(open(d + "meta.json"))
    p = m["breaks_property"]
    a = subprocess.run(["git", "-C", "/repo", "apply", d + "patch.diff"], capture_output=True, text=True)
    if a.returncode != 0:
        print(m["id"], p, "PATCH DOES NOT APPLY", a.stderr.strip()[:100]); bad += 1; continue
    try:
        r = subprocess.run(["/verif/run.sh", p, "--evidence", f"/tmp/seed_ev_{p}.json"], capture_output=True, text=True)
    finally:
        subprocess.run(["git", "-C", "/repo", "checkout", "--", "."], check=True)
    if r.returncode != 1:
        bad += 1
        print(m["id"], p, "NOT DETECTED rc=", r.returncode, r.stdout.strip().splitlines()[-1][:200] if r.stdout.strip() else "")
print("seeded:", len(glob.glob('/verif/seeded/*/')), "not detected:", bad)
sys.exit(1 if bad else 0)
