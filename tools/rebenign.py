#!/usr/bin/env python3
"""Re-run every recorded behaviour-preserving refactoring (/verif/benign/*) against ALL checks
(applies each patch to /repo and reverts it).  Prints the ones that are NOT silent; exit 0 iff all are."""
import glob, json, subprocess, sys
assert subprocess.run(["git", "-C", "/repo", "diff", "--quiet"]).returncode == 0, "repo not clean"
bad = 0
dirs = sorted(glob.glob("/verif/benign/*/"))
for d in dirs:
    m = json.load(open(d + "meta.json"))
    a = subprocess.run(["git", "-C", "/repo", "apply", d + "patch.diff"], capture_output=True, text=True)
    if a.returncode != 0:
        print(m["id"], "PATCH DOES NOT APPLY", a.stderr.strip()[:100]); bad += 1; continue
    try:
        r = subprocess.run(["/verif/run.sh", "--all", "--evidence-dir", "/tmp/benign_ev"], capture_output=True, text=True)
    finally:
        subprocess.run(["git", "-C", "/repo", "checkout", "--", "."], check=True)
    noisy = [l for l in r.stdout.splitlines() if l.startswith(("VIOLATION", "ANALYSIS-ERROR"))]
    if r.returncode != 0 or noisy:
        bad += 1
        print(m["id"], "NOT SILENT rc=", r.returncode, noisy[:2])
print("benign:", len(dirs), "not silent:", bad)
sys.exit(1 if bad else 0)
