#!/bin/sh
# usage: mkwt.sh <name>  -> creates /tmp/wt/<name> (git worktree of /repo HEAD) with the ignored _version.py
set -e
mkdir -p /tmp/wt /tmp/wtout/$1
git -C /repo worktree add -q --detach /tmp/wt/$1 HEAD
cp /repo/src/finam/_version.py /tmp/wt/$1/src/finam/_version.py
echo /tmp/wt/$1
