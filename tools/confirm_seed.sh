#!/bin/sh
# usage: confirm_seed.sh <srcdir with patch.diff demo.py> <id>
# Confirms in a fresh scratch worktree: demo passes on the unchanged tree, fails with the patch,
# and the test suite (tests/) has the same failures as the unchanged tree. Writes /tmp/wtout/confirm/<id>.json
src=$1; id=$2
wt=/tmp/wt/confirm_$id
mkdir -p /tmp/wtout/confirm
git -C /repo worktree add -q --detach $wt HEAD || exit 2
cp /repo/src/finam/_version.py $wt/src/finam/_version.py
cd $wt
export PYTHONPATH=$wt/src
mkdir -p /tmp/wtout/confirm/run_$id && cp $src/demo.py /tmp/wtout/confirm/run_$id/demo.py
( cd /tmp/wtout/confirm/run_$id && timeout 600 /venv/bin/python demo.py > clean.out 2>&1 ); rc_clean=$?
git apply $src/patch.diff; rc_apply=$?
( cd /tmp/wtout/confirm/run_$id && timeout 600 /venv/bin/python demo.py > patched.out 2>&1 ); rc_patched=$?
timeout 1500 /venv/bin/python -m pytest -q -p no:cacheprovider tests -x --co -q > /dev/null 2>&1
timeout 1500 /venv/bin/python -m pytest -q -p no:cacheprovider tests 2>&1 | grep -E "^(FAILED|ERROR)" | sed 's/ - .*//' | sort > /tmp/wtout/confirm/run_$id/fails.txt
nfail=$(wc -l < /tmp/wtout/confirm/run_$id/fails.txt)
same=no; [ -f /tmp/wtout/confirm/baseline_fails.txt ] && cmp -s /tmp/wtout/confirm/baseline_fails.txt /tmp/wtout/confirm/run_$id/fails.txt && same=yes
cd /
git -C /repo worktree remove --force $wt
printf '{"id":"%s","demo_clean_rc":%s,"patch_applies_rc":%s,"demo_patched_rc":%s,"test_failures":%s,"same_failures_as_unchanged_tree":"%s"}\n' "$id" $rc_clean $rc_apply $rc_patched $nfail $same > /tmp/wtout/confirm/$id.json
cat /tmp/wtout/confirm/$id.json
