#!/usr/bin/env python3
"""Record a confirmed behaviour-preserving refactoring under /verif/benign/<id>/ (patch.diff, demo.py,
README.md, meta.json).  usage: record_benign.py <srcdir> <id> <property it was written around>
Applies the patch to /repo, runs ALL checks (every one must stay silent: exit 0), reverts."""
import json, os, shutil, subprocess, sys
src, sid, prop = sys.argv[1:4]
dst = f"/verif/benign/{sid}"
os.makedirs(dst, exist_ok=True)
for f in ("patch.diff", "demo.py", "README.md"):
    if os.path.exists(os.path.join(src, f)):
        shutil.copy(os.path.join(src, f), os.path.join(dst, f))
conf = f"/tmp/wtout/confirm/{sid}.json"
confirm = json.load(open(conf)) if os.path.exists(conf) else None
assert subprocess.run(["git", "-C", "/repo", "diff", "--quiet"]).returncode == 0, "repo not clean"
subprocess.run(["git", "-C", "/repo", "apply", os.path.join(dst, "patch.diff")], check=True)
try:
    r = subprocess.run(["/verif/run.sh", "--all", "--evidence-dir", "/tmp/benign_ev"], capture_output=True, text=True)
finally:
    subprocess.run(["git", "-C", "/repo", "checkout", "--", "."], check=True)
noisy = [l for l in r.stdout.splitlines() if l.startswith(("VIOLATION", "ANALYSIS-ERROR"))]
known = [l for l in r.stdout.splitlines() if l.startswith("KNOWN-FINDING")]  # (the same lines as on the unchanged tree: open finding F16)
readme = open(os.path.join(dst, "README.md")).read() if os.path.exists(os.path.join(dst, "README.md")) else ""
meta = {
    "id": sid,
    "written_around_property": prop,
    "origin": "independent sub-agent given only the property text and a scratch worktree (nothing from /verif); asked for a "
              "behaviour-preserving refactoring of the code the property depends on",
    "what_was_restructured": readme.strip()[:1500],
    "confirmed": confirm,
    "what_i_ran": [
        "tools/confirm_seed.sh: fresh scratch worktree of /repo HEAD; demo.py on the unchanged tree (exit 0), git apply patch.diff, "
        "demo.py again (exit 0), pytest tests/ (same environment failures as the unchanged tree); worktree removed",
        "tools/record_benign.py: git -C /repo apply patch.diff; ./run.sh --all; git -C /repo checkout -- .",
    ],
    "all_checks_exit": r.returncode,
    "lines": noisy[:10],
    "known_finding_lines_as_on_the_unchanged_tree": [l[:120] for l in known],
    "silent": r.returncode == 0 and not noisy,
}
json.dump(meta, open(os.path.join(dst, "meta.json"), "w"), indent=1)
print(sid, "silent" if meta["silent"] else f"NOT SILENT rc={r.returncode} {noisy[:2]}")
