#!/usr/bin/env python3
"""Regenerates the seeded-change table of DESIGN.md (between the seeded-table markers) from
/verif/seeded/*/meta.json."""
import glob, json, os, re
root = os.path.dirname(os.path.dirname(os.path.abspath(__file__)))
rows, n_built, n_str = [], 0, 0
for meta in sorted(glob.glob(os.path.join(root, "seeded", "*", "meta.json"))):
    m = json.load(open(meta))
    p = m["breaks_property"]
    fired = m["checks"][p]["fired"][:2]
    how = "strengthened" if m.get("history") else "as built"
    n_str += how == "strengthened"
    n_built += how == "as built"
    rows.append(f"| {m['id']} | {p} | {'; '.join(fired)} | {how} |")
table = "\n".join(["| seeded change | property | rule instance(s) that fire | check |", "|---|---|---|---|"] + rows)
table += f"\n\n{len(rows)} recorded changes: {n_built} detected by the checks as they were when the change arrived, {n_str} after a rule was strengthened or added (history in each `meta.json`)."
p = os.path.join(root, "DESIGN.md")
s = open(p).read()
s2 = re.sub(r"(<!-- seeded-table:begin -->\n).*?(<!-- seeded-table:end -->)", lambda mo: mo.group(1) + table + "\n" + mo.group(2), s, flags=re.S)
assert s2 != s or table in s, "markers not found"
open(p, "w").write(s2)
print(len(rows), n_built, n_str)
