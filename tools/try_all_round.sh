#!/bin/sh
# usage: try_all_round.sh <suffix> [b|m]   summary of all /tmp/wtout/c??<suffix>/{m,b}* patches (in memory)
suf=$1; kind=${2:-bm}
for d in /tmp/wtout/c??$suf; do
  for k in $d/m1 $d/m2 $d/m3 $d/b1 $d/b2 $d/b3 $d/b4; do
    [ -f $k/patch.diff ] || continue
    case $(basename $k) in m*) echo $kind | grep -q m || continue;; b*) echo $kind | grep -q b || continue;; esac
    out=$(/venv/bin/python /verif/tools/try_patch.py $k/patch.diff 2>&1)
    v=$(echo "$out" | grep -c "^VIOLATED"); u=$(echo "$out" | grep -c "^UNRECOGNISED")
    st=silent; [ $u -gt 0 ] && st=UNREC; [ $v -gt 0 ] && st=VIOLATED
    echo "$(basename $d)/$(basename $k) $st  $(echo "$out" | grep -m1 "^VIOLATED\|^UNRECOGNISED" | cut -c1-170)"
  done
done
