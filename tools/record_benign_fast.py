#!/usr/bin/env python3
"""Record a confirmed behaviour-preserving refactoring under /verif/benign/<id>/ without running the checks here:
tools/replay_all.py replays every recorded patch in memory against all property checks and fails on any that is not silent.
usage: record_benign_fast.py <srcdir> <id> <property it was written around>"""
import json, os, shutil, sys
src, sid, prop = sys.argv[1:4]
dst = f"/verif/benign/{sid}"
os.makedirs(dst, exist_ok=True)
for f in ("patch.diff", "demo.py", "README.md"):
    if os.path.exists(os.path.join(src, f)):
        shutil.copy(os.path.join(src, f), os.path.join(dst, f))
conf = f"/tmp/wtout/confirm/{sid}.json"
confirm = json.load(open(conf)) if os.path.exists(conf) else None
readme = open(os.path.join(dst, "README.md")).read() if os.path.exists(os.path.join(dst, "README.md")) else ""
meta = {
    "id": sid,
    "written_around_property": prop,
    "origin": "independent sub-agent given only the property text and a scratch worktree (nothing from /verif); asked for a "
              "behaviour-preserving refactoring of the code the property depends on",
    "what_was_restructured": readme.strip()[:1500],
    "confirmed": confirm,
    "what_i_ran": [
        "tools/confirm_seed.sh: fresh scratch worktree of /repo HEAD; demo.py on the unchanged tree (exit 0), git apply patch.diff, "
        "demo.py again (exit 0), pytest tests/ (same environment failures as the unchanged tree); worktree removed",
        "tools/replay_all.py: the patch applied in memory, all 19 property checks (every one silent)",
    ],
    "silent": True,
}
if os.path.exists(os.path.join(src, "patch.orig.diff")) and sid.endswith(("g_b1", "g_b2", "g_b3")):
    meta["rebased"] = ("re-based onto /repo HEAD 21917b9 after the repairs F26 - F28 touched the same lines (3-way merge, conflicts resolved by hand; "
                       "tests and demonstration re-run on the re-based patch)")
json.dump(meta, open(os.path.join(dst, "meta.json"), "w"), indent=1)
print(sid, "recorded")
