#!/bin/sh
# usage: try_seed.sh <dir with patch.diff> [prop ...]   applies the patch to /repo, runs the checks, reverts.
d=$1; shift
props="$@"
[ -z "$props" ] && props="C01 C02 C03 C04 C06 C07 C08 C09 C10 C11 C12 C13 C14 C15 C16 C17 C18 C19 C20"
cd /repo || exit 2
git diff --quiet || { echo "repo not clean"; exit 2; }
git apply "$d/patch.diff" || { echo "patch does not apply"; exit 2; }
for p in $props; do
  out=$(/verif/run.sh $p --evidence /tmp/seed_ev_$p.json 2>&1)
  rc=$?
  echo "== $p rc=$rc"
  echo "$out" | grep -v "^\[" | cut -c1-400 | head -6
done
git checkout -- . 
git status --short | head -3
