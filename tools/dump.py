#!/usr/bin/env python3
"""Developer aid: print every obligation of one property."""
import sys, os
sys.path.insert(0, os.path.dirname(os.path.dirname(os.path.abspath(__file__))))
from sa import registry
from sa.loader import Repo
import check
args = [a for a in sys.argv[1:] if a != "-v"]
root = args[1] if len(args) > 1 else "/repo"
sink = check.run_rules(args[0], Repo(root), "quick")
for o in sink.obs:
    if o.verdict != "DISCHARGED" or "-v" in sys.argv:
        print(o.verdict[:4], o.rule, o.key, o.where, "|", o.msg)
print(len(sink.obs), "obligations")
