import datetime as dt, finam as fm, numpy as np
exec(open("/tmp/exp/e11.py").read().split("src = fm.components")[0])
A = fm.components.CallbackComponent(inputs={"i": fm.Info(time=None, grid=fm.NoGrid(), units="")}, outputs={"o": fm.Info(time=None, grid=fm.NoGrid(), units="")}, callback=lambda inp,t: {"o": 1.0}, start=t0, step=dt.timedelta(days=1), initial_pull=False).with_name("A")
X = Pass().with_name("X")
comp = fm.Composition([A, X], print_log=False)
A.outputs["o"] >> X.inputs["In"]; X.outputs["Out"] >> A.inputs["i"]
try:
    comp.run(end_time=t0+dt.timedelta(days=4)); print("cycle OK")
except Exception as e: print("cycle ERR", type(e).__name__, str(e)[:200])
