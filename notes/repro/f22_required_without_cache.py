import datetime as dt
import finam as fm
T0 = dt.datetime(2000,1,1); DAY = dt.timedelta(days=1)
class Base(fm.TimeComponent):
    def __init__(self):
        super().__init__(); self._time = T0
    def _next_time(self): return self.time + DAY
    def _validate(self): pass
    def _update(self): self._time += DAY
    def _finalize(self): pass
class LateInfoProducer(Base):
    def _initialize(self):
        self.outputs.add(name="Out"); self.create_connector()
    def _connect(self, st):
        self.try_connect(st, push_infos={"Out": fm.Info(self.time, grid=fm.NoGrid())}, push_data={"Out": 1.0})
class NoCacheConsumer(Base):
    def _initialize(self):
        self.inputs.add(name="In"); self.create_connector(pull_data=["In"], cache=False)
    def _connect(self, st):
        infos = {}
        if self.connector.in_infos_required["In"]:
            infos["In"] = fm.Info(self.time, grid=fm.NoGrid())
        self.try_connect(st, exchange_infos=infos)
p, c = LateInfoProducer().with_name("p"), NoCacheConsumer().with_name("c")
comp = fm.Composition([c, p], print_log=False)
p.outputs["Out"] >> c.inputs["In"]
try:
    comp.connect(); print("obs1: connected")
except Exception as e:
    print("obs1:", type(e).__name__, e)

class TwoStep(Base):
    """calls try_connect twice per _connect: first infos, then data"""
    def _initialize(self):
        self.inputs.add(name="In", time=self.time, grid=fm.NoGrid())
        self.outputs.add(name="Out", time=self.time, grid=fm.NoGrid())
        self.create_connector(pull_data=["In"])
    def _connect(self, st):
        self.try_connect(st)
        d = self.connector.in_data["In"]
        self.try_connect(st, push_data={} if d is None else {"Out": 2.0})
class Src(Base):
    def _initialize(self):
        self.outputs.add(name="Out", time=self.time, grid=fm.NoGrid()); self.create_connector()
    def _connect(self, st): self.try_connect(st, push_data={"Out": 1.0})
class Snk(Base):
    def _initialize(self):
        self.inputs.add(name="In", time=self.time, grid=fm.NoGrid()); self.create_connector(pull_data=["In"])
    def _connect(self, st): self.try_connect(st)
import itertools
for order in itertools.permutations(range(3)):
    comps = [Src().with_name("src"), TwoStep().with_name("two"), Snk().with_name("snk")]
    comp = fm.Composition([comps[i] for i in order], print_log=False)
    comps[0].outputs["Out"] >> comps[1].inputs["In"]; comps[1].outputs["Out"] >> comps[2].inputs["In"]
    try:
        comp.connect(); print("obs2", order, "connected")
    except Exception as e:
        print("obs2", order, type(e).__name__, e)
