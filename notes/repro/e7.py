import datetime as dt, finam as fm, numpy as np
t0 = dt.datetime(2000,1,1)
def gen(name, val, step=1):
    return fm.components.CallbackGenerator(callbacks={"o": (lambda t: float(val*t.day), fm.Info(time=None, grid=fm.NoGrid(), units="m"))}, start=t0, step=dt.timedelta(days=step)).with_name(name)
v, w = gen("V", 2.0), gen("W", 0.5)
ws = fm.components.WeightedSum(inputs=["A"])
got = []
c1 = fm.components.DebugConsumer(inputs={"i": fm.Info(time=None, grid=fm.NoGrid(), units=None)}, start=t0, step=dt.timedelta(days=2), callbacks={"i": lambda n,d,t: got.append(("c1",t.day,d))}).with_name("c1")
c2 = fm.components.DebugConsumer(inputs={"i": fm.Info(time=None, grid=fm.NoGrid(), units=None)}, start=t0, step=dt.timedelta(days=2), callbacks={"i": lambda n,d,t: got.append(("c2",t.day,d))}).with_name("c2")
w2 = fm.components.CallbackGenerator(callbacks={"o": (lambda t: 0.5, fm.Info(time=None, grid=fm.NoGrid(), units=""))}, start=t0, step=dt.timedelta(days=1)).with_name("W")
comp = fm.Composition([v, w2, ws, c1, c2], print_log=False)
v.outputs["o"] >> ws.inputs["A"]; w2.outputs["o"] >> ws.inputs["A_weight"]
ws.outputs["WeightedSum"] >> c1.inputs["i"]; ws.outputs["WeightedSum"] >> c2.inputs["i"]
try:
    comp.run(end_time=t0+dt.timedelta(days=4)); print("OK", got)
except Exception as e:
    print("ERR", type(e).__name__, e)
