import datetime as dt, finam as fm, numpy as np
t0 = dt.datetime(2000,1,1)
class Pass(fm.Component):
    """pull-based component: Out(t) = In(t)"""
    def _initialize(self):
        self.inputs.add(name="In", time=t0, grid=fm.NoGrid(), units=None)
        self.outputs.add(fm.CallbackOutput(callback=self._get, name="Out", time=t0, grid=fm.NoGrid(), units=""))
        self.create_connector(pull_data=["In"])
        self._ready=False
    def _connect(self, st):
        self.try_connect(st)
        if self.connector.all_data_pulled: self._ready=True
    def _validate(self): pass
    def _update(self): pass
    def _finalize(self): pass
    def _get(self, _c, time):
        if not self._ready: return None
        if self.status == fm.ComponentStatus.VALIDATED:
            return self.inputs["In"].pull_data(time).magnitude.copy()
        return self.connector.in_data["In"].magnitude.copy()
src = fm.components.CallbackGenerator(callbacks={"o": (lambda t: float(t.day), fm.Info(time=None, grid=fm.NoGrid(), units=""))}, start=t0, step=dt.timedelta(days=1)).with_name("SRC")
X, P1, P2 = Pass().with_name("X"), Pass().with_name("P1"), Pass().with_name("P2")
got=[]
B = fm.components.DebugConsumer(inputs={"a": fm.Info(time=None, grid=fm.NoGrid(), units=""), "b": fm.Info(time=None, grid=fm.NoGrid(), units="")}, start=t0, step=dt.timedelta(days=2), callbacks={"a": lambda n,d,t: got.append((n,t.day,float(d.magnitude[0])))}).with_name("B")
comp = fm.Composition([src, X, P1, P2, B], print_log=False)
src.outputs["o"] >> X.inputs["In"]
X.outputs["Out"] >> P1.inputs["In"]; X.outputs["Out"] >> P2.inputs["In"]
P1.outputs["Out"] >> B.inputs["a"]; P2.outputs["Out"] >> B.inputs["b"]
try:
    comp.run(end_time=t0+dt.timedelta(days=4)); print("diamond OK", got)
except Exception as e:
    import traceback; traceback.print_exc(); print("diamond ERR", type(e).__name__, str(e)[:300])
