"""Prototype of R22: packed/unpacked typestate over spill containers."""
import ast
files = ["/repo/src/finam/sdk/output.py", "/repo/src/finam/adapters/time.py", "/repo/src/finam/adapters/time_integration.py"]
CONT, ELEM, PACKED, TIME, UNP = "CONT", "ELEM", "PACKED", "TIME", "UNPACKED"
selectors = set()
trees = {f: ast.parse(open(f).read()) for f in files}
# selector summaries: module-level functions whose returns are params / IfExp of params
for f, t in trees.items():
    for n in t.body:
        if isinstance(n, ast.FunctionDef):
            params = {a.arg for a in n.args.args}
            rets = [r.value for r in ast.walk(n) if isinstance(r, ast.Return)]
            def sel(e):
                if isinstance(e, ast.Name): return e.id in params
                if isinstance(e, ast.IfExp): return sel(e.body) and sel(e.orelse)
                return False
            if rets and all(sel(r) for r in rets): selectors.add(n.name)
print("selector summaries:", selectors)
reads = 0; viol = []
class FnAnalyser:
    def __init__(self, f, cls, fn): self.f, self.cls, self.fn, self.env = f, cls, fn, {}
    def ev(self, e):
        global reads
        if isinstance(e, ast.Attribute) and isinstance(e.value, ast.Name) and e.value.id == "self" and e.attr == "data": return CONT
        if isinstance(e, ast.Name): return self.env.get(e.id)
        if isinstance(e, ast.Subscript):
            b = self.ev(e.value)
            if b == CONT: return ELEM
            if b == ELEM:
                idx = e.slice.value if isinstance(e.slice, ast.Constant) else None
                if idx == 1: reads += 1; return PACKED
                if idx == 0: return TIME
            return None
        if isinstance(e, ast.Call):
            fn = e.func
            if isinstance(fn, ast.Attribute) and fn.attr == "_unpack":
                for a in e.args: self.ev(a)
                return UNP
            if isinstance(fn, ast.Attribute) and fn.attr == "pop" and self.ev(fn.value) == CONT: return ELEM
            if isinstance(fn, ast.Name) and fn.id == "enumerate" and self.ev(e.args[0]) == CONT: return ("ENUM", ELEM)
            if isinstance(fn, ast.Name) and fn.id == "isinstance": return None
            if isinstance(fn, ast.Attribute) and ast.unparse(fn) == "os.remove": return None
            tags = [self.ev(a) for a in e.args] + [self.ev(k.value) for k in e.keywords]
            if isinstance(fn, ast.Name) and fn.id in selectors:
                return PACKED if PACKED in tags else None
            for a, tg in zip(e.args, tags):
                if tg == PACKED: viol.append((self.f, e.lineno, f"{self.cls}.{self.fn}", "packed value passed to " + ast.unparse(fn)))
            return None
        if isinstance(e, ast.BinOp):
            for side in (e.left, e.right):
                if self.ev(side) == PACKED: viol.append((self.f, e.lineno, f"{self.cls}.{self.fn}", "packed value in arithmetic"))
            return None
        if isinstance(e, ast.Tuple): return ("TUP", [self.ev(x) for x in e.elts])
        for c in ast.iter_child_nodes(e):
            if isinstance(c, ast.expr): self.ev(c)
        return None
    def bind(self, target, tag):
        global reads
        if isinstance(target, ast.Name): self.env[target.id] = tag
        elif isinstance(target, ast.Tuple):
            if tag == ELEM and len(target.elts) == 2:
                self.bind(target.elts[0], TIME); reads += 1; self.bind(target.elts[1], PACKED)
            elif isinstance(tag, tuple) and tag[0] == "ENUM":
                self.bind(target.elts[0], None); self.bind(target.elts[1], tag[1])
            elif isinstance(tag, tuple) and tag[0] == "TUP":
                for t, g in zip(target.elts, tag[1]): self.bind(t, g)
    def run(self, stmts):
        for s in stmts:
            if isinstance(s, ast.Assign):
                tag = self.ev(s.value)
                for t in s.targets: self.bind(t, tag)
            elif isinstance(s, ast.For):
                it = self.ev(s.iter)
                self.bind(s.target, ELEM if it == CONT else it)
                self.run(s.body); self.run(s.orelse)
            elif isinstance(s, ast.Return):
                if s.value is not None and self.ev(s.value) == PACKED:
                    viol.append((self.f, s.lineno, f"{self.cls}.{self.fn}", "packed value returned: " + ast.unparse(s)))
            elif isinstance(s, (ast.If, ast.While)):
                self.ev(s.test); self.run(s.body); self.run(s.orelse)
            elif isinstance(s, ast.With): self.run(s.body)
            elif isinstance(s, ast.Expr): self.ev(s.value)
            elif isinstance(s, ast.AugAssign): self.ev(s.value)
            elif isinstance(s, ast.Try):
                self.run(s.body); [self.run(h.body) for h in s.handlers]; self.run(s.finalbody)
for f, t in trees.items():
    for c in t.body:
        if isinstance(c, ast.ClassDef):
            for m in c.body:
                if isinstance(m, ast.FunctionDef):
                    FnAnalyser(f.split("/")[-1], c.name, m.name).run(m.body)
print("payload reads:", reads)
for v in viol: print("VIOLATED", v)
