"""F26 (C03): run() performs an update although every time component has already reached end_time
(end_time after the composition's start time).  Reported by R05 [run-selection] scenario
`all-beyond-the-end-from-the-start`.  Run with PYTHONPATH=<tree>/src; exit 1 = defect present."""
import sys
from datetime import datetime, timedelta

import finam as fm

gen = fm.components.CallbackGenerator(
    {"Out": (lambda t: 1.0, fm.Info(None, grid=fm.NoGrid()))}, start=datetime(2000, 1, 10), step=timedelta(days=1)
)
cons = fm.components.DebugConsumer({"In": fm.Info(None, grid=fm.NoGrid())}, start=datetime(2000, 1, 10), step=timedelta(days=1))
comp = fm.Composition([gen, cons])
gen.outputs["Out"] >> cons.inputs["In"]
comp.connect(datetime(2000, 1, 1))  # the composition starts before its components
comp.run(end_time=datetime(2000, 1, 5))  # after the start, before every component
print("times after run:", gen.time, cons.time)
sys.exit(1 if gen.time != datetime(2000, 1, 10) or cons.time != datetime(2000, 1, 10) else 0)
