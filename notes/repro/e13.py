import datetime as dt, finam as fm, numpy as np, random
from finam.adapters import SumOverTime, AvgOverTime, LinearTime, StepTime, NextTime, PreviousTime
t0 = dt.datetime(2000,1,1)
H = lambda h: dt.timedelta(hours=h)
class Src:
    """drive an adapter directly: source output + adapter + sink input"""
    def __init__(self, ada, units="mm/d"):
        self.out = fm.Output(name="o", info=fm.Info(time=t0, grid=fm.NoGrid(), units=units))
        self.inp = fm.Input(name="i", info=fm.Info(time=t0, grid=fm.NoGrid(), units=None))
        self.out >> ada >> self.inp
        self.inp.ping(); self.inp.exchange_info()
    def push(self, v, t): self.out.push_data(np.array(v, dtype=float), t)
    def pull(self, t): return self.inp.pull_data(t)
random.seed(1)
bad = 0
for trial in range(300):
    # irregular publication times (hours) and values
    n = random.randint(2, 7)
    ts = sorted(random.sample(range(1, 200), n)); ts = [0] + ts
    vs = [random.uniform(-5, 5) for _ in ts]
    step = random.choice([None, 0.0, 0.3, 0.5, 1.0])
    def exact(a, b):
        # integral of interpolant over [a,b] in value*hours
        tot = 0.0
        for (t1,v1),(t2,v2) in zip(zip(ts,vs), zip(ts[1:],vs[1:])):
            lo, hi = max(a,t1), min(b,t2)
            if hi <= lo: continue
            if step is None:
                f = lambda x: v1 + (v2-v1)*(x-t1)/(t2-t1)
                tot += (hi-lo)*(f(lo)+f(hi))/2
            else:
                sw = t1 + step*(t2-t1)
                tot += max(0, min(hi,sw)-lo)*v1 + max(0, hi-max(lo,sw))*v2
        return tot
    for per_time in (True,):
        s = Src(SumOverTime(step=step, per_time=True)); a = Src(AvgOverTime(step=step))
        for t,v in zip(ts,vs):
            s.push(v, t0+H(t)); a.push(v, t0+H(t))
        # random partition of [0, ts[-1]]
        k = random.randint(1, 5)
        cuts = sorted(set([0, ts[-1]] + [random.randint(1, ts[-1]-1) for _ in range(k)]))
        s.pull(t0); a.pull(t0)
        tot = 0.0
        for c0, c1 in zip(cuts, cuts[1:]):
            sv = s.pull(t0+H(c1)); av = a.pull(t0+H(c1))
            e = exact(c0, c1)
            got_s = float(sv.to("mm").magnitude.ravel()[0]); got_a = float(av.magnitude.ravel()[0])
            if abs(got_s - e/24) > 1e-6 or abs(got_a - e/(c1-c0)) > 1e-6:
                bad += 1
                if bad < 5: print("BAD", step, ts, cuts, (c0,c1), got_s, e/24, got_a, e/(c1-c0))
print("integration bad", bad)
