"""F27 (C15): StructuredGrid.compatible_with(other, check_location=False) raises ValueError for grids of different sizes
instead of answering False.  Reported by R15gl [compat-table:StructuredGrid:without-location].  exit 1 = defect present."""
import sys

import finam as fm

g1, g2 = fm.UniformGrid((5, 4)), fm.UniformGrid((7, 4))
try:
    ans = g1.compatible_with(g2, check_location=False)
except ValueError as e:
    print("raises ValueError:", e)
    sys.exit(1)
print("answer:", ans)
sys.exit(0 if ans is False else 1)
