import datetime as dt, finam as fm, numpy as np
t0 = dt.datetime(2000,1,1)
U = fm.UniformGrid
gs = U((4,3)); gd = U((7,5), spacing=(0.5,0.5))
mask = np.zeros(gs.data_shape, dtype=bool); mask[0,0] = True
src = fm.components.CallbackGenerator(callbacks={"o": (lambda t: np.ones(gs.data_shape), fm.Info(time=None, grid=gs, mask=mask))}, start=t0, step=dt.timedelta(days=1))
mk = lambda: fm.components.DebugConsumer(inputs={"i": fm.Info(time=None, grid=gd)}, start=t0, step=dt.timedelta(days=1))
d1, d2 = mk().with_name("d1"), mk().with_name("d2")
comp = fm.Composition([src,d1,d2], print_log=False)
ada = fm.adapters.RegridNearest()
src.outputs["o"] >> ada
ada >> d1.inputs["i"]; ada >> d2.inputs["i"]
try:
    comp.run(end_time=t0+dt.timedelta(days=1)); print("fanout OK")
except Exception as e: print("fanout ERR", type(e).__name__, str(e)[:120])
