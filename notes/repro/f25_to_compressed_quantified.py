import numpy as np
import finam as fm
from finam.data.tools import to_compressed, from_compressed
x = fm.UNITS.Quantity(np.arange(6.0).reshape(2, 3), "m")
mask = np.array([[False, True, False], [False, False, True]])
try:
    c = to_compressed(x, order="C", mask=mask)
    print("compressed", c)
    back = from_compressed(c, (2, 3), order="C", mask=mask)
    print("OK", back)
except Exception as e:
    print("FAIL", type(e).__name__, e)
