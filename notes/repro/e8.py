import datetime as dt, finam as fm, numpy as np, itertools
t0 = dt.datetime(2000,1,1)
def field(g):
    # value = x + 10*y at data points, arranged in g's data layout
    pts = g.data_points
    vals = pts[:,0] + 10*pts[:,1]
    return vals.reshape(g.data_shape, order=g.order)
def run(gs, gd, ada):
    src = fm.components.CallbackGenerator(callbacks={"o": (lambda t: field(gs), fm.Info(time=None, grid=gs))}, start=t0, step=dt.timedelta(days=1))
    got = {}
    dst = fm.components.DebugConsumer(inputs={"i": fm.Info(time=None, grid=gd)}, start=t0, step=dt.timedelta(days=1), callbacks={"i": lambda n,d,t: got.setdefault(t,d)})
    comp = fm.Composition([src,dst], print_log=False)
    src.outputs["o"] >> ada >> dst.inputs["i"]
    comp.run(end_time=t0+dt.timedelta(days=1))
    return got[t0].magnitude[0]
bad = 0; n=0
U = fm.UniformGrid
for (o1, r1, i1, o2, r2, i2, loc) in itertools.product("CF", (False,True), ((True,True),(True,False),(False,True)), "CF", (False,True), ((True,True),(False,False)), ("CELLS","POINTS")):
    gs = U((4,3), order=o1, axes_reversed=r1, axes_increase=i1, data_location=loc)
    gd = U((4,3), order=o2, axes_reversed=r2, axes_increase=i2, data_location=loc)
    n+=1
    try:
        out = run(gs, gd, fm.adapters.RegridNearest())
        ok = np.allclose(out, field(gd))
    except Exception as e:
        ok = False; out = repr(e)[:80]
    if not ok:
        bad += 1
        if bad < 6: print("BAD", o1, r1, i1, o2, r2, i2, loc, out)
print("nearest bad", bad, "of", n)
