import datetime as dt, random, numpy as np, finam as fm
from finam.adapters import Scale, LinearTime, DelayFixed
t0 = dt.datetime(2000,1,1); H = lambda h: dt.timedelta(hours=h)
random.seed(3); bad=0; n=0; maxlen=0
for trial in range(300):
    out = fm.Output(name="o", info=fm.Info(time=t0, grid=fm.NoGrid(), units="m"))
    nc = random.randint(1,4); inps=[]
    for c in range(nc):
        inp = fm.Input(name=f"i{c}", info=fm.Info(time=t0, grid=fm.NoGrid(), units=None))
        kind = random.choice(["direct","scale","lin"])
        if kind=="direct": out >> inp
        elif kind=="scale": out >> Scale(1.0) >> inp
        else: out >> LinearTime() >> inp
        inps.append((inp, kind))
    for inp,_ in inps: inp.ping()
    for inp,_ in inps: inp.exchange_info()
    hist=[]; last=[0]*nc
    T=0
    out.push_data(np.array(0.0), t0); hist.append((0,0.0))
    for inp,_ in inps: inp.pull_data(t0)
    for ev in range(40):
        if random.random()<0.5:
            T += random.randint(1,5); v=random.uniform(-1,1); out.push_data(np.array(v), t0+H(T)); hist.append((T,v))
        else:
            c = random.randrange(nc); r = random.randint(last[c], T); last[c]=r
            inp,kind = inps[c]
            got = float(inp.pull_data(t0+H(r)).magnitude.ravel()[0])
            # reference: nearest (direct/scale) or linear
            i = next(j for j,(t,_) in enumerate(hist) if t>=r)
            if hist[i][0]==r: exp=hist[i][1]
            elif kind=="lin":
                (t1,v1),(t2,v2)=hist[i-1],hist[i]; exp=v1+(v2-v1)*(r-t1)/(t2-t1)
            else:
                (t1,v1),(t2,v2)=hist[i-1],hist[i]; exp = v1 if r < t1+(t2-t1)/2 else v2
            n+=1
            if abs(got-exp)>1e-9: bad+=1; print("BAD",kind,r,got,exp) if bad<5 else None
            newer = sum(1 for t,_ in hist if t > min(last))
            # bound check (only meaningful for direct/scale consumers; LinearTime pulls at each push)
            if len(out.data) > newer+1: bad+=1; print("BOUND", len(out.data), newer) if bad<5 else None
            maxlen=max(maxlen,len(out.data))
print("history bad", bad, "of", n, "maxlen", maxlen)
