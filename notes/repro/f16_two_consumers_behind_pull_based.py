"""Two time-stepped consumers (1 d, 10 d) read one WeightedSum output that is fed by a 1 d producer."""
from datetime import datetime, timedelta
import numpy as np
import finam as fm

t0 = datetime(2000, 1, 1)
prod = fm.components.CallbackGenerator(
    {"val": (lambda t: float(t.day), fm.Info(None, grid=fm.NoGrid(), units="m")),
     "w": (lambda t: 1.0, fm.Info(None, grid=fm.NoGrid(), units=""))}, t0, timedelta(days=1))
merge = fm.components.WeightedSum(["a"])
fast = fm.components.DebugConsumer({"in": fm.Info(None, grid=fm.NoGrid(), units="m")}, start=t0, step=timedelta(days=1))
slow = fm.components.DebugConsumer({"in": fm.Info(None, grid=fm.NoGrid(), units="m")}, start=t0, step=timedelta(days=10))
comp = fm.Composition([prod, merge, fast, slow], log_level="ERROR")
prod.outputs["val"] >> merge.inputs["a"]
prod.outputs["w"] >> merge.inputs["a_weight"]
merge.outputs["WeightedSum"] >> fast.inputs["in"]
merge.outputs["WeightedSum"] >> slow.inputs["in"]
try:
    comp.run(end_time=datetime(2000, 1, 25))
    print("PASS: run completed")
except Exception as e:
    print("FAIL:", type(e).__name__, str(e)[:200])
    raise SystemExit(1)
