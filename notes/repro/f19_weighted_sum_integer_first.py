"""WeightedSum of an integer-valued and a float-valued gridded input."""
from datetime import datetime, timedelta
import numpy as np
import finam as fm
t0 = datetime(2000, 1, 1)
grid = fm.UniformGrid((3, 4))
def gen(val, units):
    return (lambda t: np.full((2, 3), val), fm.Info(None, grid=grid, units=units))
prod = fm.components.CallbackGenerator({"a": gen(2, "m"), "aw": gen(1, ""), "b": gen(0.5, "m"), "bw": gen(0.5, "")}, t0, timedelta(days=1))
merge = fm.components.WeightedSum(["a", "b"])
sink = fm.components.DebugConsumer({"in": fm.Info(None, grid=grid, units="m")}, start=t0, step=timedelta(days=1))
comp = fm.Composition([prod, merge, sink], log_level="ERROR")
prod.outputs["a"] >> merge.inputs["a"]; prod.outputs["aw"] >> merge.inputs["a_weight"]
prod.outputs["b"] >> merge.inputs["b"]; prod.outputs["bw"] >> merge.inputs["b_weight"]
merge.outputs["WeightedSum"] >> sink.inputs["in"]
try:
    comp.run(end_time=datetime(2000, 1, 3))
    got = sink.data["in"].magnitude
    assert np.allclose(got, 2.25), got
    print("PASS", float(got.ravel()[0]))
except Exception as e:
    print("FAIL:", type(e).__name__, str(e)[:160]); raise SystemExit(1)
