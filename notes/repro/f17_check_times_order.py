import datetime as dt, numpy as np
import finam as fm

T0 = dt.datetime(2000,1,1)

class P(fm.TimeComponent):
    def __init__(self, order):
        super().__init__(); self._time=T0; self.order=order
    def _next_time(self): return self.time+dt.timedelta(days=1)
    def _initialize(self):
        for n in self.order:
            if n=="S": self.outputs.add(name="S", static=True, time=None, grid=fm.NoGrid())
            else: self.outputs.add(name="A", time=self.time, grid=fm.NoGrid())
        self.create_connector()
    def _connect(self, st):
        self.try_connect(st, push_data={"A":1.0,"S":2.0})
    def _validate(self): pass
    def _update(self): self._time+=dt.timedelta(days=1); self.outputs["A"].push_data(1.0,self.time)
    def _finalize(self): pass

class C(fm.TimeComponent):
    def __init__(self):
        super().__init__(); self._time=T0
    def _next_time(self): return self.time+dt.timedelta(days=1)
    def _initialize(self):
        self.inputs.add(name="A", time=self.time, grid=fm.NoGrid())
        self.inputs.add(name="S", static=True, time=None, grid=fm.NoGrid())
        self.create_connector(pull_data=["A","S"])
    def _connect(self, st):
        self.try_connect(st)
    def _validate(self): pass
    def _update(self): self._time+=dt.timedelta(days=1)
    def _finalize(self): pass

for order in (["S","A"],["A","S"]):
    p=P(order); c=C()
    comp=fm.Composition([p,c])
    p["A"]>>c["A"]; p["S"]>>c["S"]
    try:
        comp.connect()
        print(order,"ok", c.connector.in_data)
    except Exception as e:
        print(order,"ERR",type(e).__name__,e)
