import datetime as dt, finam as fm, numpy as np, os, tempfile, traceback
t0 = dt.datetime(2000,1,1)
def run(adapter, limit, masked=False, units="mm/d", days=6):
    d = tempfile.mkdtemp()
    def gen(t):
        a = np.full((3,2), float(t.day))
        if masked:
            a = np.ma.array(a, mask=[[0,1],[0,0],[1,0]])
        return a
    g = fm.UniformGrid((4,3))
    src = fm.components.CallbackGenerator(callbacks={"o": (gen, fm.Info(time=None, grid=g, units=units))}, start=t0, step=dt.timedelta(days=1))
    got = []
    dst = fm.components.DebugConsumer(inputs={"i": fm.Info(time=None, grid=g, units=None)}, start=t0, step=dt.timedelta(days=2), callbacks={"i": lambda n,d,t: got.append((t,d))})
    comp = fm.Composition([src,dst], print_log=False, slot_memory_limit=limit, slot_memory_location=d)
    if adapter is None:
        src.outputs["o"] >> dst.inputs["i"]
    else:
        src.outputs["o"] >> adapter >> dst.inputs["i"]
    try:
        comp.run(end_time=t0+dt.timedelta(days=days))
        return [(t.day, str(x.units), np.ma.getdata(x.magnitude).ravel()[0], np.ma.is_masked(x.magnitude)) for t,x in got], os.listdir(d)
    except Exception as e:
        return ("ERR", type(e).__name__, str(e)[:100]), os.listdir(d)
A = fm.adapters
for name, mk in [("none", lambda: None), ("Linear", A.LinearTime), ("Step", A.StepTime), ("Next", A.NextTime), ("Prev", A.PreviousTime), ("Avg", A.AvgOverTime), ("Sum", A.SumOverTime)]:
    for masked in (False, True):
        r0 = run(mk(), None, masked)
        r1 = run(mk(), 0, masked)
        print(name, "masked" if masked else "plain")
        print("   nolimit:", r0)
        print("   limit0 :", r1)
