import datetime as dt, random, numpy as np, finam as fm
exec(open("/tmp/exp/e13.py").read().split("random.seed(1)")[0])
random.seed(2); bad=0; n=0
for trial in range(400):
    k = random.randint(1, 7)
    ts = [0] + sorted(random.sample(range(1, 100), k)); vs = [random.uniform(-5,5) for _ in ts]
    step = random.choice([0.0, 0.25, 0.5, 1.0])
    adas = {"next": NextTime(), "prev": PreviousTime(), "lin": LinearTime(), "step": StepTime(step)}
    srcs = {n_: Src(a, units="m") for n_, a in adas.items()}
    reqs = sorted(random.choices(range(0, ts[-1]+1), k=6))
    # interleave pushes and pulls: push all entries <= needed lazily
    pushed = 0
    for r in reqs:
        # push everything up to the first publication >= r
        while pushed < len(ts) and (pushed == 0 or ts[pushed-1] < r):
            for s in srcs.values(): s.push(vs[pushed], t0+H(ts[pushed]))
            pushed += 1
        i = next(j for j,t in enumerate(ts) if t >= r)
        exp = {"next": vs[i]}
        if ts[i] == r:
            exp.update(prev=vs[i], lin=vs[i], step=vs[i])
        else:
            d = (r-ts[i-1])/(ts[i]-ts[i-1])
            exp.update(prev=vs[i-1], lin=vs[i-1]+d*(vs[i]-vs[i-1]), step=(vs[i] if d > step else vs[i-1]))
        for name, s in srcs.items():
            n+=1
            try:
                got = float(s.pull(t0+H(r)).magnitude.ravel()[0])
                if abs(got-exp[name])>1e-9:
                    bad+=1; print("BAD", name, ts, r, got, exp[name]) if bad<5 else None
            except Exception as e:
                bad+=1; print("ERR", name, ts, r, type(e).__name__, e) if bad<5 else None
print("interp bad", bad, "of", n)
