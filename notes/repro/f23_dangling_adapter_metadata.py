import datetime as dt
import numpy as np
import finam as fm
t0 = dt.datetime(2000, 1, 1)
src = fm.components.CallbackGenerator({"Out": (lambda t: 1.0, fm.Info(None, grid=fm.NoGrid(), units="m"))}, start=t0, step=dt.timedelta(days=1))
sink = fm.components.DebugConsumer({"In": fm.Info(None, grid=fm.NoGrid(), units="m")}, start=t0, step=dt.timedelta(days=1))
comp = fm.Composition([src, sink])
src["Out"] >> sink["In"]
dangling = src["Out"] >> fm.adapters.Scale(2.0)
try:
    comp.connect()
    print("connected")
    md = comp.metadata
    print("links", md["links"])
    comp.run(end_time=dt.datetime(2000, 1, 3))
    print("OK run")
except Exception as e:
    import traceback; traceback.print_exc()
    print("FAIL", type(e).__name__, e)
