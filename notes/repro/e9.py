import datetime as dt, finam as fm, numpy as np, itertools
t0 = dt.datetime(2000,1,1)
def field(g):
    pts = g.data_points
    vals = pts[:,0] + 10*pts[:,1]
    return vals.reshape(g.data_shape, order=g.order)
def run(gs, gd, ada):
    src = fm.components.CallbackGenerator(callbacks={"o": (lambda t: field(gs), fm.Info(time=None, grid=gs))}, start=t0, step=dt.timedelta(days=1))
    got = {}
    dst = fm.components.DebugConsumer(inputs={"i": fm.Info(time=None, grid=gd)}, start=t0, step=dt.timedelta(days=1), callbacks={"i": lambda n,d,t: got.setdefault(t,d)})
    comp = fm.Composition([src,dst], print_log=False)
    src.outputs["o"] >> ada >> dst.inputs["i"]
    comp.run(end_time=t0+dt.timedelta(days=1))
    return got[t0].magnitude[0]
U = fm.UniformGrid
gs = U((4,3), axes_reversed=True); gi = U((4,3)); gd = U((4,3), order="C")
for name, mk in [("in_grid given (other layout)", lambda: fm.adapters.RegridNearest(in_grid=gi)), ("out_grid given (other layout)", lambda: fm.adapters.RegridNearest(out_grid=U((4,3), axes_reversed=True, order="C")))]:
    try:
        out = run(gs, gd, mk()); print(name, "OK" if np.allclose(out, field(gd)) else "WRONG", out.tolist())
    except Exception as e: print(name, "ERR", type(e).__name__, str(e)[:100])
