import datetime as dt, logging
import finam as fm
from finam.tools import FromValue
logging.disable(logging.CRITICAL)
T0 = dt.datetime(2000,1,1); DAY=dt.timedelta(days=1)

class Base(fm.TimeComponent):
    def __init__(self): super().__init__(); self._time=T0
    def _next_time(self): return self.time+DAY
    def _validate(self): pass
    def _update(self): self._time+=DAY
    def _finalize(self): pass

class P(Base):
    def _initialize(self):
        self.outputs.add(name="Out"); self.create_connector()
    def _connect(self, st):
        self.try_connect(st, push_infos={"Out": fm.Info(time=self.time, grid=fm.NoGrid())}, push_data={"Out": 1.0})

class C(Base):
    def __init__(self, cache): super().__init__(); self.cache=cache
    def _initialize(self):
        self.inputs.add(name="In")
        self.create_connector(pull_data=["In"], in_info_rules={"In":[FromValue("grid", fm.NoGrid()), FromValue("time", T0)]}, cache=self.cache)
    def _connect(self, st): self.try_connect(st)

for cache in (True, False):
    for first in (True, False):
        p=P(); c=C(cache)
        comp=fm.Composition([c,p] if first else [p,c])
        p["Out"]>>c["In"]
        try:
            comp.connect(); print(cache, first, "ok")
        except Exception as e:
            print(cache, first, type(e).__name__, e)
