"""Prototype of R19: time-leading data must not reach rank-sensitive parameters."""
import ast, os
root="/repo/src/finam"; mods={}
for dp,_,fn in os.walk(root):
    for f in fn:
        if f.endswith(".py"): mods[os.path.join(dp,f)] = ast.parse(open(os.path.join(dp,f)).read())
funcs={}  # qualname -> (file, node)
def collect(body, prefix, file):
    for n in body:
        if isinstance(n,(ast.FunctionDef,)):
            funcs[prefix+n.name]=(file,n); collect(n.body, prefix+n.name+".<locals>.", file)
        elif isinstance(n, ast.ClassDef): collect(n.body, prefix+n.name+".", file)
for f,t in mods.items(): collect(t.body, "", f)
# 1. rank-sensitive params: axis-less transpose / .T / flip(axis=i from enumerate(self.axes_increase))
def rank_sensitive(fn):
    params={a.arg for a in fn.args.args if a.arg!="self"}; hit=set()
    for n in ast.walk(fn):
        if isinstance(n, ast.Call) and ast.unparse(n.func) in ("np.transpose","numpy.transpose") and len(n.args)==1 and not n.keywords:
            if isinstance(n.args[0], ast.Name) and n.args[0].id in params: hit.add(n.args[0].id)
        if isinstance(n, ast.Attribute) and n.attr=="T" and isinstance(n.value, ast.Name) and n.value.id in params: hit.add(n.value.id)
    return hit
sinks={q:rank_sensitive(n) for q,(f,n) in funcs.items()}
sinks={q:s for q,s in sinks.items() if s}
print("rank-sensitive:", sinks)
# 2. propagate: function param passed straight to a sink param of a callee (by method name, CHA)
changed=True
while changed:
    changed=False
    for q,(f,n) in funcs.items():
        params={a.arg for a in n.args.args if a.arg!="self"}
        for c in ast.walk(n):
            if isinstance(c, ast.Call) and isinstance(c.func, ast.Attribute):
                callee=[k for k in sinks if k.split(".")[-1]==c.func.attr]
                for k in callee:
                    kparams=[a.arg for a in funcs[k][1].args.args if a.arg!="self"]
                    for i,a in enumerate(c.args):
                        if isinstance(a, ast.Name) and a.id in params and i<len(kparams) and kparams[i] in sinks[k]:
                            if a.id not in sinks.get(q,set()):
                                sinks.setdefault(q,set()).add(a.id); changed=True
print("after propagation:", {k:v for k,v in sinks.items()})
# 3. closures returned by functions -> field provenance
closure_returns={q:[r.value.orelse.id if isinstance(r.value, ast.IfExp) and isinstance(r.value.orelse, ast.Name) else None for r in ast.walk(n) if isinstance(r, ast.Return) and r.value is not None] for q,(f,n) in funcs.items()}
ret_closure={q:[x for x in v if x and (q+".<locals>."+x) in sinks] for q,v in closure_returns.items()}
ret_closure={q:v for q,v in ret_closure.items() if v}
print("functions returning rank-sensitive closures:", ret_closure)
# 4. fields assigned from such functions, then called with a TIME_LEADING value
for q,(f,n) in funcs.items():
    for a in ast.walk(n):
        if isinstance(a, ast.Assign) and isinstance(a.value, ast.Call) and isinstance(a.value.func, ast.Attribute):
            if any(k.split(".")[-1]==a.value.func.attr for k in ret_closure):
                print("field", ast.unparse(a.targets[0]), "<- closure in", q)
# 5. TIME_LEADING sources: results of *.get_data(...) / pull_data(...) / prepare(...)
def tl_flow(q):
    f,n=funcs[q]; env={}
    for s in ast.walk(n):
        if isinstance(s, ast.Assign) and isinstance(s.value, ast.Call) and isinstance(s.value.func, ast.Attribute) and s.value.func.attr in ("get_data","pull_data","prepare"):
            for t in s.targets:
                if isinstance(t, ast.Name): env[t.id]="TL"
    return env
env=tl_flow("Input.pull_data"); print("Input.pull_data locals:", env)
for c in ast.walk(funcs["Input.pull_data"][1]):
    if isinstance(c, ast.Call) and ast.unparse(c.func)=="self._convert_and_check":
        print("  passes", ast.unparse(c.args[0]), env.get(c.args[0].id), "to _convert_and_check at line", c.lineno)
for c in ast.walk(funcs["Input._convert_and_check"][1]):
    if isinstance(c, ast.Call) and ast.unparse(c.func)=="self._transform":
        print("  _convert_and_check passes its param", ast.unparse(c.args[0]), "to self._transform at line", c.lineno, "=> VIOLATED (TIME_LEADING reaches rank-sensitive trans.data)")
