"""Prototype: extract the scheduler's dependency walk and abstractly run it over adapter-kind chains."""
import ast, itertools
src = open("/repo/src/finam/schedule.py").read()
tree = ast.parse(src)
fd = next(n for n in ast.walk(tree) if isinstance(n, ast.FunctionDef) and n.name == "_find_dependencies")
# locate: for ... in component.inputs.items(): <init stmts>; while isinstance(inp, IInput): body ; post
forloop = next(n for n in fd.body if isinstance(n, ast.For))
init = [s for s in forloop.body if isinstance(s, ast.Assign)]
wl = next(s for s in forloop.body if isinstance(s, ast.While))
post = forloop.body[forloop.body.index(wl)+1:]
print("walk loop test:", ast.unparse(wl.test))
# kinds: markers each kind satisfies
KINDS = {
  "PASS":   {"IInput": True, "NoDependencyAdapter": False, "ITimeDelayAdapter": False, "needs_push": False},
  "DELAY":  {"IInput": True, "NoDependencyAdapter": False, "ITimeDelayAdapter": True,  "needs_push": False},
  "BREAK":  {"IInput": True, "NoDependencyAdapter": True,  "ITimeDelayAdapter": True,  "needs_push": False},
  "BUFFER": {"IInput": True, "NoDependencyAdapter": False, "ITimeDelayAdapter": False, "needs_push": True},
  "OUT":    {"IInput": False,"NoDependencyAdapter": False, "ITimeDelayAdapter": False, "needs_push": True},
}
class Brk(Exception): pass
def ev(e, env, elem):
    if isinstance(e, ast.Name): return env[e.id]
    if isinstance(e, ast.Constant): return e.value
    if isinstance(e, ast.Call) and isinstance(e.func, ast.Name) and e.func.id == "isinstance":
        assert ast.unparse(e.args[0]) == "inp"
        return KINDS[elem[0]][e.args[1].id]
    if isinstance(e, ast.Call) and isinstance(e.func, ast.Attribute) and e.func.attr == "with_delay":
        return ("d%d" % elem[1], ev(e.args[0], env, elem))
    if isinstance(e, ast.Attribute) and ast.unparse(e.value) == "inp":
        return KINDS[elem[0]][e.attr]
    if isinstance(e, ast.UnaryOp) and isinstance(e.op, ast.Not): return not ev(e.operand, env, elem)
    if isinstance(e, ast.BoolOp):
        vals = [ev(v, env, elem) for v in e.values]
        return all(vals) if isinstance(e.op, ast.And) else any(vals)
    raise NotImplementedError(ast.dump(e))
def run_block(stmts, env, elem):
    for s in stmts:
        if isinstance(s, ast.Assign):
            t = s.targets[0]
            if ast.unparse(t) == "inp" and ast.unparse(s.value) == "inp.source": continue
            env[t.id] = ev(s.value, env, elem)
        elif isinstance(s, ast.If):
            run_block(s.body if ev(s.test, env, elem) else s.orelse, env, elem)
        elif isinstance(s, ast.Break): raise Brk()
        else: raise NotImplementedError(ast.dump(s))
def sched(chain):
    env = {"target_time": "t"}
    for s in init: env[s.targets[0].id] = ev(s.value, env, None)
    broke = False
    for idx, k in enumerate(chain + ["OUT"]):
        try: run_block(wl.body, env, (k, idx))
        except Brk: broke = True; break
        if k == "OUT": break
    return None if broke else env["local_time"]
def truth(chain):
    tau, mode = "t", "PULL"
    for idx, k in enumerate(chain):
        if k == "DELAY" and mode == "PULL": tau = ("d%d" % idx, tau)
        elif k == "BREAK" and mode == "PULL": return None
        elif k == "BUFFER": mode = "NOTIFY"
    return tau
bad = {}
n = 0
for L in range(0, 4):
    for chain in itertools.product(["PASS","DELAY","BREAK","BUFFER"], repeat=L):
        n += 1
        s, g = sched(list(chain)), truth(list(chain))
        if s != g:
            core = tuple(k for k in chain if k != "PASS")
            bad.setdefault(core, (chain, s, g))
print("chains", n, "mismatch classes", len(bad))
for core, (chain, s, g) in sorted(bad.items(), key=lambda kv: len(kv[0])):
    print(core, "sched:", s, "truth:", g)
