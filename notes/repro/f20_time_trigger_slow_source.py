import datetime as dt
import numpy as np
import finam as fm

t0 = dt.datetime(2000, 1, 1)
src = fm.components.CallbackGenerator({"Out": (lambda t: np.full((), float(t.day)), fm.Info(None, grid=fm.NoGrid(), units="m"))}, start=t0, step=dt.timedelta(days=2))
trig = fm.components.TimeTrigger(in_info=fm.Info(time=None, grid=None, units=None), start=t0, step=dt.timedelta(days=1))
sink = fm.components.DebugConsumer({"In": fm.Info(None, grid=fm.NoGrid(), units="m")}, start=t0, step=dt.timedelta(days=1))
comp = fm.Composition([src, trig, sink])
src["Out"] >> trig["In"]
trig["Out"] >> sink["In"]
try:
    comp.run(end_time=dt.datetime(2000, 1, 6))
    print("OK", sink.data)
except Exception as e:
    print("FAIL", type(e).__name__, e)
