import datetime as dt, finam as fm
from finam.schedule import _find_dependencies, _map_outputs
from finam.adapters.time import DelayFixed
from finam.adapters.base import Scale
import logging
t0 = dt.datetime(2000,1,1)
def mk(name, step, ins, outs):
    return fm.components.CallbackComponent(
        inputs={n: fm.Info(time=None, grid=fm.NoGrid()) for n in ins},
        outputs={n: fm.Info(time=None, grid=fm.NoGrid()) for n in outs},
        callback=lambda inp,t: {n: 1.0 for n in outs}, start=t0, step=dt.timedelta(days=step), initial_pull=False).with_name(name)
a = mk("A", 1, [], ["o"]); b = mk("B", 10, ["i"], [])
comp = fm.Composition([a,b], print_log=False)
req = []
class Spy(fm.adapters.Callback): pass
d1 = DelayFixed(dt.timedelta(days=3)); d2 = DelayFixed(dt.timedelta(days=4))
a.outputs["o"] >> d2 >> d1 >> b.inputs["i"]
comp.connect()
deps = _find_dependencies(b, comp._output_owners, b.next_time)
print("scheduler requires", deps)
# actual
orig = a.outputs["o"].get_data
def gd(time, target):
    print("actual request to source:", time); return orig(time, target)
a.outputs["o"].get_data = gd
comp.run(end_time=t0+dt.timedelta(days=10))
