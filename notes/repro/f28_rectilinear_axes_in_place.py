"""F28 (C14 / C15): RectilinearGrid works on the caller's float arrays (np.asarray does not copy) and makes decreasing axes
increasing in place: one array given for two axes, or a second grid built from the same arrays, reports a decreasing axis as
increasing (values are then paired with mirrored coordinates), and the caller's array is rewritten.
Reported by R32 [axes-owned:RectilinearGrid].  exit 1 = defect present."""
import sys

import numpy as np

import finam as fm

bad = False
ax = np.array([3.0, 2.0, 1.0])
g = fm.RectilinearGrid([ax, ax])
print("one decreasing array for both axes: axes_increase", list(g.axes_increase), "caller's array now", ax)
bad |= list(g.axes_increase) != [False, False] or list(ax) != [3.0, 2.0, 1.0]
x, y = np.array([0.0, 1.0, 2.0]), np.array([5.0, 3.0, 1.0])
ga, gb = fm.RectilinearGrid([x, y]), fm.RectilinearGrid([x, y])
print("two grids from the same arrays:", list(ga.axes_increase), list(gb.axes_increase), "equal:", ga == gb)
bad |= list(gb.axes_increase) != [True, False] or not ga == gb
sys.exit(1 if bad else 0)
