import finam as fm, numpy as np
g = fm.UniformGrid((4,3))
print(g.data_shape, g.data_size)
g.data_location = "POINTS"
print(g.data_shape, g.data_size, g.data_points.shape)
