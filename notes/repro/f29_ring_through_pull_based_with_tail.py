"""F29 (C04): observed by a round-8 sub-agent on the unchanged tree, reported by R09p [step:delay-resolved-ring-through-pull-based-with-tail:circular-error-without-testing-a-dependency]; exit 1 = defect present.
 a delay-resolved ring with a pull-based
member is rejected as circular coupling as soon as a slower tail component reads from the
pull-based member.  Ring: T2 (step 1 d) -> DelayFixed(1 d) -> P (pull-based) -> T2; tail T1
(step 5 d) <- P.  Without T1, or with a T1 step of 1 or 2 days, the run completes.
The active chain of `_update_recursive` holds P (entered for T1's request at day 5) when T2's own
request (day 2, satisfiable) reaches P again."""
import logging
import sys
from datetime import datetime, timedelta

import numpy as np

import finam as fm
from finam.adapters.time import DelayFixed

logging.getLogger().addHandler(logging.NullHandler())
START = datetime(2000, 1, 1)


class Pull(fm.Component):
    def _initialize(self):
        self.inputs.add(name="In", time=None, grid=fm.NoGrid())
        self.outputs.add(fm.CallbackOutput(callback=self._get, name="Out", time=None, grid=fm.NoGrid()))
        self.create_connector()

    def _connect(self, start_time):
        self.try_connect(start_time)

    def _get(self, _caller, time):
        try:
            data = self.inputs["In"].pull_data(time)
        except fm.FinamNoDataError:
            return None
        return np.array(fm.data.get_magnitude(data)[0, ...] + 0.0)

    def _validate(self):
        pass

    def _update(self):
        pass

    def _finalize(self):
        pass


def timed(step, initial_pull):
    return fm.components.CallbackComponent(
        inputs={"In": fm.Info(time=None, grid=fm.NoGrid())},
        outputs={"Out": fm.Info(time=None, grid=fm.NoGrid())},
        callback=lambda inp, t: {"Out": np.asarray(float((t - START).days))},
        start=START,
        step=timedelta(days=step),
        initial_pull=initial_pull,
    )


def run(tail_step):
    t2, t1, p = timed(1, False), timed(tail_step, True), Pull()
    composition = fm.Composition([t2, p, t1], print_log=False)
    t2["Out"] >> DelayFixed(timedelta(days=1)) >> p["In"]
    p["Out"] >> t2["In"]
    p["Out"] >> t1["In"]
    composition.run(start_time=START, end_time=START + timedelta(days=12))


if __name__ == "__main__":
    run(2)
    print("tail step 2 days: ok")
    try:
        run(5)
        print("tail step 5 days: ok")
    except fm.FinamCircularCouplingError as err:
        print("tail step 5 days:", str(err).splitlines()[0], "(false positive)")
        sys.exit(1)
