import numpy as np
import finam as fm
a = fm.UnstructuredGrid(points=[[0,0],[1,0],[0,1]], cells=[[0,1,2]], cell_types=[fm.CellType.TRI], data_location=fm.Location.CELLS)
b = fm.UnstructuredGrid(points=[[0,0],[1,0],[1,1],[0,1]], cells=[[0,1,2,3]], cell_types=[fm.CellType.QUAD], data_location=fm.Location.CELLS)
try:
    print("compatible:", a.compatible_with(b))
except Exception as e:
    print("FAIL", type(e).__name__, e)
i1 = fm.Info(None, grid=a, units="m"); i2 = fm.Info(None, grid=b, units="m")
try:
    print("accepts:", i1.accepts(i2, {}))
except Exception as e:
    print("FAIL accepts", type(e).__name__, e)
