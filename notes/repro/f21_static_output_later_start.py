import datetime as dt
import numpy as np
import finam as fm

class Prod(fm.TimeComponent):
    def __init__(self, start, step):
        super().__init__()
        self.time = start
        self._step = step
    def _next_time(self):
        return self.time + self._step
    def _initialize(self):
        self.outputs.add(name="Dyn", time=self.time, grid=fm.NoGrid(), units="m")
        self.outputs.add(name="Stat", static=True, time=None, grid=fm.NoGrid(), units="m")
        self.create_connector()
    def _connect(self, start_time):
        self.try_connect(start_time, push_data={"Dyn": 1.0, "Stat": 5.0})
    def _validate(self): pass
    def _update(self):
        self.time += self._step
        self.outputs["Dyn"].push_data(float(self.time.day), self.time)
    def _finalize(self): pass

prod = Prod(dt.datetime(2000, 1, 5), dt.timedelta(days=1))
cons = fm.components.DebugConsumer({"A": fm.Info(None, grid=fm.NoGrid(), units="m"), "B": fm.Info(None, grid=fm.NoGrid(), units="m")}, start=dt.datetime(2000, 1, 1), step=dt.timedelta(days=1))
comp = fm.Composition([prod, cons])
prod["Dyn"] >> cons["A"]
prod["Stat"] >> cons["B"]
try:
    comp.connect()
    print("CONNECTED")
except Exception as e:
    print("FAIL", type(e).__name__, e)
