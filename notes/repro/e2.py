import datetime as dt, finam as fm, numpy as np
t0 = dt.datetime(2000,1,1)
def run(g_src, g_dst):
    src = fm.components.CallbackGenerator(callbacks={"o": (lambda t: np.arange(g_src.data_size, dtype=float).reshape(g_src.data_shape, order=g_src.order), fm.Info(time=None, grid=g_src))}, start=t0, step=dt.timedelta(days=1))
    got = {}
    dst = fm.components.DebugConsumer(inputs={"i": fm.Info(time=None, grid=g_dst)}, start=t0, step=dt.timedelta(days=1), callbacks={"i": lambda n,d,t: got.setdefault(t,d)})
    comp = fm.Composition([src,dst], print_log=False)
    src.outputs["o"] >> dst.inputs["i"]
    try:
        comp.run(end_time=t0+dt.timedelta(days=1))
        print("OK", got[t0].shape)
    except Exception as e:
        print("ERR", type(e).__name__, e)
U = fm.UniformGrid
run(U((4,3)), U((4,3)))
run(U((4,3)), U((4,3), axes_reversed=True))
run(U((4,3), axes_reversed=True), U((4,3)))
run(U((4,3)), U((4,3), axes_increase=[True, False]))
run(U((4,3), axes_reversed=True), U((4,3), axes_reversed=True, axes_increase=[True, False]))
run(fm.EsriGrid(3,2), fm.EsriGrid(3,2).to_uniform())
run(U((4,3,5), axes_reversed=True), U((4,3,5), axes_reversed=True, axes_increase=[True, False, True]))
# value check: every layout pair, 2D and 3D, cells and points, masked too
import itertools
def field(g):
    pts = g.data_points
    vals = pts[:,0] + (10*pts[:,1] if g.dim>1 else 0) + (100*pts[:,2] if g.dim>2 else 0)
    return vals.reshape(g.data_shape, order=g.order)
def run2(gs, gd, masked=False):
    def gen(t):
        a = field(gs)
        return np.ma.array(a, mask=(a % 2 < 1)) if masked else a
    src = fm.components.CallbackGenerator(callbacks={"o": (gen, fm.Info(time=None, grid=gs))}, start=t0, step=dt.timedelta(days=1))
    got = {}
    dst = fm.components.DebugConsumer(inputs={"i": fm.Info(time=None, grid=gd)}, start=t0, step=dt.timedelta(days=1), callbacks={"i": lambda n,d,t: got.setdefault(t,d)})
    comp = fm.Composition([src,dst], print_log=False)
    src.outputs["o"] >> dst.inputs["i"]
    comp.run(end_time=t0+dt.timedelta(days=1))
    return got[t0].magnitude[0]
bad=n=0
for dims in [(4,3),(4,3,5),(4,)]:
  d=len(dims)
  for o1,r1,o2,r2 in itertools.product("CF",(False,True),"CF",(False,True)):
    for i1 in itertools.product((True,False),repeat=d):
      for i2 in [tuple([True]*d), tuple([False]*d)]:
        for loc in ("CELLS","POINTS"):
          for masked in (False, True):
            gs=U(dims,order=o1,axes_reversed=r1,axes_increase=list(i1),data_location=loc); gd=U(dims,order=o2,axes_reversed=r2,axes_increase=list(i2),data_location=loc)
            n+=1
            try:
                out=run2(gs,gd,masked); exp=field(gd)
                ok = np.allclose(np.ma.getdata(out), exp) and (not masked or np.array_equal(np.ma.getmaskarray(out), exp%2<1))
            except Exception as e:
                ok=False; out=repr(e)[:90]
            if not ok:
                bad+=1
                if bad<4: print("BADX",dims,o1,r1,i1,o2,r2,i2,loc,masked,out)
print("transform bad",bad,"of",n)
