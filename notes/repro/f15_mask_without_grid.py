import numpy as np, finam as fm
from datetime import datetime, timedelta
g = fm.UniformGrid((4,3))
m_prod = np.zeros((3,2), dtype=bool); m_prod[0,0]=True
m_cons = np.zeros((3,2), dtype=bool); m_cons[2,1]=True
print("masks_equal without grids:", fm.data.tools.masks_equal(m_prod, m_cons))
src = fm.components.CallbackGenerator({"out": (lambda t: np.ma.array(np.ones((3,2)), mask=m_prod), fm.Info(None, grid=g, units="m", mask=m_prod))}, datetime(2000,1,1), timedelta(days=1))
sink = fm.components.DebugConsumer({"in": fm.Info(None, grid=None, units=None, mask=m_cons)}, start=datetime(2000,1,1), step=timedelta(days=1))
comp = fm.Composition([src, sink])
src.outputs["out"] >> sink.inputs["in"]
try:
    comp.connect()
    print("connect succeeded; input mask equals required:", np.array_equal(sink.inputs["in"].info.mask, m_cons), " equals producer's:", np.array_equal(sink.inputs["in"].info.mask, m_prod))
except Exception as e:
    print("connect raised", type(e).__name__, e)
