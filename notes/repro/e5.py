import datetime as dt, finam as fm, numpy as np
t0 = dt.datetime(2000,1,1)
A = fm.adapters
def run(chain, sa=1, sb=5, days=20):
    src = fm.components.CallbackGenerator(callbacks={"o": (lambda t: float(t.day), fm.Info(time=None, grid=fm.NoGrid()))}, start=t0, step=dt.timedelta(days=sa))
    got=[]
    dst = fm.components.DebugConsumer(inputs={"i": fm.Info(time=None, grid=fm.NoGrid())}, start=t0, step=dt.timedelta(days=sb), callbacks={"i": lambda n,d,t: got.append((t.day,float(d.magnitude[0])))})
    comp = fm.Composition([dst, src], print_log=False)
    x = src.outputs["o"]
    for a in chain: x = x >> a
    x >> dst.inputs["i"]
    try:
        comp.run(end_time=t0+dt.timedelta(days=days)); print("OK", got)
    except Exception as e: print("ERR", type(e).__name__, str(e)[:120])
run([A.DelayFixed(dt.timedelta(days=3)), A.LinearTime()])
run([A.LinearTime(), A.DelayFixed(dt.timedelta(days=3))])
run([A.DelayFixed(dt.timedelta(days=3)), A.Scale(1.0)])
