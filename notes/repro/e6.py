import datetime as dt, finam as fm, numpy as np, tempfile, os
t0 = dt.datetime(2000,1,1)
d = tempfile.mkdtemp(); p = os.path.join(d, "x.csv")
open(p,"w").write("T;A\n" + "\n".join(f"2000-01-0{i}T00:00:00;{i}" for i in range(1,4)) + "\n")
r = fm.components.CsvReader(p, "T", {"A": ""})
c = fm.components.DebugConsumer(inputs={"A": fm.Info(time=None, grid=fm.NoGrid())}, start=t0, step=dt.timedelta(days=1))
comp = fm.Composition([r, c], print_log=False)
r.outputs["A"] >> c.inputs["A"]
try:
    comp.run(end_time=dt.datetime(2000,1,10))
    print("OK", r.status, r.time, c.time)
except Exception as e:
    import traceback; print("ERR", type(e).__name__, e, r.status, r.time, c.time)
