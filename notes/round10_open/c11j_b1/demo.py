"""C11 demo: next/previous/linear/step adapters against their mathematical definition
(irregular publication times, requests on/between/across publications, scalar and gridded payloads,
interleaved pushes and pulls so that old buffer entries get discarded, errors outside of the range)."""
import sys
from datetime import datetime, timedelta

import numpy as np

import finam as fm
from finam.adapters import LinearTime, NextTime, PreviousTime, StepTime
from finam.errors import FinamTimeError


def build(adapter, info):
    out = fm.Output(name="out", info=info)
    sink = fm.Input(name="in", info=fm.Info(time=None, grid=info.grid, units=info.units))
    out >> adapter >> sink
    sink.ping()
    sink.exchange_info()
    return out, sink


def expected(kind, step, offs, vals, r):
    if r in offs:
        return vals[offs.index(r)]
    i = max(k for k, o in enumerate(offs) if o < r)
    a, b, va, vb = offs[i], offs[i + 1], vals[i], vals[i + 1]
    w = (r - a) / (b - a)
    if kind == "next":
        return vb
    if kind == "previous":
        return va
    if kind == "linear":
        return va + w * (vb - va)
    return vb if w > step else va


def main():
    t0 = datetime(2000, 1, 1)
    hour = timedelta(hours=1)
    rng = np.random.default_rng(11)
    n = 40
    offs = [0] + [int(o) for o in np.cumsum(rng.integers(1, 9, size=n - 1))]
    grid = fm.UniformGrid((4, 3))
    payloads = {
        "scalar": (fm.NoGrid(), [np.asarray(float(v)) for v in rng.normal(size=n)]),
        "grid": (grid, [rng.normal(size=grid.data_shape) for _ in range(n)]),
    }
    configs = [("next", None), ("previous", None), ("linear", None)] + [
        ("step", s) for s in (0.0, 0.3, 0.5, 1.0)
    ]
    errors = []
    for pname, (g, vals) in payloads.items():
        for kind, step in configs:
            ada = {"next": NextTime, "previous": PreviousTime, "linear": LinearTime}.get(
                kind, lambda: StepTime(step=step)
            )()
            out, sink = build(ada, fm.Info(time=t0, grid=g, units="m"))
            label = f"{pname}/{kind}/{step}"

            def request(r, published):
                exp = expected(kind, step, offs[:published], vals[:published], r)
                try:
                    got = sink.pull_data(t0 + r * hour).magnitude[0]
                except FinamTimeError as e:
                    errors.append(f"{label}: request at +{r}h raised {e}")
                    return
                if got.shape != np.shape(exp) or not np.allclose(got, exp, rtol=1e-12, atol=1e-12):
                    errors.append(f"{label}: request at +{r}h returned {got}, expected {exp}")

            # phase 1: push 10, pull a few (on, between, across several publications)
            for k in range(10):
                out.push_data(vals[k].copy(), t0 + offs[k] * hour)
            for r in (0, 0, offs[1] - 0.5, offs[1], offs[4] + 0.25 * (offs[5] - offs[4]), offs[9] - 0.1, offs[9]):
                request(r, 10)
            # request after the newest publication -> time error, must not disturb anything
            try:
                sink.pull_data(t0 + (offs[9] + 1) * hour)
                errors.append(f"{label}: request after newest publication did not raise")
            except FinamTimeError:
                pass
            # phase 2: alternate pushes and pulls
            last = offs[9]
            for k in range(10, n):
                out.push_data(vals[k].copy(), t0 + offs[k] * hour)
                if k % 3 == 0:
                    for frac in (0.3, 0.5, 0.75, 1.0):
                        r = last + frac * (offs[k] - last)
                        request(r, k + 1)
                    last = offs[k]
            # request before the oldest buffered publication -> time error
            try:
                sink.pull_data(t0 - hour)
                errors.append(f"{label}: request before the first publication did not raise")
            except FinamTimeError:
                pass
            request(offs[n - 1], n)

    if errors:
        print("FAIL")
        print("\n".join(errors[:15]))
        sys.exit(1)
    print("PASS")


if __name__ == "__main__":
    main()
