"""C10 demo: every time-buffering adapter (and the outputs) must deliver the same data with
and without a memory limit, spill only below the configured location, and leave nothing behind.

A generator (step 1 day, plain or masked 2x3 payloads) feeds a slower consumer (step 3 days)
through each time interpolation / integration adapter, so every pull drops several buffered
entries.  Each scenario runs in its own empty working directory.
"""
import os
import sys
import tempfile
from datetime import datetime, timedelta

import numpy as np

import finam as fm

START = datetime(2000, 1, 1)
END = datetime(2000, 1, 19)
GRID = fm.UniformGrid((3, 4))  # 2 x 3 cells


def payload(masked):
    def gen(t):
        arr = np.arange(6, dtype=float).reshape(2, 3) + 10.0 * t.day
        if masked:
            return np.ma.masked_array(arr, mask=[[0, 1, 0], [0, 0, 1]])
        return arr

    return gen


ADAPTERS = {
    "direct": None,
    "NextTime": fm.adapters.NextTime,
    "PreviousTime": fm.adapters.PreviousTime,
    "LinearTime": fm.adapters.LinearTime,
    "StepTime": lambda: fm.adapters.StepTime(step=0.3),
    "StackTime": fm.adapters.StackTime,
    "AvgOverTime": fm.adapters.AvgOverTime,
    "SumOverTime": lambda: fm.adapters.SumOverTime(step=None),
}


def listing(root):
    found = []
    for base, _dirs, files in os.walk(root):
        found += [os.path.relpath(os.path.join(base, f), root) for f in files]
    return sorted(found)


def run(adapter, masked, limit):
    received = []
    outside = set()

    with tempfile.TemporaryDirectory() as work:
        old = os.getcwd()
        os.chdir(work)
        try:
            loc = os.path.join(work, "spill")

            def seen(_name, data, time):
                received.append((time, str(data.units), np.ma.copy(data.magnitude)))
                outside.update(f for f in listing(work) if not f.startswith("spill"))

            gen = fm.components.CallbackGenerator(
                {"Out": (payload(masked), fm.Info(time=None, grid=GRID, units="m"))},
                start=START,
                step=timedelta(days=1),
            )
            con = fm.components.DebugConsumer(
                {"In": fm.Info(time=None, grid=None, units=None)},
                callbacks={"In": seen},
                start=START,
                step=timedelta(days=3),
            )
            comp = fm.Composition(
                [gen, con], print_log=False, slot_memory_limit=limit, slot_memory_location=loc
            )
            if ADAPTERS[adapter] is None:
                gen.outputs["Out"] >> con.inputs["In"]
            else:
                gen.outputs["Out"] >> ADAPTERS[adapter]() >> con.inputs["In"]
            comp.run(start_time=START, end_time=END)
            left = listing(work)
        finally:
            os.chdir(old)
    return received, sorted(outside), left


def same(a, b):
    if len(a) != len(b):
        return False
    for (t1, u1, d1), (t2, u2, d2) in zip(a, b):
        if t1 != t2 or u1 != u2 or d1.shape != d2.shape:
            return False
        if not np.array_equal(np.ma.getmaskarray(d1), np.ma.getmaskarray(d2)):
            return False
        if not np.allclose(np.ma.filled(d1, 0.0), np.ma.filled(d2, 0.0)):
            return False
    return True


def main():
    problems = []
    for adapter in ADAPTERS:
        for masked in (False, True):
            ref, _, _ = run(adapter, masked, None)
            # 0: everything spilled; 100/250: limit crossed in the middle (48 bytes per payload)
            for limit in (0, 100, 250):
                tag = f"{adapter}, masked={masked}, limit={limit}"
                try:
                    got, outside, left = run(adapter, masked, limit)
                except Exception as err:  # pylint: disable=broad-except
                    problems.append(f"{tag}: run failed with {type(err).__name__}: {err}")
                    continue
                if not same(ref, got):
                    problems.append(f"{tag}: data differs from the run without a limit")
                if outside:
                    problems.append(f"{tag}: files outside the spill location: {outside}")
                if left:
                    problems.append(f"{tag}: files left after finalization: {left}")
    if problems:
        print("FAIL")
        for p in problems:
            print(" -", p)
        sys.exit(1)
    print("PASS")


if __name__ == "__main__":
    main()
