"""C06 demo: initial data that is offered repeatedly (stepwise) before it can be pushed.

The producer P offers its current initial value in every connect call until the
value was published ("Giving the same data or infos repeatedly overwrites the
cache", see Component.try_connect). Its state is refined between the calls, so
the value offered in a later call supersedes the earlier one. With the order
[P, C] the first offer can not be pushed yet (C has not exchanged its metadata),
the second one can. The initial pull of C has to deliver the producer's initial
value, i.e. the value P offered in the call that published it.
"""
import sys
from datetime import datetime, timedelta

import numpy as np

import finam as fm

T0 = datetime(2000, 1, 1)


class Producer(fm.TimeComponent):
    def __init__(self):
        super().__init__()
        self.time = T0
        self.state = 0.0
        self.published = None

    def _next_time(self):
        return self.time + timedelta(days=1)

    def _initialize(self):
        self.outputs.add(name="Out", time=self.time, grid=fm.NoGrid(), units="m")
        self.create_connector()

    def _connect(self, start_time):
        push = {}
        if not self.connector.data_pushed["Out"]:
            self.state += 1.0  # refined initial state
            push["Out"] = self.state
        self.try_connect(start_time, push_data=push)
        if self.connector.data_pushed["Out"] and self.published is None:
            self.published = self.state

    def _validate(self):
        pass

    def _update(self):
        self.time = self.next_time
        self.outputs["Out"].push_data(self.state, self.time)

    def _finalize(self):
        pass


def run(producer_first):
    p = Producer().with_name("P")
    c = fm.components.DebugConsumer(
        {"In": fm.Info(time=None, grid=fm.NoGrid(), units="m")},
        start=T0,
        step=timedelta(days=1),
    ).with_name("C")
    comp = fm.Composition([p, c] if producer_first else [c, p], log_level="CRITICAL")
    p["Out"] >> c["In"]
    try:
        comp.connect(T0)
    except Exception as e:  # pylint: disable=broad-except
        return [f"connect() failed for an acyclic coupling: {type(e).__name__}: {e}"]
    problems = []
    for m in (p, c):
        if m.status != fm.ComponentStatus.VALIDATED:
            problems.append(f"{m.name} has status {m.status}")
    val = float(np.asarray(fm.data.get_magnitude(c.data["In"])).ravel()[0])
    if val != p.published:
        problems.append(
            f"C's initial pull delivered {val}, but P's initial value when it was "
            f"published was {p.published}"
        )
    return problems


def main():
    problems = []
    for producer_first in (True, False):
        problems += [f"producer_first={producer_first}: {p}" for p in run(producer_first)]
    if problems:
        print("FAIL")
        for p in problems:
            print(" -", p)
        sys.exit(1)
    print("PASS")


if __name__ == "__main__":
    main()
