"""C07 demo: a link with dimensionally incompatible units must be rejected at connect,
also after a compatible link with units of the same base dimension (ms -> s) was
connected before: Hz (1/s) must not be delivered to an input requesting s."""
import sys
from datetime import datetime, timedelta

import finam as fm

T0 = datetime(2000, 1, 1)


class Consumer(fm.TimeComponent):
    """Consumer that only exchanges metadata in the connect phase (no pull)."""

    def __init__(self, units):
        super().__init__()
        self._units = units
        self.time = T0

    def _initialize(self):
        self.inputs.add(name="In", time=T0, grid=fm.NoGrid(), units=self._units)
        self.create_connector()

    def _connect(self, start_time):
        self.try_connect(start_time)

    def _validate(self):
        pass

    def _update(self):
        self.time += timedelta(days=1)

    def _finalize(self):
        pass


def build(prod_units, cons_units):
    gen = fm.components.CallbackGenerator(
        {"Out": (lambda t: 1.0, fm.Info(time=None, grid=fm.NoGrid(), units=prod_units))},
        start=T0,
        step=timedelta(days=1),
    )
    cons = Consumer(cons_units)
    comp = fm.Composition([gen, cons])
    gen.outputs["Out"] >> cons.inputs["In"]
    return comp, cons


def main():
    # 1. a legal link: a duration in ms delivered to a consumer that wants s
    comp, cons = build("ms", "s")
    comp.connect(T0)
    if str(cons.inputs["In"].info.units) not in ("km/h", "km h-1", "kilometer / hour"):
        # only the convertibility matters
        if not fm.data.tools.compatible_units(cons.inputs["In"].info.units, "s"):
            print("FAIL: legal link ended up with non-convertible units")
            return 1

    # 2. an illegal link: a frequency (Hz = 1/s) delivered to a consumer that wants a duration (s)
    comp, cons = build("Hz", "s")
    try:
        comp.connect(T0)
    except fm.errors.FinamMetaDataError:
        print("PASS")
        return 0
    info = cons.inputs["In"].info
    print(
        "FAIL: connect() accepted a link delivering Hz (1/s) to an input requesting s; "
        f"input units after connect: {info.units}"
    )
    return 1


if __name__ == "__main__":
    sys.exit(main())
