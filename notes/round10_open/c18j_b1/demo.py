"""C18 / b1 demo: axis directions of structured grids (the layout the mask rules account for)."""
import sys

import numpy as np

import finam as fm
from finam.data.grid_tools import check_axes_monotonicity

errors = []

# direct use of the helper: flags, inplace flipping, result type, error text, partial work before an error
axes = [np.array([3.0, 2.0, 0.5]), np.array([1.0]), np.array([0.0, 1.0, 4.0]), np.array([9, 7])]
inc = check_axes_monotonicity(axes)
if not (isinstance(inc, np.ndarray) and inc.dtype == bool and inc.shape == (4,)):
    errors.append(f"unexpected result type {inc!r}")
if list(inc) != [False, True, True, False]:
    errors.append(f"wrong directions {inc}")
if [list(a) for a in axes] != [[0.5, 2.0, 3.0], [1.0], [0.0, 1.0, 4.0], [7, 9]]:
    errors.append(f"axes not made increasing inplace: {axes}")
if check_axes_monotonicity([]).shape != (0,):
    errors.append("empty list of axes")
bad = [np.array([2.0, 1.0]), np.array([0.0, 1.0, 1.0]), np.array([5.0, 4.0])]
try:
    check_axes_monotonicity(bad)
    errors.append("non-monotonic axis accepted")
except ValueError as err:
    if str(err) != "Grid: axes[1] not strictly monotonic.":
        errors.append(f"wrong message: {err}")
    if list(bad[0]) != [1.0, 2.0] or list(bad[2]) != [5.0, 4.0]:
        errors.append(f"axes before/after the failing one handled differently: {bad}")

# through the grids: masks equal after accounting for the layout are accepted, others rejected
x, y, z = [0.0, 1.0, 3.0, 4.0], [0.0, 2.0, 3.0], [0.0, 1.0, 5.0]
up = fm.RectilinearGrid([x, y, z])
down = fm.RectilinearGrid([x[::-1], y, z[::-1]], axes_reversed=True)
if list(down.axes_increase) != [False, True, False] or list(up.axes_increase) != [True] * 3:
    errors.append("axes_increase of the grids")
if [list(a) for a in down.axes] != [x, y, z]:
    errors.append("grid axes not increasing")
canonical = (np.arange(12).reshape(3, 2, 2) % 3) == 0
mask_down = np.transpose(np.flip(np.flip(canonical, 0), 2))
producer = fm.Info(time=None, grid=up, units="m", mask=canonical)
good = fm.Info(time=None, grid=down, units="m", mask=mask_down)
wrong = fm.Info(time=None, grid=down, units="m", mask=np.transpose(canonical))
for consumer, expected in ((good, True), (wrong, False)):
    got = (
        bool(consumer.accepts(producer, {})),
        bool(producer.accepts(consumer, {}, incoming_donwstream=True)),
    )
    if got != (expected, expected):
        errors.append(f"connect check: expected {expected}, got {got}")
for spec in (fm.Mask.FLEX, fm.Mask.NONE):
    consumer = fm.Info(time=None, grid=down, units="m", mask=spec)
    if bool(consumer.accepts(producer, {})) != (spec is fm.Mask.FLEX):
        errors.append(f"{spec} consumer vs fixed-mask producer")
try:
    fm.RectilinearGrid([[0.0, 1.0, 0.5], y])
    errors.append("grid with non-monotonic axis created")
except ValueError:
    pass

if errors:
    print("FAIL")
    for e in errors:
        print(" ", e)
    sys.exit(1)
print("PASS")
