"""C20 demo: a component declares a static output with the keyword form of ``outputs.add``.

The output must accept exactly one publication, serve it for every request time
(including None) and refuse a second publication.
"""
import sys
import traceback
from datetime import datetime, timedelta

import numpy as np

import finam as fm
from finam.components.debug import DebugConsumer
from finam.errors import FinamStaticDataError

START = datetime(2000, 1, 1)
DAY = timedelta(days=1)


class StaticSource(fm.Component):
    """Publishes one constant during the connect phase."""

    def _initialize(self):
        # info given by keywords instead of an Info object
        self.outputs.add(name="Const", static=True, time=None, grid=fm.NoGrid(), units="m")
        self.create_connector()

    def _connect(self, start_time):
        push = {}
        if not self.connector.data_pushed["Const"]:
            push["Const"] = 42.0
        self.try_connect(start_time, push_data=push)

    def _validate(self):
        pass

    def _update(self):
        pass

    def _finalize(self):
        pass


def main():
    src = StaticSource()
    seen = []
    consumer = DebugConsumer(
        inputs={"In": fm.Info(None, grid=fm.NoGrid(), units="m")},
        start=START,
        step=DAY,
        callbacks={"In": lambda _n, data, t: seen.append(((t - START).days, float(fm.data.get_magnitude(data).ravel()[0])))},
    )
    comp = fm.Composition([src, consumer])
    src.outputs["Const"] >> consumer.inputs["In"]

    problems = []
    try:
        comp.connect(START)
        out = src.outputs["Const"]
        if not out.is_static:
            problems.append("output declared with static=True reports is_static == False")
        for t in (None, START, START + 100 * DAY, START - 3 * DAY):
            try:
                val = float(fm.data.get_magnitude(out.get_data(t, None)).ravel()[0])
                if not np.isclose(val, 42.0):
                    problems.append(f"request time {t}: got {val}, expected 42.0")
            except Exception as e:  # pylint: disable=broad-except
                problems.append(f"request time {t}: refused with {type(e).__name__}: {e}")
        try:
            out.push_data(43.0, None)
            problems.append("second publication was accepted")
        except FinamStaticDataError:
            pass
        except Exception as e:  # pylint: disable=broad-except
            problems.append(f"second publication: {type(e).__name__} instead of FinamStaticDataError: {e}")

        comp.run(end_time=START + 5 * DAY)
    except Exception:  # pylint: disable=broad-except
        traceback.print_exc()
        problems.append("composition with a static output failed")

    if not problems and seen != [(d, 42.0) for d in range(0, 6)]:
        problems.append(f"consumer received {seen}")

    if problems:
        print("FAIL:\n  " + "\n  ".join(problems))
        return 1
    print("PASS")
    return 0


if __name__ == "__main__":
    sys.exit(main())
