"""C08 / m1 demo: a producer re-uses one buffer for quantities in foreign units.

The output is declared in metres, the producer publishes quantities in
millimetres that wrap one and the same float buffer.  The unit conversion on
the producer side has to deliver a *new* array: the producer's buffer stays as
it is, the second publication does not share memory with the first one (so it
must be accepted), and both publications can be pulled with their own values.
"""
import sys
from datetime import datetime, timedelta

import numpy as np

import finam as fm

T0 = datetime(2000, 1, 1)
T1 = T0 + timedelta(days=1)


def main():
    grid = fm.UniformGrid((4, 3))  # cells: data shape (3, 2)
    out = fm.Output(name="out", info=fm.Info(time=T0, grid=grid, units="m"))
    inp = fm.Input(name="in", info=fm.Info(time=T0, grid=grid, units="cm"))
    out >> inp
    inp.ping()
    inp.exchange_info()

    errors = []

    first = np.arange(6, dtype=float).reshape(3, 2) * 1000.0 + 1000.0  # mm
    second = first + 500.0  # mm

    buf = first.copy()
    out.push_data(fm.UNITS.Quantity(buf, "mm"), T0)
    if not np.array_equal(buf, first):
        errors.append(
            f"publishing changed the producer's own array: {buf.tolist()} "
            f"instead of {first.tolist()}"
        )

    # the producer writes its next state into the same buffer and publishes again;
    # the stored publication is a converted copy, so nothing is shared
    buf[...] = second
    try:
        out.push_data(fm.UNITS.Quantity(buf, "mm"), T1)
    except fm.FinamDataError as err:
        errors.append(f"second publication refused: {err}")

    for t, expected_mm in ((T0, first), (T1, second)):
        try:
            got = inp.pull_data(t)
        except Exception as err:  # pylint: disable=broad-except
            errors.append(f"pull for {t} failed: {type(err).__name__}: {err}")
            continue
        if got.units != fm.UNITS.Unit("cm"):
            errors.append(f"pull for {t}: units {got.units}, expected cm")
        if got.shape != (1, 3, 2):
            errors.append(f"pull for {t}: shape {got.shape}, expected (1, 3, 2)")
        elif not np.allclose(got.magnitude[0], expected_mm / 10.0):
            errors.append(
                f"pull for {t}: got {got.magnitude[0].tolist()} cm, "
                f"expected {(expected_mm / 10.0).tolist()} cm"
            )

    if errors:
        print("FAIL")
        for e in errors:
            print(" -", e)
        return 1
    print("PASS")
    return 0


if __name__ == "__main__":
    sys.exit(main())
