"""C02 demo: one delay adapter shared by two inputs of a consumer, one of them with a further delay.

    A.Out >> DelayFixed(2d) --+--> DelayFixed(3d) >> B.Old     (requests t-5d)
                              +--------------------> B.New     (requests t-2d)

The driver must make sure that A has data for *every* time B really requests in its update,
i.e. each time B updates, the newest request on the source output must not be later than what
A has delivered, and A must not be further ahead than B's largest request needs."""
import sys
from datetime import datetime, timedelta

import finam as fm

start = datetime(2000, 1, 1)
requests = []  # (time requested from A.Out, time of A's newest data at that moment)

gen = fm.components.CallbackGenerator(
    callbacks={"Out": (lambda t: float(t.day), fm.Info(time=None, grid=fm.NoGrid()))},
    start=start,
    step=timedelta(days=1),
)
received = []
cons = fm.components.CallbackComponent(
    inputs={
        "Old": fm.Info(time=None, grid=fm.NoGrid()),
        "New": fm.Info(time=None, grid=fm.NoGrid()),
    },
    outputs={},
    callback=lambda inp, t: received.append(
        (t, {k: float(fm.data.get_magnitude(v).item()) for k, v in inp.items()})
    )
    or {},
    start=start,
    step=timedelta(days=4),
)

comp = fm.Composition([cons, gen], print_log=False)

probe = fm.adapters.CallbackProbe(
    lambda _d, t: requests.append((t, gen.outputs["Out"].time))
)
shared = gen.outputs["Out"] >> probe >> fm.adapters.DelayFixed(timedelta(days=2))
shared >> fm.adapters.DelayFixed(timedelta(days=3)) >> cons.inputs["Old"]
shared >> cons.inputs["New"]

comp.connect(start)
requests.clear()
received.clear()

errors = []
try:
    comp.run(end_time=start + timedelta(days=12))
except Exception as e:  # pylint: disable=broad-except
    errors.append(f"run aborted: {type(e).__name__}: {e}")

for t_req, t_avail in requests:
    if t_req > t_avail:
        errors.append(f"requested {t_req:%m-%d} from the source, which had only reached {t_avail:%m-%d}")

for t, vals in received:
    exp_new = float(max(t - timedelta(days=2), start).day)
    exp_old = float(max(t - timedelta(days=5), start).day)
    if vals["New"] != exp_new or vals["Old"] != exp_old:
        errors.append(f"B at day {t.day}: got {vals}, expected New={exp_new} Old={exp_old}")
    # A must not have been driven beyond what B's largest request needed at that update
need = [max(t - timedelta(days=2), start) for t, _ in received]
for (t_req, t_avail), n in zip(requests[1::2], need):
    if t_avail > n and t_avail > start:
        errors.append(f"source at {t_avail:%m-%d} although B only needed {n:%m-%d}")

if len(received) != 3:
    errors.append(f"expected 3 updates of B, saw {len(received)}")

if errors:
    print("FAIL")
    print("\n".join(errors))
    sys.exit(1)
print("PASS")
