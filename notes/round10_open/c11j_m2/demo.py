"""C11 demo: a consumer that lags far behind the publisher still gets the mathematically defined values."""
import sys
from datetime import datetime, timedelta

import numpy as np

import finam as fm
from finam.adapters import LinearTime, NextTime, PreviousTime, StepTime
from finam.errors import FinamTimeError


def build(adapter, info):
    out = fm.Output(name="out", info=info)
    sink = fm.Input(name="in", info=fm.Info(time=None, grid=info.grid, units=info.units))
    out >> adapter >> sink
    sink.ping()
    sink.exchange_info()
    return out, sink


def expected(kind, offs, vals, r):
    if r in offs:
        return vals[offs.index(r)]
    i = max(k for k, o in enumerate(offs) if o < r)
    a, b, va, vb = offs[i], offs[i + 1], vals[i], vals[i + 1]
    w = (r - a) / (b - a)
    if kind == "next":
        return vb
    if kind == "previous":
        return va
    if kind == "linear":
        return va + w * (vb - va)
    return vb if w > 0.5 else va


def main():
    t0 = datetime(2000, 1, 1)
    hour = timedelta(hours=1)
    n = 400  # many publications before the first request (slow consumer)
    rng = np.random.default_rng(7)
    offs = list(np.cumsum(rng.integers(1, 6, size=n)))  # irregular gaps in hours
    offs = [int(o) - int(offs[0]) for o in offs]
    vals = [float(v) for v in rng.normal(size=n)]
    makers = {
        "next": NextTime,
        "previous": PreviousTime,
        "linear": LinearTime,
        "step": lambda: StepTime(step=0.5),
    }
    errors = []
    for kind, make in makers.items():
        info = fm.Info(time=t0, grid=fm.NoGrid(), units="m")
        out, sink = build(make(), info)
        for o, v in zip(offs, vals):
            out.push_data(np.asarray(v), t0 + o * hour)

        # non-decreasing requests within the published range, starting at its beginning
        reqs = [0, 0.5, offs[1], offs[3] + 0.25, offs[50], offs[200] - 0.5, offs[-1] - 0.75, offs[-1]]
        for r in reqs:
            try:
                got = float(sink.pull_data(t0 + r * hour).magnitude.reshape(-1)[0])
            except FinamTimeError as e:
                errors.append(f"{kind}: request at +{r}h inside the published range raised: {e}")
                continue
            exp = expected(kind, offs, vals, r)
            if not np.isclose(got, exp, rtol=1e-12, atol=1e-12):
                errors.append(f"{kind}: request at +{r}h returned {got}, expected {exp}")

        # outside of the published range -> time error
        for r in (offs[-1] + 1,):
            try:
                sink.pull_data(t0 + r * hour)
                errors.append(f"{kind}: request at +{r}h after the newest publication did not raise")
            except FinamTimeError:
                pass

    if errors:
        print("FAIL")
        print("\n".join(errors[:12]))
        sys.exit(1)
    print("PASS")


if __name__ == "__main__":
    main()
