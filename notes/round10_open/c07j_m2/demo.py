"""C07 demo: two unstructured meshes that share the points but connect them to different
cells describe different data locations (cell data) - such a link must be rejected."""
import sys
from datetime import datetime, timedelta

import numpy as np

import finam as fm

T0 = datetime(2000, 1, 1)

POINTS = [[0.0, 0.0], [1.0, 0.0], [0.0, 1.0], [2.0, 0.0], [3.0, 0.0], [2.0, 1.0]]


def mesh(cells):
    return fm.UnstructuredGrid(
        points=POINTS,
        cells=cells,
        cell_types=[fm.CellType.TRI, fm.CellType.TRI],
        data_location=fm.Location.CELLS,
    )


class Consumer(fm.TimeComponent):
    def __init__(self, grid):
        super().__init__()
        self._grid = grid
        self.time = T0

    def _initialize(self):
        self.inputs.add(name="In", time=T0, grid=self._grid, units="m")
        self.create_connector()

    def _connect(self, start_time):
        self.try_connect(start_time)

    def _validate(self):
        pass

    def _update(self):
        self.time += timedelta(days=1)

    def _finalize(self):
        pass


def run(prod_grid, cons_grid):
    gen = fm.components.CallbackGenerator(
        {"Out": (lambda t: np.zeros(2), fm.Info(time=None, grid=prod_grid, units="m"))},
        start=T0,
        step=timedelta(days=1),
    )
    cons = Consumer(cons_grid)
    comp = fm.Composition([gen, cons])
    gen.outputs["Out"] >> cons.inputs["In"]
    comp.connect(T0)
    return cons


def main():
    grid_a = mesh([[0, 1, 2], [3, 4, 5]])
    # the same triangles, node numbering of each cell started at another node: same mesh
    grid_a2 = mesh([[1, 2, 0], [5, 3, 4]])
    # other triangles on the same points: (0, 4, 2) and (3, 1, 5)
    grid_b = mesh([[0, 4, 2], [3, 1, 5]])

    # sanity: identical meshes connect
    cons = run(grid_a, mesh([[0, 1, 2], [3, 4, 5]]))
    if cons.inputs["In"].info.grid != grid_a:
        print("FAIL: identical meshes: input grid differs from delivered grid")
        return 1
    del grid_a2

    try:
        cons = run(grid_a, grid_b)
    except fm.errors.FinamMetaDataError:
        print("PASS")
        return 0
    print(
        "FAIL: connect() accepted a link between meshes with different cells: producer cells\n"
        f"{grid_a.cells}\nconsumer cells\n{cons.inputs['In'].info.grid.cells}"
    )
    return 1


if __name__ == "__main__":
    sys.exit(main())
