"""C09 demo: a push-based time adapter that sits BEHIND a pass-through adapter.

    out >> Scale(2) >> LinearTime >> in_a      (consumer a)
    out >> in_b                                (consumer b, direct)

Every publication is pulled by both consumers.  All pulls must succeed and return
what an unlimited history would return, and the history of `out` must stay bounded.
"""
import sys
from datetime import datetime, timedelta

import finam as fm

T0 = datetime(2000, 1, 1)
DAY = timedelta(days=1)


def main():
    info = fm.Info(time=T0, grid=fm.NoGrid())
    out = fm.Output(name="Out")
    in_a = fm.Input(name="A")
    in_b = fm.Input(name="B")
    scale = fm.adapters.Scale(2.0)
    lin = fm.adapters.LinearTime()

    out >> scale >> lin >> in_a
    out >> in_b

    in_a.ping()
    in_b.ping()
    out.push_info(info)
    in_a.exchange_info(info)
    in_b.exchange_info(info)

    problems = []
    n = 12
    for i in range(n):
        t = T0 + i * DAY
        try:
            out.push_data(float(i), t)
        except Exception as err:  # pylint: disable=broad-except
            problems.append(f"publication {i} failed: {type(err).__name__}: {err}")
            break
        try:
            # consumer a: half a day behind (interpolated), consumer b: at the publication
            ta = t if i == 0 else t - DAY / 2
            va = fm.data.get_magnitude(in_a.pull_data(ta)).item()
            vb = fm.data.get_magnitude(in_b.pull_data(t)).item()
        except Exception as err:  # pylint: disable=broad-except
            problems.append(f"pull after publication {i} failed: {type(err).__name__}: {err}")
            break
        exp_a = 0.0 if i == 0 else 2.0 * (i - 0.5)
        if abs(va - exp_a) > 1e-9 or abs(vb - float(i)) > 1e-9:
            problems.append(f"step {i}: got a={va}, b={vb}; expected a={exp_a}, b={float(i)}")
        # both consumers of `out` (LinearTime and in_b) have requested time t:
        # nothing but the newest publication may be retained
        if len(out.data) > 1:
            problems.append(f"step {i}: output retains {len(out.data)} publications, expected 1")
            break

    if problems:
        print("FAIL")
        for p in problems:
            print("  " + p)
        return 1
    print("PASS")
    return 0


if __name__ == "__main__":
    sys.exit(main())
