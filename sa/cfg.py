"""Statement-level control-flow graph with dominators / post-dominators.

Vocabulary: the statement kinds used in src/finam (if / for / while / try / with /
return / raise / break / continue / simple statements).  `with` is transparent
(`ErrorLogger.__exit__` logs and re-raises; checked by rule R00 in rules/common.py).
Exceptional edges: every node inside a `try` body has an edge to every handler of that
`try`; a `raise` has an edge to the virtual RAISE exit (and to enclosing handlers).
"""
from __future__ import annotations

import ast

from .loader import AnalysisError, body_of


class Node:
    __slots__ = ("id", "kind", "ast", "succ", "pred", "label")

    def __init__(self, nid, kind, node=None, label=""):
        self.id = nid
        self.kind = kind  # entry exit raise stmt test for with
        self.ast = node
        self.succ = []
        self.pred = []
        self.label = label

    @property
    def lineno(self):
        return getattr(self.ast, "lineno", 0)

    def __repr__(self):
        txt = ""
        if self.ast is not None:
            try:
                txt = ast.unparse(self.ast).split("\n")[0][:60]
            except Exception:  # pragma: no cover
                txt = type(self.ast).__name__
        return f"<{self.id}:{self.kind} {txt}>"


class CFG:
    def __init__(self, fn_node):
        self.fn = fn_node
        self.nodes = []
        self.entry = self._new("entry")
        self.exit = self._new("exit")
        self.raise_exit = self._new("raise")
        self.by_ast = {}
        first = self._block(body_of(fn_node), self.exit, None, None, [])
        self._edge(self.entry, first)
        self._dom = None
        self._pdom = None

    # -- construction -----------------------------------------------------
    def _new(self, kind, node=None):
        n = Node(len(self.nodes), kind, node)
        self.nodes.append(n)
        if node is not None:
            self.by_ast[id(node)] = n
        return n

    @staticmethod
    def _edge(a, b):
        if b not in a.succ:
            a.succ.append(b)
            b.pred.append(a)

    def _block(self, stmts, nxt, brk, cont, handlers):
        cur = nxt
        for s in reversed(stmts):
            cur = self._stmt(s, cur, brk, cont, handlers)
        return cur

    def _exc(self, n, handlers):
        for h in handlers:
            self._edge(n, h)

    def _stmt(self, s, nxt, brk, cont, handlers):
        if isinstance(s, ast.If):
            n = self._new("test", s)
            self._exc(n, handlers)
            self._edge(n, self._block(s.body, nxt, brk, cont, handlers))
            self._edge(n, self._block(s.orelse, nxt, brk, cont, handlers) if s.orelse else nxt)
            return n
        if isinstance(s, ast.While):
            n = self._new("test", s)
            self._exc(n, handlers)
            after = self._block(s.orelse, nxt, brk, cont, handlers) if s.orelse else nxt
            body = self._block(s.body, n, nxt, n, handlers)
            self._edge(n, body)
            if not (isinstance(s.test, ast.Constant) and s.test.value):
                self._edge(n, after)
            return n
        if isinstance(s, (ast.For, ast.AsyncFor)):
            n = self._new("for", s)
            self._exc(n, handlers)
            after = self._block(s.orelse, nxt, brk, cont, handlers) if s.orelse else nxt
            body = self._block(s.body, n, nxt, n, handlers)
            self._edge(n, body)
            self._edge(n, after)
            return n
        if isinstance(s, ast.Try):
            after = self._block(s.finalbody, nxt, brk, cont, handlers) if s.finalbody else nxt
            hs = []
            for h in s.handlers:
                hn = self._new("handler", h)
                self._edge(hn, self._block(h.body, after, brk, cont, handlers))
                hs.append(hn)
            orelse = self._block(s.orelse, after, brk, cont, handlers) if s.orelse else after
            return self._block(s.body, orelse, brk, cont, handlers + hs)
        if isinstance(s, (ast.With, ast.AsyncWith)):
            n = self._new("with", s)
            self._exc(n, handlers)
            self._edge(n, self._block(s.body, nxt, brk, cont, handlers))
            return n
        if isinstance(s, ast.Return):
            n = self._new("stmt", s)
            self._exc(n, handlers)
            self._edge(n, self.exit)
            return n
        if isinstance(s, ast.Raise):
            n = self._new("stmt", s)
            self._exc(n, handlers)
            self._edge(n, self.raise_exit)
            return n
        if isinstance(s, ast.Break):
            n = self._new("stmt", s)
            if brk is None:
                raise AnalysisError("break outside loop")
            self._edge(n, brk)
            return n
        if isinstance(s, ast.Continue):
            n = self._new("stmt", s)
            if cont is None:
                raise AnalysisError("continue outside loop")
            self._edge(n, cont)
            return n
        if isinstance(s, (ast.FunctionDef, ast.ClassDef, ast.AsyncFunctionDef)):
            n = self._new("stmt", s)
            self._edge(n, nxt)
            return n
        if isinstance(s, ast.Match):
            raise AnalysisError("match statement not in CFG vocabulary")
        n = self._new("stmt", s)
        self._exc(n, handlers)
        self._edge(n, nxt)
        return n

    # -- lookup -------------------------------------------------------------
    def node_of(self, a):
        """CFG node of the statement that contains AST node `a`."""
        cur = a
        while cur is not None:
            n = self.by_ast.get(id(cur))
            if n is not None:
                if isinstance(cur, (ast.If, ast.While)) and a is not cur:
                    # `a` may be inside the body, which has its own nodes; only the
                    # test expression belongs to this node
                    if not _within(a, cur.test):
                        cur = getattr(cur, "_parent", None)
                        continue
                if isinstance(cur, (ast.For,)) and a is not cur:
                    if not (_within(a, cur.iter) or _within(a, cur.target)):
                        cur = getattr(cur, "_parent", None)
                        continue
                if isinstance(cur, ast.With) and a is not cur:
                    if not any(_within(a, it) for it in cur.items):
                        cur = getattr(cur, "_parent", None)
                        continue
                return n
            cur = getattr(cur, "_parent", None)
        raise AnalysisError(f"no CFG node for AST node at line {getattr(a, 'lineno', '?')}")

    def stmt_nodes(self):
        return [n for n in self.nodes if n.ast is not None]

    # -- dominators ---------------------------------------------------------
    def _compute(self, start, fwd):
        nodes = self.nodes
        reach = set()
        stack = [start]
        while stack:
            x = stack.pop()
            if x.id in reach:
                continue
            reach.add(x.id)
            stack.extend(x.succ if fwd else x.pred)
        full = set(reach)
        dom = {i: set(full) for i in reach}
        dom[start.id] = {start.id}
        changed = True
        order = [n for n in nodes if n.id in reach]
        while changed:
            changed = False
            for n in order:
                if n is start:
                    continue
                preds = [p for p in (n.pred if fwd else n.succ) if p.id in reach]
                if preds:
                    new = set.intersection(*(dom[p.id] for p in preds)) | {n.id}
                else:
                    new = {n.id}
                if new != dom[n.id]:
                    dom[n.id] = new
                    changed = True
        return dom

    def dominates(self, a, b):
        """Every path entry→b passes a."""
        if self._dom is None:
            self._dom = self._compute(self.entry, True)
        if b.id not in self._dom:
            return True  # b unreachable
        return a.id in self._dom[b.id]

    def postdominates(self, b, a):
        """Every path a→normal exit passes b (paths ending in RAISE are ignored)."""
        if self._pdom is None:
            self._pdom = self._compute(self.exit, False)
        if a.id not in self._pdom:
            return True  # a cannot reach the normal exit
        return b.id in self._pdom[a.id]

    def loop_top(self, a_ast, b_ast=None):
        """CFG node of the outermost loop statement enclosing `a_ast` that does not
        enclose `b_ast` (or of a_ast's own statement when there is no such loop)."""
        top = None
        cur = getattr(a_ast, "_parent", None)
        while cur is not None and cur is not self.fn:
            if isinstance(cur, (ast.For, ast.While)):
                if b_ast is not None and _within(b_ast, cur):
                    break
                top = cur
            cur = getattr(cur, "_parent", None)
        return self.by_ast[id(top)] if top is not None else self.node_of(a_ast)

    def dominates_stmt(self, a_ast, b_ast):
        """`a` (or the loop in which it runs for every element) dominates `b`."""
        return self.dominates(self.loop_top(a_ast, b_ast), self.node_of(b_ast))

    def reachable(self, a, b, avoid=()):
        avoid = {x.id for x in avoid}
        seen = set()
        stack = list(a.succ)
        while stack:
            x = stack.pop()
            if x.id in seen or x.id in avoid:
                continue
            seen.add(x.id)
            if x is b:
                return True
            stack.extend(x.succ)
        return False

    def reaches_self(self, a):
        return self.reachable(a, a)

    def path(self, a, b, avoid=()):
        """Some path a→b as list of nodes (BFS), or None."""
        avoid = {x.id for x in avoid}
        prev = {}
        queue = [a]
        seen = {a.id}
        while queue:
            x = queue.pop(0)
            for y in x.succ:
                if y.id in seen or y.id in avoid:
                    continue
                seen.add(y.id)
                prev[y.id] = x
                if y is b:
                    out = [y]
                    while out[-1] is not a:
                        out.append(prev[out[-1].id])
                    return list(reversed(out))
                queue.append(y)
        return None

    def in_loop(self, n):
        return self.reaches_self(n)


def _within(a, root):
    if root is None:
        return False
    for x in ast.walk(root):
        if x is a:
            return True
    return False


def fmt_path(path):
    return " -> ".join(
        f"L{n.lineno}" if n.ast is not None else n.kind for n in (path or [])
    )
