"""Property -> rules table (single source for check.py, MANIFEST.json and the evidence)."""
from __future__ import annotations

import inspect

from .rules import buffer, connect, data, grid, integ, life, link, misc, regrid2, sched, spill, spill2, valid

COMMON_ASSUMPTIONS = [
    "Python grammar and the stdlib `ast` module; finam is never imported or run: verdicts are about the source text on disk",
    "call resolution by class-hierarchy analysis restricted to classes defined in src/finam; third-party subclasses are out of scope",
    "numpy / pint / scipy semantics are axioms where a rule names them (np.save cannot persist masks; axis-less transpose reverses "
    "all axes; np.flip(axis=i) reverses axis i; timedelta.total_seconds() is linear; datetimes are totally ordered)",
    "abstract interpretation uses finite abstract domains only (adapter kinds, order types of times, mask kinds, layouts, scripted peer "
    "answers); a condition the abstract state cannot decide ends as ANALYSIS-ERROR (exit 2), never as a guess",
]


def call_rule(fn, repo, sink, tier):
    # class-level attribute values (shared by all instances of a class, see Interp.attr) live for one rule only
    repo.__dict__.pop("_class_level_values", None)
    if "tier" in inspect.signature(fn).parameters:
        fn(repo, sink, tier=tier)
    else:
        fn(repo, sink)


PROPS = {}


def prop(pid, rules, explanation, assumptions=()):
    PROPS[pid] = {"rules": rules, "explanation": explanation, "assumptions": COMMON_ASSUMPTIONS + list(assumptions)}


SCHED_MODEL = (
    "data-path model of R02/R03 (a pass-through adapter forwards the request time, a delay adapter shifts it while the request is "
    "still a pull, a no-dependency adapter ends the dependency while it is a pull, a buffering adapter needs a notification at or "
    "after the request; notifications travel downstream unchanged) is the checker's axiom set, instantiated from link-element facts "
    "re-derived from the source on every run"
)


SCHED = [("R01", sched.r01_next_pull), ("R02", sched.r02_sched_agree), ("R03", sched.r03_r09_step), ("R09", sched.r09_structure),
         ("R05", sched.r05_select)]
CONNECT = [("R10", life.r10_stall), ("R10b", life.r10b_mustconnect), ("R11", connect.r11_r12_connect), ("R11r", connect.r11r_rules),
           ("R13", connect.r13_nodata), ("R14", connect.r14_doublepush), ("R06s", life.r06s_start_time)]
LIFE = [("R06", life.r06_life), ("R07", life.r07_status), ("R08", life.r08_advance), ("R08r", life.r08r_reader_finishes)]
LINKDATA = [("R39", buffer.r39_static), ("R17", buffer.r17_nearest), ("R17p", link.r17_pushpath), ("R18", link.r18_pullpath), ("R18s", link.r18s_shape), ("R20", link.r20_target),
            ("R21", buffer.r21_evict), ("R04", buffer.r04_cmp)]
SPILL = [("R22", spill.r22_pack), ("R23", spill2.r23s_finalize), ("R24", spill2.r24s_format), ("R25", spill2.r25s_pack)]
TIMEAD = [("R26", buffer.r26_buffer), ("R27", buffer.r27_interp), ("R27c", buffer.r27c_constructors), ("R30", link.r30_delay)]
INTEG = [("R28", integ.r28_dim), ("R29", integ.r29_integ), ("R29i", integ.r29i_initial_value), ("R27c", buffer.r27c_constructors)]
GRID = [("R31", grid.r31_memo), ("R32", grid.r32_gridsib), ("R32b", grid.r32b_indexspace), ("R32c", grid.r32c_cellcenters),
        ("R32d", grid.r32d_cellcorners),
        ("R33", grid.r33_mirror), ("R34", grid.r34_transdir), ("R19", grid.r19_taxis), ("R15g", data.r15g_gridcompat)]
META = [("R15", data.r15_fields), ("R15c", data.r15c_copy_with), ("R16", data.r16_getinfo), ("R16u", data.r16u_delivered_units), ("R37", data.r37_masktable),
        ("R37e", data.r37e_masks_equal_layout), ("R37p", data.r37p_prepare_mask), ("R41", misc.r41_masktruth)]
REGRID = [("R35", regrid2.r35x), ("R35m", regrid2.r35x_linear_mask), ("R33c", data.r33c_compress)]
UNITS = [("R36", data.r36_units)]
VALID = [("R38", valid.r38_valid)]
STATIC = [("R39", buffer.r39_static), ("R40", link.r40_cbtime), ("R40c", link.r40c_shared_conduit), ("R14f", misc.r14_fresh)]


def _u(*groups):
    out, seen = [], set()
    for g in groups:
        for rid, fn in (g if isinstance(g, list) else [g]):
            if fn not in seen:
                seen.add(fn)
                out.append((rid, fn))
    return out


RULES = {
    "C01": _u(SCHED, LINKDATA, TIMEAD, ("R40c", link.r40c_shared_conduit), ("R06s", life.r06s_start_time), ("R14", connect.r14_doublepush), ("R16", data.r16_getinfo), ("R11i", connect.r11_initial_pull)),
    "C02": _u(SCHED, ("R30", link.r30_delay)),
    "C03": _u(("R05t", sched.r05t_terminate), LIFE, SCHED, CONNECT, ("R42a", misc.r42a_fresh_copy), ("R16", data.r16_getinfo), ("R30", link.r30_delay)),
    "C04": _u(("R09p", sched.r09p_ring_pull), SCHED, CONNECT, ("R30", link.r30_delay), ("R16", data.r16_getinfo), ("R29i", integ.r29i_initial_value)),
    "C06": _u(("R29i", integ.r29i_initial_value), CONNECT, LIFE, ("R17p", link.r17_pushpath), ("R15", data.r15_fields), ("R16", data.r16_getinfo)),
    "C07": _u(META, ("R11", connect.r11_r12_connect), ("R11r", connect.r11r_rules), ("R13", connect.r13_nodata),
              ("R34", grid.r34_transdir), ("R15g", data.r15g_gridcompat), ("R36", data.r36_units), ("R35", regrid2.r35x)),
    "C08": _u(("R19s", link.r19s_strip_time), LINKDATA, ("R19", grid.r19_taxis), ("R33", grid.r33_mirror), ("R34", grid.r34_transdir), ("R15g", data.r15g_gridcompat),
              UNITS, ("R16u", data.r16u_delivered_units), ("R37", data.r37_masktable), ("R37p", data.r37p_prepare_mask), ("R37e", data.r37e_masks_equal_layout), ("R22", spill.r22_pack), ("R25", spill2.r25s_pack),
              ("R24", spill2.r24s_format), ("R42u", misc.r42u_quantity)),
    "C09": _u(("R20", link.r20_target), ("R21", buffer.r21_evict), ("R17", buffer.r17_nearest), ("R17p", link.r17_pushpath), SPILL,
              VALID, TIMEAD, INTEG),
    "C10": _u(SPILL, ("R20", link.r20_target), ("R21", buffer.r21_evict), ("R26", buffer.r26_buffer), ("R27", buffer.r27_interp), ("R29", integ.r29_integ),
              ("R17p", link.r17_pushpath)),
    "C11": _u(("R19s", link.r19s_strip_time), TIMEAD, ("R20", link.r20_target), ("R21", buffer.r21_evict), ("R04", buffer.r04_cmp), ("R22", spill.r22_pack), ("R24", spill2.r24s_format),
              ("R25", spill2.r25s_pack)),
    "C12": _u(("R19s", link.r19s_strip_time), INTEG, ("R20", link.r20_target), ("R26", buffer.r26_buffer), ("R22", spill.r22_pack), ("R21", buffer.r21_evict), ("R04", buffer.r04_cmp),
              ("R24", spill2.r24s_format), ("R25", spill2.r25s_pack)),
    "C13": _u(("R30", link.r30_delay), ("R27c", buffer.r27c_constructors), ("R02", sched.r02_sched_agree), ("R03", sched.r03_r09_step), ("R20", link.r20_target), ("R16", data.r16_getinfo)),
    "C14": _u(("R31", grid.r31_memo), ("R31d", grid.r31d_c14), ("R32", grid.r32_gridsib), ("R32b", grid.r32b_indexspace), ("R32c", grid.r32c_cellcenters),
              ("R32d", grid.r32d_cellcorners),
              ("R33", grid.r33_mirror), ("R15g", data.r15g_gridcompat)),
    "C15": _u(("R19", grid.r19_taxis), ("R31d", grid.r31d_c15), ("R15gl", data.r15gl_without_location), ("R33", grid.r33_mirror), ("R34", grid.r34_transdir), ("R15g", data.r15g_gridcompat),
              ("R32", grid.r32_gridsib), ("R18", link.r18_pullpath), ("R37e", data.r37e_masks_equal_layout), ("R39", buffer.r39_static),
              ("R20", link.r20_target), ("R15c", data.r15c_copy_only), ("R15", data.r15_fields)),
    "C16": _u(REGRID, ("R32c", grid.r32c_cellcenters), ("R32", grid.r32_gridsib), ("R32b", grid.r32b_indexspace), ("R32d", grid.r32d_cellcorners),
              ("R41", misc.r41_masktruth), ("R37", data.r37_masktable), ("R16", data.r16_getinfo), ("R31", grid.r31_memo)),
    "C17": _u(UNITS, ("R18", link.r18_pullpath), ("R15", data.r15_fields), ("R16u", data.r16u_delivered_units), ("R24", spill2.r24s_format),
              ("R40", link.r40_cbtime), ("R39", buffer.r39_static), ("R17p", link.r17_pushpath), ("R28", integ.r28_dim), ("R42u", misc.r42u_quantity), ("R11r", connect.r11r_rules), ("R16", data.r16_getinfo)),
    "C18": _u(("R37", data.r37_masktable), ("R37e", data.r37e_masks_equal_layout), ("R37p", data.r37p_prepare_mask), ("R33c", data.r33c_compress), UNITS,
              ("R15", data.r15_fields), ("R15c", data.r15c_copy_with), ("R41", misc.r41_masktruth), ("R33", grid.r33_mirror), ("R34", grid.r34_transdir)),
    "C19": _u(VALID, ("R06", life.r06_life), ("R20", link.r20_target)),
    "C20": _u(("R09p", sched.r09p_ring_pull), ("R11s", connect.r11s_static_slots), STATIC, ("R38s", valid._slot_constructors), ("R14", connect.r14_doublepush), ("R03", sched.r03_r09_step), ("R09", sched.r09_structure), ("R02", sched.r02_sched_agree), ("R17p", link.r17_pushpath),
              ("R18", link.r18_pullpath)),
}
SCHED_PROPS = {"C01", "C02", "C04", "C13", "C20", "C03"}

TEXTS = {'C01': 'Static, clause level: (R01) every in-repo time component pulls in _update exactly at the time next_time announced before the update (two consecutive abstract updates over a symbolic clock with uninterpreted calendar arithmetic; syntactic clock terms only where a body is outside the vocabulary); (R02) the dependency walk of _find_dependencies, abstractly interpreted over all chains of adapter kinds (length <= 3 quick / 5 thorough, time-stepped and pull-based owners, shared outputs, static outputs), demands from the source exactly the time the data path requests; (R03) the decision table of one scheduling step over 16 small topologies updates a component only when none of its transitive dependencies (through pull-based components) lags; (R17/R04) refusals of outputs and check_time are the exact complement of the strict lag test. NOT decided: truthfulness of third-party components, positivity of steps.',
    'C02': "Static: (R05) the run loop hands exactly one arg-min-of-time component per iteration to the scheduling step, update() has one call site, the strict termination test guards the back edge and ignores finished components; (R02) assumed time == requested time for every adapter-kind chain incl. accumulated delays and strict lag test; (R03) the step's decision table only ever updates the start component or a component reached through lagging links. NOT decided: optimality of the whole schedule.", 'C03': 'Static: (R06) life-cycle calls occur in the order initialize/connect/validate/update/finalize on every path of Composition, each followed by a status check, finalize post-dominates the loop, adapters are held in a set and finalized at one call site, SDK wrappers call their hook exactly once; (R07) status tables of wrappers, hooks and driver agree (FINISHED kept, accepted, not selected); (R08) every in-repo time component advances its clock exactly once per update; (R05/R05t/R03) scripted runs of the real constructor / connect / run: every step starts from a least-advanced unfinished component, no step is started once all are finished or at the end time (also when all are beyond it from the start), the run finalizes; (R42) the in-repo forwarding component publishes a copy of what it pulled (a re-published stored array is refused by the output and aborts a valid run). NOT decided: finiteness (needs positive steps), final times.',
    'C04': 'Static: (R09) cycle test dominates every recursive call, the same chain object is passed, and the decision table over cyclic / diamond topologies (direct, through pull-based components, with delay / no-dependency adapters) raises FinamCircularCouplingError exactly for cycles of lagging links and nothing else (no TypeError, no false cycle); (R10) the connect loop, run against scripted component statuses, ends iff all connect and raises the circular-coupling error listing exactly the stuck components as soon as an iteration makes no progress; (R10b) every in-repo _connect reaches try_connect; (R02) delays split over several adapters accumulate; (R09p) delay-resolved rings through pull-based components with a slower consumer on the same pull-based output - on the current tree this is the OPEN KNOWN FINDING F29 (a circular-coupling error is declared without testing whether the own request of the ring member can be served; printed as KNOWN-FINDING, exit 0); (R29i) the integration adapters answer repeated requests at the first buffered time. NOT decided: the arithmetic sufficiency of delays vs. steps.',
    'C06': 'Static: (R11/R12) ConnectHelper.connect, abstractly interpreted against 30 scripted peers (each exchange succeeding at its own attempt), reports CONNECTED iff every declared exchange is done, CONNECTING iff something new was exchanged in this call, else CONNECTING_IDLE, never repeats an exchange, and pulls initial data for the composition start; (R13) only FinamNoDataError is swallowed and no state change precedes a possible FinamNoDataError on the exchange path; (R14) initial data is published for composition start and producer start (fresh copy); (R10/R10b) connect loop terminates / lists stuck components. NOT decided: user _connect hooks, convergence speed.',
    'C07': 'Static: (R15) decision table of Info.accepts (every incompatible field recorded, unset fields tolerated only from downstream), both directions checked with a conflict ending in FinamMetaDataError, Output.get_info fills unset fields before counting the exchange; (R16) abstract runs of the public get_info() of every concrete adapter against a scripted source: exactly one request reaches the source, it carries the time and units of the consumer (or leaves them open), the delivered info carries the time and meta data of the source; ValueToGrid asks for grid-less data and refuses a conflicting grid, GridToValue leaves the grid open; (R37) mask acceptance table; (R41) no mask value in a truth context; (R34) merged input info and transform direction. NOT decided: numeric grid compatibility (np.allclose on coordinates) and unit dimensionality (pint).',
    'C08': 'Static: (R17) Output.get_data over all order types (<=3/5 publications x request positions incl. midpoints) serves the nearest publication and refuses everything outside [oldest, newest]; push_data stages are ordered (time check, guards, prepare, memory-sharing refusal, pack, append, publish time, notify); (R18) every pull goes through transform -> to_units -> check; (R19) no time-leading data reaches a rank-sensitive grid transform; (R36) relabel iff equivalent, convert otherwise; (R33/R34) layout algebra of the grid transform. NOT decided: numeric equality of values, shape normalisation in prepare.',
    'C09': "Static: (R20) the end point an adapter registers with pinged() is the one named in its pulls, for all 18 adapter classes; (R21) decision table of Output.get_data/_clear_data over order types with 1-2 consumers (plain or adapter, lagging, never pulled) and of every buffering adapter: exactly the entries older than the last one at/before the slowest consumer's request are dropped, files removed, RAM counter adjusted; (R25/R23) retained spilled entries keep unique files. NOT decided: the premise of non-decreasing requests (follows from C01/C03 for driver-made requests).", 'C10': "Static: (R22) packed/unpacked typestate over every read of a spill container's payload: no packed entry (possibly a file name) reaches a return, arithmetic or foreign call without _unpack; (R23) every eviction removes the file / decrements the RAM counter in the right branch and Composition's finalize path reaches, for every class owning a spill container, code removing all remaining files; (R24) writer and reader agree on masked payloads (type-test guard) and on the unit domain of the label; (R25) file names lie below memory_location, are unique per slot and spill, limit/location reach all outputs and adapters before data flows. NOT decided: bit-equality of the .npy round trip.", 'C11': 'Static: (R27) _get_data of Next/Previous/Linear/StepTime abstractly interpreted over every order type (buffer sizes 1..3/5 x request positions): the result is, as a term, the first entry at/after t, the last at/before t, old + dt*(new-old) with dt=(t-t_old)/(t_new-t_old) (rational normal form), the step interpolant with the documented strictness; out-of-range requests raise FinamTimeError; (R26) notifications pull(time, self), strip, pack, append; (R21) eviction keeps what later requests need; (R19s) strip_time removes exactly the leading time axis (decision table over concrete shapes incl. payload axes of length one). NOT decided: floating point results, broadcasting of gridded payloads.',
    'C12': 'Static: (R29) _get_data of Avg/SumOverTime abstractly interpreted over order types of (previous pull, request, buffer times, step position): the returned term equals, as a rational function of the symbolic values and times, the exact integral of the linear / step interpolant over [previous pull, request] (divided by its length for the average), the interval start moves to the request and eviction uses the old start; (R28) time exponent of result and declared units agree. NOT decided: numerical conservation, range of averages as numbers.',
    'C13': 'Static: (R30) TimeDelayAdapter.get_data = with_delay(time) -> pull(delayed, target) -> _pulled(original); decision tables of the three with_delay implementations (max(t-delay, start); n-th previous request minus extra delay incl. repeated request times, bounded history; start before first push else min(t, newest push)); (R02) chained delays add up and the driver assumes what is requested. NOT decided: values delivered by the source.',
    'C14': "Static: (R31) every writer of a field a memoised grid property is computed from resets the memo; (R32) points, cells, cell_centers, data_shape, data_axes, data_points agree on order / axis direction / data location, setters validate locations, casts forward all layout fields; (R32b) index-space typing of order_map and of gen_cells' re-ordering; flat axes at any position leave the cells of the grid without them; (R31d) state a grid constructor derives from other attributes is brought up to date by whoever assigns those later; (R32 axes-owned) a rectilinear grid works on its own copies of the given coordinate arrays. (R32d) the corner formulas of gen_cells as index algebra (mixed-radix / point-id polynomials). NOT decided: coordinates as numbers.", 'C15': "Static: (R33) layout algebra: to_canonical / from_canonical, abstractly interpreted for all 28 layouts (1-3 D, both axis orders, every direction combination), yield x,y,z-indexed increasing data, the grid's own layout, and the identity when composed; (R34) get_transform_to maps source layout onto target layout for all layout pairs, returns None only for equal layouts (the class's own __eq__), refuses incompatible grids; Input takes the transform source->merged grid; (R19) the transform never sees the time axis; (R15gl) compatible_with(other, check_location=False) answers False for grids of different sizes; (R31d) derived layout state follows later assignments of its sources. NOT decided: 'compatible exactly when same locations' (np.allclose on coordinates).", 'C16': "Static: (R35) both regridders end to end (constructor, link, public get_info with the real metadata exchange, grid set-up, _get_data) over provenance-labelled terms: the tree / interpolator is built over the delivered source grid's points (source mask and order applied) and queried at the output grid's points (output mask, order, CRS target->source), pulled data is flattened in the delivered grid's order and expanded with the output grid's shape / order / announced mask; a user-given input grid in another layout is never paired with the data; differing output grids, missing specs, one-sided CRS are refused; (R35m) decision table of the mask announced by RegridLinear; (R41) masks are never truth-tested; (R33c) to_compressed / from_compressed mirror each other. NOT decided: nearest-neighbour and affine exactness (scipy), convex-hull masking.", 'C17': 'Static: (R36) decision table of compatible_units / equivalent_units / _cache_units against a scripted pint: compatible iff the conversion does not raise DimensionalityError, equivalent iff converting 1 gives 1, memo keyed by the ordered pair, answers independent of query history; to_units relabels iff equivalent, converts otherwise, refuses incompatible; prepare/check raise FinamDataError; (R42/R40/R28/R16) in-repo components and adapters hand on quantities with their units (TimeTrigger, WeightedSum, the time factor of SumOverTime, delivered units of every adapter). NOT decided: physical exactness of factors and offsets (pint is trusted).',
    'C18': 'Static: (R37) masks_compatible over 98 combinations of {None, FLEX, NONE, nomask, masks} x direction equals the documented table; masks travel with their own grid; prepare applies exactly info.mask; (R33c) compress/expand use the same order for data and mask and the negated mask as selector. NOT decided: element-wise round-trip equality as numbers.',
    'C19': 'Static: (R38) _validate_composition abstractly interpreted over 150+ topologies (all chains of source/adapter/sink kinds up to length 2, static combinations, unconnected inputs, fan-outs at/below/above no-branch adapters and next to sibling branches through them in both link orders, missing components with equal and distinct slot names and at every input position): FinamConnectError exactly for the unworkable ones; metadata reports exactly the created links; (R06) validation dominates the first exchange. NOT decided: arbitrary fan-out trees beyond the enumerated shapes.',
    'C20': 'Static: (R39) static output serves its single publication for any time, refuses a second one, stores time None; static input fetches once; (R40) a pull-based output invokes its provider once with the requested time, WeightedSum pulls all inputs for that time and multiplies each value with its own weight; (R14) providers return fresh objects; (R03/R09) scheduling through pull-based components; (R09p) rings through pull-based components (open known finding F29, see C04); (R11s) static outputs take no part in the common-starting-time check of the connect helper; (R40c) several consumers behind one pull-based component - on the current tree this is the OPEN KNOWN FINDING F16 (the upstream output sees them as one end point and discards what the slower-requesting one still needs; printed as KNOWN-FINDING, exit 0). NOT decided: the numeric sum.'}

for _pid in sorted(RULES):
    TEXTS[_pid] += (" Rules evaluated under this property (each a necessary condition of a mechanism the property relies on; "
                    "see DESIGN.md section 4 and 9.2 for their definitions): " + ", ".join(r for r, _ in RULES[_pid]) + ".")
    prop(_pid, RULES[_pid], TEXTS[_pid], [SCHED_MODEL] if _pid in SCHED_PROPS else (["np.save cannot persist a mask (numpy axiom)"] if _pid == "C10" else []))
