"""Property -> rules table."""
from __future__ import annotations

import inspect

from .rules import sched

COMMON_ASSUMPTIONS = [
    "Python grammar and the stdlib `ast` module",
    "call resolution by class-hierarchy analysis restricted to classes defined in src/finam; "
    "third-party subclasses are out of scope",
    "numpy / pint / scipy semantics are axioms where a rule names them",
    "finam is never imported or run; verdicts are about the source text on disk",
]


def call_rule(fn, repo, sink, tier):
    if "tier" in inspect.signature(fn).parameters:
        fn(repo, sink, tier=tier)
    else:
        fn(repo, sink)


PROPS = {}


def prop(pid, rules, explanation, assumptions=()):
    PROPS[pid] = {
        "rules": rules,
        "explanation": explanation,
        "assumptions": COMMON_ASSUMPTIONS + list(assumptions),
    }


R_SCHED_MODEL = (
    "data-path model of R02/R03 (what a buffer needs, what a notification carries) is the "
    "checker's stated axiom set (DESIGN 4/C01), instantiated from link-element facts that are "
    "re-derived from the source on every run"
)

prop(
    "C01",
    [
        ("R01", sched.r01_next_pull),
        ("R02", sched.r02_sched_agree),
        ("R03", sched.r03_r09_step),
        ("R09", sched.r09_structure),
    ],
    "Static: (R01) every in-repo time component pulls in _update at exactly the time its "
    "_next_time announces; (R02) the dependency walk of _find_dependencies, abstractly "
    "interpreted over all chains of adapter kinds, demands from the source exactly the time the "
    "data path requests (delays while the request is a pull, nothing upstream of a buffering "
    "adapter); (R03) the decision table of one scheduling step over small topologies updates a "
    "component only when none of its (transitive, through pull-based components) dependencies "
    "lags. NOT decided: truthfulness of third-party components, positivity of steps, numeric "
    "selection of the served entry.",
    [R_SCHED_MODEL],
)

from .rules import spill  # noqa: E402

prop(
    "C10",
    [
        ("R22", spill.r22_pack),
        ("R23", spill.r23_spillfree),
        ("R24", spill.r24_spillfmt),
        ("R25", spill.r25_spillwire),
    ],
    "Static: (R22) typestate packed/unpacked over every read of a spill container's payload "
    "slot: no packed entry (possibly a file name) reaches a return, arithmetic or a foreign "
    "call without _unpack; (R23) every eviction removes the file / decrements the RAM counter "
    "in the right branch, and Composition's finalize path reaches, for every class owning a "
    "spill container, code that removes all remaining files; (R24) writer/reader agree on "
    "masked payloads and on the unit domain of the label; (R25) file names lie below "
    "memory_location, are unique per slot and spill, and Composition hands limit/location to "
    "all outputs and collected adapters before data flows. NOT decided: bit-equality of the "
    ".npy round trip.",
    ["np.save cannot persist a mask (numpy axiom)"],
)

from .rules import life  # noqa: E402

prop(
    "C03",
    [
        ("R06", life.r06_life),
        ("R07", life.r07_status),
        ("R08", life.r08_advance),
        ("R05", sched.r05_select),
        ("R03", sched.r03_r09_step),
    ],
    "Static: (R06) life-cycle calls of components and adapters appear in the order initialize, "
    "connect, validate, update, finalize on every path of Composition, each followed by a status "
    "check, finalize post-dominates the loop, adapters are finalized once each; (R07) the "
    "typestate tables of SDK wrappers, hooks and driver agree (a status a hook may set and the "
    "driver branches on is kept, accepted, and excluded from selection); (R08) every in-repo "
    "time component advances its clock exactly once per update; (R05/R03) one update per loop "
    "iteration and strict termination test. NOT decided: finiteness (needs positive steps), "
    "actual final times.",
)

from .rules import grid, misc  # noqa: E402

prop("C14", [("R31", grid.r31_memo)], "R31 memo invalidation (more rules pending).")
prop("C15", [("R19", grid.r19_taxis)], "R19 time-axis discipline (more rules pending).")
prop("C20", [("R14", misc.r14_fresh)], "R14 provider freshness (more rules pending).")
prop("C16", [("R35b", misc.r35b_specside), ("R41", misc.r41_masktruth)], "R35b/R41 (more rules pending).")

from .rules import buffer  # noqa: E402

prop("C11", [("R27", buffer.r27_interp), ("R26", buffer.r26_buffer), ("R21", buffer.r21_evict), ("R04", buffer.r04_cmp), ("R22", spill.r22_pack)], "pending text")
prop("C09", [("R21", buffer.r21_evict), ("R25", spill.r25_spillwire), ("R23", spill.r23_spillfree)], "pending text")
prop("C08", [("R17", buffer.r17_nearest), ("R04", buffer.r04_cmp), ("R19", grid.r19_taxis)], "pending text")
PROPS["C20"]["rules"].append(("R39", buffer.r39_static))

from .rules import link  # noqa: E402

PROPS["C09"]["rules"].insert(0, ("R20", link.r20_target))
PROPS["C08"]["rules"] += [("R17p", link.r17_pushpath), ("R18", link.r18_pullpath)]
PROPS["C20"]["rules"] += [("R40", link.r40_cbtime), ("R03", sched.r03_r09_step)]
prop("C13", [("R30", link.r30_delay), ("R02", sched.r02_sched_agree)], "pending text")
prop("C02", [("R05", sched.r05_select), ("R02", sched.r02_sched_agree), ("R03", sched.r03_r09_step)], "pending text")
prop("C04", [("R09", sched.r09_structure), ("R09s", sched.r03_r09_step), ("R10", life.r10_stall), ("R10b", life.r10b_mustconnect), ("R02", sched.r02_sched_agree)], "pending text")

from .rules import connect  # noqa: E402

prop("C06", [("R11", connect.r11_r12_connect), ("R13", connect.r13_nodata), ("R14", connect.r14_doublepush),
             ("R10", life.r10_stall), ("R10b", life.r10b_mustconnect), ("R06", life.r06_life)], "pending text")

from .rules import integ  # noqa: E402

prop("C12", [("R29", integ.r29_integ), ("R28", integ.r28_dim), ("R26", buffer.r26_buffer), ("R22", spill.r22_pack)], "pending text")

from .rules import valid  # noqa: E402

prop("C19", [("R38", valid.r38_valid), ("R06", life.r06_life)], "pending text")

PROPS["C14"]["rules"].append(("R32", grid.r32_gridsib))
PROPS["C15"]["rules"] += [("R33", grid.r33_mirror), ("R34", grid.r34_transdir)]

from .rules import data  # noqa: E402

prop("C17", [("R36", data.r36_units)], "pending text")
prop("C18", [("R37", data.r37_masktable), ("R33", data.r33c_compress)], "pending text")
prop("C07", [("R15", data.r15_fields), ("R16", data.r16_getinfo), ("R37", data.r37_masktable), ("R41", misc.r41_masktruth), ("R34", grid.r34_transdir)], "pending text")
PROPS["C16"]["rules"].insert(0, ("R35", data.r35_regrid))
PROPS["C16"]["rules"].append(("R33", data.r33c_compress))

PROPS["C14"]["rules"].append(("R32b", grid.r32b_indexspace))

PROPS["C08"]["rules"] += [("R36", data.r36_units), ("R34", grid.r34_transdir), ("R33", grid.r33_mirror)]
