"""Property -> rules table."""
from __future__ import annotations

import inspect

from .rules import sched

COMMON_ASSUMPTIONS = [
    "Python grammar and the stdlib `ast` module",
    "call resolution by class-hierarchy analysis restricted to classes defined in src/finam; "
    "third-party subclasses are out of scope",
    "numpy / pint / scipy semantics are axioms where a rule names them",
    "finam is never imported or run; verdicts are about the source text on disk",
]


def call_rule(fn, repo, sink, tier):
    if "tier" in inspect.signature(fn).parameters:
        fn(repo, sink, tier=tier)
    else:
        fn(repo, sink)


PROPS = {}


def prop(pid, rules, explanation, assumptions=()):
    PROPS[pid] = {
        "rules": rules,
        "explanation": explanation,
        "assumptions": COMMON_ASSUMPTIONS + list(assumptions),
    }


R_SCHED_MODEL = (
    "data-path model of R02/R03 (what a buffer needs, what a notification carries) is the "
    "checker's stated axiom set (DESIGN 4/C01), instantiated from link-element facts that are "
    "re-derived from the source on every run"
)

prop(
    "C01",
    [
        ("R01", sched.r01_next_pull),
        ("R02", sched.r02_sched_agree),
        ("R03", sched.r03_r09_step),
        ("R09", sched.r09_structure),
    ],
    "Static: (R01) every in-repo time component pulls in _update at exactly the time its "
    "_next_time announces; (R02) the dependency walk of _find_dependencies, abstractly "
    "interpreted over all chains of adapter kinds, demands from the source exactly the time the "
    "data path requests (delays while the request is a pull, nothing upstream of a buffering "
    "adapter); (R03) the decision table of one scheduling step over small topologies updates a "
    "component only when none of its (transitive, through pull-based components) dependencies "
    "lags. NOT decided: truthfulness of third-party components, positivity of steps, numeric "
    "selection of the served entry.",
    [R_SCHED_MODEL],
)
