"""Loader, module table, class hierarchy (C3 MRO) and member resolution.

`Repo(root)` parses every ``*.py`` below ``<root>/src/finam``.  A `Repo` can also be
built with *overrides* (``{relative path: source text}``) which is how the in-memory
variants of the thorough tier and of the self-test are produced without touching disk.
"""
from __future__ import annotations

import ast
import hashlib
import os


class AnalysisError(Exception):
    """The construct a rule is anchored on is missing or has an unknown shape."""


PKG = "finam"


class Module:
    def __init__(self, name, relpath, src, is_pkg):
        self.name = name
        self.relpath = relpath
        self.src = src
        self.is_pkg = is_pkg
        self.tree = ast.parse(src, filename=relpath)
        self.digest = hashlib.sha256(src.encode()).hexdigest()
        for node in ast.walk(self.tree):
            for child in ast.iter_child_nodes(node):
                child._parent = node  # type: ignore[attr-defined]
        self.imports = {}  # local name -> ("mod", modname) | ("sym", modname, symbol)
        self.classes = {}
        self.funcs = {}
        self.consts = {}

    @property
    def package(self):
        return self.name if self.is_pkg else self.name.rsplit(".", 1)[0]


class Func:
    """A function or method (incl. nested closures) with its owner."""

    def __init__(self, module, node, cls=None, outer=None):
        self.module = module
        self.node = node
        self.cls = cls
        self.outer = outer
        self.name = node.name

    @property
    def qualname(self):
        if self.outer is not None:
            return f"{self.outer.qualname}.<locals>.{self.name}"
        if self.cls is not None:
            return f"{self.cls.name}.{self.name}"
        return f"{self.module.name.split('.', 1)[-1]}.{self.name}"

    @property
    def file(self):
        return self.module.relpath

    @property
    def params(self):
        a = self.node.args
        names = [x.arg for x in a.posonlyargs + a.args]
        if self.cls is not None and names and not self.is_static:
            names = names[1:]
        return names

    @property
    def is_static(self):
        return any(
            isinstance(d, ast.Name) and d.id == "staticmethod"
            for d in self.node.decorator_list
        )

    @property
    def is_classmethod(self):
        return any(isinstance(d, ast.Name) and d.id == "classmethod" for d in self.node.decorator_list)

    def __repr__(self):
        return f"<Func {self.qualname}>"


class Class:
    def __init__(self, module, node):
        self.module = module
        self.node = node
        self.name = node.name
        self.base_exprs = list(node.bases)
        self.bases = []  # resolved Class or str (external)
        self.methods = {}  # name -> Func (plain methods)
        self.getters = {}  # property name -> Func
        self.setters = {}
        self.attrs = {}  # class-level assignments name -> ast expr
        self.ann_fields = []  # annotated class-level names (name, default expr | None)
        self.decorators = [ast.unparse(d) for d in node.decorator_list]
        self._mro = None

    @property
    def file(self):
        return self.module.relpath

    def __repr__(self):
        return f"<Class {self.name}>"


def _decorator_kind(fn):
    for d in fn.decorator_list:
        if isinstance(d, ast.Name) and d.id == "property":
            return "getter"
        if isinstance(d, ast.Attribute) and d.attr == "setter":
            return "setter"
        if isinstance(d, ast.Attribute) and d.attr == "getter":
            return "getter"
    return "method"


class Repo:
    def __init__(self, root="/repo", overrides=None):
        self.root = root
        self.src_root = os.path.join(root, "src")
        self.modules = {}
        self.by_path = {}
        self.consulted = set()
        overrides = overrides or {}
        pkg_root = os.path.join(self.src_root, PKG)
        if not os.path.isdir(pkg_root):
            raise AnalysisError(f"package directory {pkg_root} not found")
        for dp, dn, fns in os.walk(pkg_root):
            dn[:] = [d for d in dn if d != "__pycache__"]
            for fn in sorted(fns):
                if not fn.endswith(".py"):
                    continue
                full = os.path.join(dp, fn)
                rel = os.path.relpath(full, root)
                if rel in overrides:
                    src = overrides[rel]
                else:
                    with open(full, encoding="utf-8") as fh:
                        src = fh.read()
                parts = os.path.relpath(full, self.src_root)[:-3].split(os.sep)
                is_pkg = parts[-1] == "__init__"
                if is_pkg:
                    parts = parts[:-1]
                name = ".".join(parts)
                try:
                    mod = Module(name, rel, src, is_pkg)
                except SyntaxError as exc:
                    raise AnalysisError(f"{rel}: does not parse: {exc}") from exc
                self.modules[name] = mod
                self.by_path[rel] = mod
        for rel in overrides:
            if rel not in self.by_path:
                raise AnalysisError(f"override for unknown file {rel}")
        for mod in self.modules.values():
            self._index(mod)
        self.classes = {}
        self._dups = set()
        for mod in self.modules.values():
            for c in mod.classes.values():
                if c.name in self.classes:
                    self._dups.add(c.name)
                self.classes[c.name] = c
        for c in self.all_classes():
            c.bases = [self._resolve_base(c.module, b) for b in c.base_exprs]

    # ------------------------------------------------------------------ index
    def _index(self, mod):
        for node in mod.tree.body:
            self._index_stmt(mod, node)
        # imports written inside functions (to avoid import cycles) bind names the function bodies use: resolved like
        # module-level ones unless the module binds the name itself
        top = set(map(id, mod.tree.body))
        for node in ast.walk(mod.tree):
            if isinstance(node, (ast.Import, ast.ImportFrom)) and id(node) not in top:
                for a in node.names:
                    name = (a.asname or a.name.split(".")[0]) if isinstance(node, ast.Import) else (a.asname or a.name)
                    if name in mod.imports or name in mod.classes or name in mod.funcs or name in mod.consts:
                        continue
                    mod.imports[name] = ("mod", a.name) if isinstance(node, ast.Import) else ("sym", self._abs_from(mod, node), a.name)

    def _index_stmt(self, mod, node):
        if isinstance(node, ast.Import):
            for a in node.names:
                mod.imports[a.asname or a.name.split(".")[0]] = ("mod", a.name)
        elif isinstance(node, ast.ImportFrom):
            base = self._abs_from(mod, node)
            for a in node.names:
                mod.imports[a.asname or a.name] = ("sym", base, a.name)
        elif isinstance(node, ast.ClassDef):
            c = Class(mod, node)
            mod.classes[c.name] = c
            for m in node.body:
                if isinstance(m, (ast.FunctionDef, ast.AsyncFunctionDef)):
                    f = Func(mod, m, cls=c)
                    kind = _decorator_kind(m)
                    if kind == "getter":
                        c.getters[m.name] = f
                    elif kind == "setter":
                        c.setters[m.name] = f
                    else:
                        c.methods[m.name] = f
                elif isinstance(m, ast.Assign):
                    for t in m.targets:
                        if isinstance(t, ast.Name):
                            c.attrs[t.id] = m.value
                elif isinstance(m, ast.AnnAssign) and isinstance(m.target, ast.Name):
                    c.ann_fields.append((m.target.id, m.value))  # dataclass / NamedTuple fields in declaration order
                    if m.value is not None:
                        c.attrs[m.target.id] = m.value
        elif isinstance(node, (ast.FunctionDef, ast.AsyncFunctionDef)):
            mod.funcs[node.name] = Func(mod, node)
        elif isinstance(node, ast.Assign):
            for t in node.targets:
                if isinstance(t, ast.Name):
                    mod.consts[t.id] = node.value
                elif isinstance(t, (ast.Tuple, ast.List)) and isinstance(node.value, (ast.Tuple, ast.List)) and len(t.elts) == len(node.value.elts):
                    for tt, vv in zip(t.elts, node.value.elts):  # A, B = "a", "b"
                        if isinstance(tt, ast.Name):
                            mod.consts[tt.id] = vv
        elif isinstance(node, ast.AnnAssign) and isinstance(node.target, ast.Name) and node.value is not None:
            mod.consts[node.target.id] = node.value
        elif isinstance(node, (ast.If, ast.Try)):
            for sub in ast.iter_child_nodes(node):
                if isinstance(sub, ast.stmt):
                    self._index_stmt(mod, sub)

    def _abs_from(self, mod, node):
        if node.level == 0:
            return node.module or ""
        pkg = mod.package.split(".")
        if node.level > 1:
            pkg = pkg[: len(pkg) - (node.level - 1)]
        base = ".".join(pkg)
        return f"{base}.{node.module}" if node.module else base

    # ------------------------------------------------------------- resolution
    def resolve_symbol(self, modname, symbol, depth=0):
        """Follow re-exports: returns Class, Func, Module, ast expr (constant) or None."""
        if depth > 8:
            return None
        sub = self.modules.get(f"{modname}.{symbol}")
        mod = self.modules.get(modname)
        if mod is None:
            return None
        if symbol in mod.classes:
            return mod.classes[symbol]
        if symbol in mod.funcs:
            return mod.funcs[symbol]
        if symbol in mod.imports:
            imp = mod.imports[symbol]
            if imp[0] == "sym":
                if imp[1] == modname and imp[2] == symbol:
                    return sub  # `from . import submodule`
                r = self.resolve_symbol(imp[1], imp[2], depth + 1)
                return r if r is not None else self.modules.get(f"{imp[1]}.{imp[2]}")
            return self.modules.get(imp[1])
        if symbol in mod.consts:
            return mod.consts[symbol]
        return sub

    def lookup(self, mod, name):
        """Resolve a bare name used inside module `mod`."""
        if name in mod.classes:
            return mod.classes[name]
        if name in mod.funcs:
            return mod.funcs[name]
        if name in mod.imports:
            imp = mod.imports[name]
            if imp[0] == "sym":
                return self.resolve_symbol(imp[1], imp[2])
            return self.modules.get(imp[1])
        if name in mod.consts:
            return mod.consts[name]
        return None

    def lookup_expr(self, mod, expr):
        """Resolve `Name` or dotted `a.b.c` expressions to repo entities."""
        if isinstance(expr, ast.Name):
            return self.lookup(mod, expr.id)
        if isinstance(expr, ast.Attribute):
            base = self.lookup_expr(mod, expr.value)
            if isinstance(base, Module):
                return self.resolve_symbol(base.name, expr.attr)
        return None

    def _resolve_base(self, mod, expr):
        r = self.lookup_expr(mod, expr)
        if isinstance(r, Class):
            return r
        return ast.unparse(expr)

    # ---------------------------------------------------------------- queries
    def module(self, relpath):
        m = self.by_path.get(relpath)
        if m is None:
            raise AnalysisError(f"module {relpath} not found")
        self.consulted.add(relpath)
        return m

    def all_classes(self):
        for mod in self.modules.values():
            yield from mod.classes.values()

    def cls(self, name):
        c = self.classes.get(name)
        if c is None:
            raise AnalysisError(f"class {name} not found in src/finam")
        if name in self._dups:
            raise AnalysisError(f"class name {name} is ambiguous in src/finam")
        self.consulted.add(c.file)
        return c

    def has_cls(self, name):
        return name in self.classes

    def mro(self, c):
        if c._mro is not None:
            return c._mro
        seqs = []
        for b in c.bases:
            if isinstance(b, Class):
                seqs.append(list(self.mro(b)))
        seqs.append([b for b in c.bases if isinstance(b, Class)])
        res = [c]
        seqs = [s for s in seqs if s]
        while seqs:
            for s in seqs:
                cand = s[0]
                if not any(cand in t[1:] for t in seqs):
                    break
            else:
                raise AnalysisError(f"inconsistent MRO for {c.name}")
            res.append(cand)
            seqs = [[x for x in s if x is not cand] for s in seqs]
            seqs = [s for s in seqs if s]
        c._mro = res
        return res

    def is_subclass(self, c, base):
        if isinstance(base, str):
            base_name = base
            for k in self.mro(c):
                if k.name == base_name:
                    return True
                if any(isinstance(b, str) and b.split(".")[-1] == base_name for b in k.bases):
                    return True
            return False
        return base in self.mro(c)

    def subclasses(self, base, strict=False):
        out = []
        for c in self.all_classes():
            if self.is_subclass(c, base) and not (strict and c is base):
                out.append(c)
        return sorted(out, key=lambda k: (k.file, k.node.lineno))

    def is_abstract(self, c):
        """ABC among the *direct* bases or an abstractmethod still unresolved."""
        if any(isinstance(b, str) and b.split(".")[-1] == "ABC" for b in c.bases):
            return True
        for k in self.mro(c):
            for table in (k.methods, k.getters):
                for name, f in table.items():
                    if _is_abstractmethod(f.node):
                        r = self.resolve(c, name)
                        if r is f:
                            return True
        return False

    def resolve(self, c, name, kind=None):
        """Find method / property getter `name` through the MRO of class `c`."""
        for k in self.mro(c):
            if kind in (None, "method") and name in k.methods:
                self.consulted.add(k.file)
                return k.methods[name]
            if kind in (None, "getter") and name in k.getters:
                self.consulted.add(k.file)
                return k.getters[name]
            if kind == "setter" and name in k.setters:
                self.consulted.add(k.file)
                return k.setters[name]
        return None

    def method(self, cname, mname, kind=None):
        c = self.cls(cname)
        f = self.resolve(c, mname, kind)
        if f is None:
            raise AnalysisError(f"{cname}.{mname} not found")
        return f

    def own(self, cname, mname, kind=None):
        """Method defined in the class body itself (no MRO)."""
        c = self.cls(cname)
        for table, k in ((c.methods, "method"), (c.getters, "getter"), (c.setters, "setter")):
            if kind in (None, k) and mname in table:
                return table[mname]
        raise AnalysisError(f"{cname}.{mname} is not defined in the class body")

    def func(self, relpath, name):
        m = self.module(relpath)
        f = m.funcs.get(name)
        if f is None:
            raise AnalysisError(f"function {name} not found in {relpath}")
        return f

    def const_property(self, c, name):
        """Value of a property whose resolved getter is a single `return <constant>`.

        Returns (True, value) or (False, reason)."""
        f = self.resolve(c, name, "getter")
        if f is None:
            if name in {a for k in self.mro(c) for a in k.attrs}:
                for k in self.mro(c):
                    if name in k.attrs and isinstance(k.attrs[name], ast.Constant):
                        return True, k.attrs[name].value
            return False, "no getter"
        body = [s for s in f.node.body if not _is_docstring(s)]
        if len(body) == 1 and isinstance(body[0], ast.Return) and isinstance(
            body[0].value, ast.Constant
        ):
            return True, body[0].value.value
        # `return self.<CLASS_LEVEL_CONSTANT>`: the constant found first in the MRO of the concrete class
        if len(body) == 1 and isinstance(body[0], ast.Return) and isinstance(body[0].value, ast.Attribute) \
                and isinstance(body[0].value.value, ast.Name) and body[0].value.value.id in ("self", "cls"):
            attr = body[0].value.attr
            for k in self.mro(c):
                if attr in k.attrs:
                    if isinstance(k.attrs[attr], ast.Constant):
                        return True, k.attrs[attr].value
                    return False, f"class attribute {attr} is not a constant"
        if _is_abstractmethod(f.node):
            return False, "abstract"
        return False, "non-constant getter"

    def nested_funcs(self, f):
        out = []
        for n in ast.walk(f.node):
            if n is not f.node and isinstance(n, ast.FunctionDef):
                out.append(Func(f.module, n, cls=None, outer=f))
        return out

    def digests(self):
        return {p: self.by_path[p].digest[:16] for p in sorted(self.consulted)}


def _is_docstring(s):
    return (
        isinstance(s, ast.Expr)
        and isinstance(s.value, ast.Constant)
        and isinstance(s.value.value, str)
    )


def _is_abstractmethod(fn):
    return any(
        (isinstance(d, ast.Name) and d.id == "abstractmethod")
        or (isinstance(d, ast.Attribute) and d.attr == "abstractmethod")
        for d in fn.decorator_list
    )


def body_of(fn_node):
    """Function body without the docstring."""
    return [s for s in fn_node.body if not _is_docstring(s)]
