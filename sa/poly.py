"""Syntactic polynomial normal form over uninterpreted atoms (commutative ring, rational
coefficients).  Used to compare an expression found in the code with the closed form it
is supposed to be; invariant under reassociation, commutation and distribution.
No numeric evaluation of program values happens here."""
from __future__ import annotations

from fractions import Fraction

from .interp import Sym


class Poly:
    """dict: monomial (sorted tuple of (atom_repr, power)) -> Fraction."""

    __slots__ = ("terms",)

    def __init__(self, terms=None):
        self.terms = {k: v for k, v in (terms or {}).items() if v != 0}

    @staticmethod
    def const(c):
        return Poly({(): Fraction(c)})

    @staticmethod
    def atom(a):
        return Poly({((repr(a), 1),): Fraction(1)})

    def __add__(self, o):
        t = dict(self.terms)
        for k, v in o.terms.items():
            t[k] = t.get(k, 0) + v
        return Poly(t)

    def __neg__(self):
        return Poly({k: -v for k, v in self.terms.items()})

    def __sub__(self, o):
        return self + (-o)

    def __mul__(self, o):
        t = {}
        for k1, v1 in self.terms.items():
            for k2, v2 in o.terms.items():
                m = {}
                for a, p in k1 + k2:
                    m[a] = m.get(a, 0) + p
                k = tuple(sorted(m.items()))
                t[k] = t.get(k, 0) + v1 * v2
        return Poly(t)

    def scale(self, c):
        return Poly({k: v * Fraction(c) for k, v in self.terms.items()})

    def is_const(self):
        return all(k == () for k in self.terms)

    def const_value(self):
        return self.terms.get((), Fraction(0))

    def __eq__(self, o):
        return isinstance(o, Poly) and self.terms == o.terms

    def __hash__(self):
        return hash(tuple(sorted(self.terms.items())))

    def atoms(self):
        return {a for k in self.terms for a, _ in k}

    def __repr__(self):
        if not self.terms:
            return "0"
        parts = []
        for k, v in sorted(self.terms.items()):
            mon = "*".join(a if p == 1 else f"{a}^{p}" for a, p in k)
            parts.append(f"{v}" + (f"*{mon}" if mon else ""))
        return " + ".join(parts)


class NotPolynomial(Exception):
    pass


def to_poly(v, atom_ok=None):
    """Convert a value built by the abstract interpreter (numbers and Sym trees with
    add/sub/mul/div/neg) into a Poly.  Division only by constants."""
    if isinstance(v, bool):
        raise NotPolynomial(repr(v))
    if isinstance(v, (int, float, Fraction)):
        return Poly.const(Fraction(v).limit_denominator(10**9) if isinstance(v, float) else v)
    if isinstance(v, Sym):
        if v.op == "add":
            return to_poly(v.args[0], atom_ok) + to_poly(v.args[1], atom_ok)
        if v.op == "sub":
            return to_poly(v.args[0], atom_ok) - to_poly(v.args[1], atom_ok)
        if v.op == "mul":
            return to_poly(v.args[0], atom_ok) * to_poly(v.args[1], atom_ok)
        if v.op == "neg":
            return -to_poly(v.args[0], atom_ok)
        if v.op == "div":
            d = to_poly(v.args[1], atom_ok)
            if d.is_const() and d.const_value() != 0:
                return to_poly(v.args[0], atom_ok).scale(1 / d.const_value())
            raise NotPolynomial(f"division by non-constant {v.args[1]!r}")
        if atom_ok is None or atom_ok(v):
            return Poly.atom(v)
    raise NotPolynomial(repr(v))
