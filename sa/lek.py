"""Link-element-kind table (DESIGN 2.7): facts about every concrete IInput/IOutput class,
derived from the source through the MRO, and the kind PASS/DELAY/BREAK/BUFFER."""
from __future__ import annotations

import ast

from .astq import U, arg_of, fn_walk, self_attr, self_calls
from .loader import AnalysisError

PASS, DELAY, BREAK, BUFFER = "PASS", "DELAY", "BREAK", "BUFFER"
SRC_PUSH, SRC_PULL, SINK_PULL, SINK_PUSH = "SRC_PUSH", "SRC_PULL", "SINK_PULL", "SINK_PUSH"


def _stores(fn_node, name):
    for n in fn_walk(fn_node):
        if isinstance(n, ast.Name) and n.id == name and isinstance(n.ctx, (ast.Store, ast.Del)):
            return True
    return False


def _param_unchanged(f, idx):
    """Name of positional parameter idx (after self) if never re-assigned, else None."""
    ps = f.params
    if idx >= len(ps):
        return None
    return None if _stores(f.node, ps[idx]) else ps[idx]


def _classify_time_arg(f, expr):
    """Classify an expression used as a time argument inside method f:
    'same'  : f's own first parameter, unchanged
    'delayed': a local whose only definition is self.with_delay(<first param>)
    'other'."""
    p0 = _param_unchanged(f, 0)
    if isinstance(expr, ast.Name):
        if p0 is not None and expr.id == p0:
            return "same"
        defs = [
            n
            for n in fn_walk(f.node)
            if isinstance(n, ast.Assign)
            and any(isinstance(t, ast.Name) and t.id == expr.id for t in n.targets)
        ]
        if len(defs) == 1 and _is_with_delay_of(defs[0].value, p0):
            return "delayed"
    if _is_with_delay_of(expr, p0):
        return "delayed"
    return "other"


def _is_with_delay_of(expr, pname):
    return (
        isinstance(expr, ast.Call)
        and isinstance(expr.func, ast.Attribute)
        and self_attr(expr.func) == "with_delay"
        and len(expr.args) == 1
        and isinstance(expr.args[0], ast.Name)
        and pname is not None
        and expr.args[0].id == pname
    )


def _callee_of(repo, c, f, call):
    """(name, Func) of a call `self.name(..)` (resolved through the MRO of the concrete class c)
    or `super().name(..)` (resolved after the class that defines f); (None, None) otherwise."""
    fn = call.func
    if not isinstance(fn, ast.Attribute):
        return None, None
    name = self_attr(fn)
    if name is not None:
        return name, repo.resolve(c, name, "method")
    v = fn.value
    if isinstance(v, ast.Call) and isinstance(v.func, ast.Name) and v.func.id == "super" and not v.args and f.cls is not None:
        mro = list(repo.mro(c))
        if f.cls in mro:
            for k in mro[mro.index(f.cls) + 1:]:
                if fn.attr in k.methods:
                    return fn.attr, k.methods[fn.attr]
    return None, None


def _pull_sites(repo, c, entry, tkind="same", depth=0, seen=None, func=None):
    """All self.pull_data(T, G) sites reachable from method `entry` of class c through
    self-calls; returns list of dict(func, node, time, target)."""
    seen = seen if seen is not None else set()
    f = func if func is not None else repo.resolve(c, entry)
    if f is None or (f.qualname, tkind) in seen or depth > 4:
        return []
    seen.add((f.qualname, tkind))
    out = []
    for call in self_calls(f.node, "pull_data"):
        t = arg_of(call, 0, "time")
        g = arg_of(call, 1, "target")
        tk = _classify_time_arg(f, t) if t is not None else "other"
        if tk == "same":
            tk = tkind
        elif tk == "delayed" and tkind != "same":
            tk = "other"
        p1 = _param_unchanged(f, 1)
        if g is None:
            gk = "absent"
        elif isinstance(g, ast.Name) and g.id == "self":
            gk = "self"
        elif isinstance(g, ast.Name) and p1 is not None and g.id == p1:
            gk = "forward"
        else:
            gk = "other"
        out.append({"func": f, "node": call, "time": tk, "target": gk})
    # follow self._xxx(T, G) / super()._xxx(T, G) calls that hand on the time / target parameters
    for n in fn_walk(f.node):
        if isinstance(n, ast.Call) and isinstance(n.func, ast.Attribute):
            name, callee = _callee_of(repo, c, f, n)
            if name in (None, "pull_data") or callee is None or callee is f:
                continue
            if not any(True for _ in self_calls(callee.node, "pull_data")) and not _calls_any_self(callee.node):
                continue
            t = arg_of(n, 0)
            tk = _classify_time_arg(f, t) if t is not None else "other"
            if tk == "same":
                tk2 = tkind
            elif tk == "delayed" and tkind == "same":
                tk2 = "delayed"
            else:
                tk2 = "other"
            sub = _pull_sites(repo, c, name, tk2, depth + 1, seen, func=callee)
            # the target must be handed on unchanged as 2nd argument for 'forward' to survive
            g = arg_of(n, 1)
            p1 = _param_unchanged(f, 1)
            handed = isinstance(g, ast.Name) and p1 is not None and g.id == p1
            for s in sub:
                if s["target"] == "forward" and not handed:
                    s = dict(s, target="other")
                out.append(s)
    return out


def _calls_any_self(fn_node):
    for n in fn_walk(fn_node):
        if isinstance(n, ast.Call) and isinstance(n.func, ast.Attribute):
            if self_attr(n.func):
                return True
            v = n.func.value
            if isinstance(v, ast.Call) and isinstance(v.func, ast.Name) and v.func.id == "super":
                return True
    return False


def _buffer_appends(repo, c, entry="_source_updated", func=None, depth=0, seen=None):
    """`self.<cont>.append((time, self._pack(..)))` sites in the notify path (the method itself and
    the helpers it reaches through self. / super(). calls that hand on the time)."""
    seen = seen if seen is not None else set()
    f = func if func is not None else repo.resolve(c, entry)
    out = []
    if f is None or f.qualname in seen or depth > 4:
        return out
    seen.add(f.qualname)
    p0 = _param_unchanged(f, 0)
    for n in fn_walk(f.node):
        if (
            isinstance(n, ast.Call)
            and isinstance(n.func, ast.Attribute)
            and n.func.attr == "append"
            and self_attr(n.func.value)
            and n.args
            and isinstance(n.args[0], ast.Tuple)
            and len(n.args[0].elts) == 2
        ):
            payload = n.args[0].elts[1]
            if isinstance(payload, ast.Name):
                defs = [x for x in fn_walk(f.node) if isinstance(x, ast.Assign) and any(isinstance(t, ast.Name) and t.id == payload.id for t in x.targets)]
                if len(defs) == 1:
                    payload = defs[0].value
            packed = (
                isinstance(payload, ast.Call)
                and isinstance(payload.func, ast.Attribute)
                and self_attr(payload.func) == "_pack"
            )
            out.append({"func": f, "node": n, "container": self_attr(n.func.value),
                        "time": U(n.args[0].elts[0]), "packed": packed})
        elif isinstance(n, ast.Call) and isinstance(n.func, ast.Attribute):
            name, callee = _callee_of(repo, c, f, n)
            if callee is None or callee is f or name in ("pull_data", "_pack", "notify_targets"):
                continue
            t = arg_of(n, 0)
            if p0 is not None and isinstance(t, ast.Name) and t.id == p0:
                out.extend(_buffer_appends(repo, c, name, callee, depth + 1, seen))
    return out


class Elem:
    def __init__(self, cls):
        self.cls = cls
        self.name = cls.name
        self.facts = {}
        self.kind = None
        self.why = ""

    def row(self):
        return {"class": self.name, "kind": self.kind, **{k: v for k, v in self.facts.items() if not k.startswith("_")}}


def build(repo):
    """Returns (adapters: list[Elem], endpoints: list[Elem]) for concrete classes."""
    iin, iout, iad = repo.cls("IInput"), repo.cls("IOutput"), repo.cls("IAdapter")
    nodep = repo.cls("NoDependencyAdapter")
    nobranch = repo.cls("NoBranchAdapter")
    tdelay = repo.cls("ITimeDelayAdapter")
    adapters, endpoints = [], []
    seen = set()
    for c in list(repo.subclasses(iin)) + list(repo.subclasses(iout)):
        if c.name in seen:
            continue
        seen.add(c.name)
        if repo.is_abstract(c) or c in (iin, iout, iad):
            continue
        e = Elem(c)
        for prop in ("needs_push", "needs_pull"):
            ok, v = repo.const_property(c, prop)
            e.facts[prop] = v if ok else f"?{v}"
        e.facts["NoBranch"] = repo.is_subclass(c, nobranch)
        e.facts["NoDependency"] = repo.is_subclass(c, nodep)
        e.facts["TimeDelay"] = repo.is_subclass(c, tdelay)
        if repo.is_subclass(c, iad):
            get_sites = _pull_sites(repo, c, "get_data")
            notify_sites = _pull_sites(repo, c, "_source_updated")
            appends = _buffer_appends(repo, c)
            e.facts["get_pulls"] = [f"{s['func'].qualname}:{s['time']}/{s['target']}" for s in get_sites]
            e.facts["notify_pulls"] = [f"{s['func'].qualname}:{s['time']}/{s['target']}" for s in notify_sites]
            e.facts["buffers"] = [f"{a['container']}({a['time']},packed={a['packed']})" for a in appends]
            e.facts["_get_sites"] = get_sites
            e.facts["_notify_sites"] = notify_sites
            e.facts["_appends"] = appends
            e.kind, e.why = _adapter_kind(e)
            if e.kind is None:
                # the syntactic reading of the pull sites does not recognise the shape of the code: observe the same facts on
                # abstract runs of the public get_data() / source_updated() instead
                beh = _behavioural_sites(repo, c)
                if beh is not None:
                    e.facts["_get_sites"], e.facts["_notify_sites"], e.facts["_appends"] = beh
                    e.facts["get_pulls"] = [f"abstract-run:{s['time']}/{s['target']}" for s in beh[0]]
                    e.facts["notify_pulls"] = [f"abstract-run:{s['time']}/{s['target']}" for s in beh[1]]
                    e.facts["buffers"] = [f"{a['container']}({a['time']},packed={a['packed']})" for a in beh[2]]
                    kind, why = _adapter_kind(e)
                    if kind is not None:
                        e.kind, e.why = kind, ""
                        e.facts["classified_by"] = "abstract run"
            adapters.append(e)
        else:
            isin = repo.is_subclass(c, iin)
            np_, npl = e.facts["needs_push"], e.facts["needs_pull"]
            if isin:
                e.kind = SINK_PULL if (npl is True and np_ is False) else SINK_PUSH if (np_ is True and npl is False) else None
            else:
                e.kind = SRC_PUSH if (np_ is True and npl is False) else SRC_PULL if (npl is True and np_ is False) else None
            endpoints.append(e)
    return adapters, endpoints


def _behavioural_sites(repo, c):
    """(get sites, notify sites, buffer appends) of adapter class c as observed on abstract runs of its public get_data(q, target)
    and source_updated(tn): every pull_data call with the time it asks for (same / delayed = with_delay(q) / other) and the
    end point it names (forward = the requesting target / self / other); tuples (time, packed data) appended to a list
    attribute during a notification.  None if the bodies are outside the vocabulary."""
    from .absbase import FinamInterp, Logger, Order
    from .interp import Closure, Obj, Raised, Sym, Undecided

    class _Rec(FinamInterp):
        def __init__(self, repo):
            super().__init__(repo, Order())
            self.pulls = []

        def call_hook(self, fv, args, kwargs, node, mod):
            if isinstance(fv, Closure) and fv.self_obj is not None:
                n = getattr(fv.func, "name", "")
                if n == "with_delay":
                    return Sym("delayed", args[0])
                if n == "pull_data":
                    self.pulls.append((args[0], args[1] if len(args) > 1 else kwargs.get("target")))
                    return Sym("pulled", args[0])
                if n == "_pack":
                    return Sym("packed", args[0])
                if n in ("_pulled", "notify_targets"):
                    return None
            if isinstance(fv, Closure) and getattr(fv.func, "name", "") == "prepare":
                return (Sym("prepared"), None) if kwargs.get("report_conversion") else Sym("prepared")
            if isinstance(fv, Closure) and getattr(fv.func, "name", "") == "strip_time":
                return Sym("stripped", args[0])
            return super().call_hook(fv, args, kwargs, node, mod)

    def mk():
        from .rules.exchange import _adapter, _required_ctor
        from .absbase import set_backed
        me = _adapter(repo, c, ctor=_required_ctor(repo, c))
        set_backed(repo, me, "info", Obj(label="info", fields={"grid": Sym("grid"), "units": Sym("u_out")}))
        set_backed(repo, me, "in_info", Obj(label="in_info", fields={"grid": Sym("grid"), "units": Sym("u_in")}))
        me.fields.setdefault("initial_time", Sym("init"))
        return me

    q, tn, tgt = Sym("q"), Sym("tn"), Obj(label="target")
    try:
        it = _Rec(repo)
        it.order.name(q, "q", 1)
        me = mk()
        try:
            it.run(repo.resolve(c, "get_data", "method"), [q, tgt], self_obj=me)
        except Raised:
            pass  # (empty buffer of a push-based adapter: the request is refused after / without pulling)
        except (AnalysisError, Undecided):
            if not it.pulls:
                return None  # (what the adapter does with the pulled data is not part of the classification; the pull is)
        gs = [{"time": "same" if t == q else "delayed" if t == Sym("delayed", q) else "other",
               "target": "forward" if g is tgt else "self" if g is me else "other", "func": None} for t, g in it.pulls]
        it = _Rec(repo)
        it.order.name(tn, "tn", 1)
        me = mk()
        before = {k: list(v) for k, v in me.fields.items() if isinstance(v, list)}
        try:
            it.run(repo.resolve(c, "source_updated", "method"), [tn], self_obj=me)
        except Raised:
            pass
        except (AnalysisError, Undecided):
            if not it.pulls:
                return None
        ns = [{"time": "same" if t == tn else "other", "target": "self" if g is me else "forward" if g is tgt else "other", "func": None} for t, g in it.pulls]
        aps = []
        for k, v in me.fields.items():
            if isinstance(v, list) and len(v) > len(before.get(k, [])):
                for x in v[len(before.get(k, [])):]:
                    if isinstance(x, tuple) and len(x) == 2:
                        aps.append({"container": k, "time": "same" if x[0] == tn else "other", "packed": isinstance(x[1], Sym) and x[1].op == "packed"})
        return gs, ns, aps
    except (AnalysisError, Undecided, Raised, KeyError, TypeError, AttributeError):
        return None


def _adapter_kind(e):
    f = e.facts
    gs, ns = f["_get_sites"], f["_notify_sites"]
    if f["needs_push"] is True:
        if gs:
            return None, "needs_push adapter pulls in the get path"
        if not ns or any(s["time"] != "same" or s["target"] != "self" for s in ns):
            return None, "needs_push adapter must pull(time, self) on notification"
        if not f["_appends"] or not all(a["packed"] for a in f["_appends"]):
            return None, "needs_push adapter must buffer (time, self._pack(..)) on notification"
        if f["TimeDelay"] or f["NoDependency"]:
            return None, "buffering adapter with delay / no-dependency marker"
        return BUFFER, ""
    if f["needs_push"] is not False:
        return None, "needs_push is not a constant property"
    if ns:
        return None, "adapter without needs_push pulls on notification"
    if not gs:
        return None, "no pull_data reachable from get_data"
    if any(s["target"] != "forward" for s in gs):
        return None, "pass-through adapter must forward the requesting target"
    times = {s["time"] for s in gs}
    if f["NoDependency"]:
        if times <= {"delayed"} and f["TimeDelay"]:
            return BREAK, ""
        return None, "NoDependencyAdapter that is not a time-delay adapter"
    if f["TimeDelay"]:
        if times == {"delayed"}:
            return DELAY, ""
        return None, f"ITimeDelayAdapter pulling at {sorted(times)} instead of with_delay(time)"
    if times == {"same"}:
        return PASS, ""
    return None, f"adapter pulls at {sorted(times)}"


def table(repo):
    cached = getattr(repo, "_lek_table", None)
    if cached is None:
        ads, eps = build(repo)
        bad = [e for e in ads + eps if e.kind is None]
        cached = repo._lek_table = (ads, eps, bad)
    return cached


def require_table(repo):
    ads, eps, bad = table(repo)
    if bad:
        raise AnalysisError(
            "link-element-kind table: unclassifiable " + ", ".join(f"{e.name} ({e.why})" for e in bad)
        )
    return ads, eps
