"""Abstract model of a composition for the scheduler rules (R02, R03, R09).

Components, slots and adapters are `Obj`s; adapters carry their real class so that
`isinstance` tests and constant properties resolve through the MRO of the current
source.  Times are uninterpreted terms: `nt(C)` is the announced next time of C,
`T(out)` the time of an output, `d<i>(x)` the result of adapter i's `with_delay(x)`.
Lag tests `T(out) < term` are the only undecidable conditions; they are forked, so a
run yields the decision table {lag assignment -> outcome}.
"""
from __future__ import annotations

import ast

from .absbase import FinamInterp, Logger, Ref
from .interp import Closure, Obj, Raised, Sym, Undecided
from .loader import AnalysisError


class SchedInterp(FinamInterp):
    def __init__(self, repo):
        super().__init__(repo)
        self.updates = []
        self.delay_ids = {}

    def get_attr(self, obj, attr, node, mod):
        if isinstance(obj, Obj) and not isinstance(obj, Logger) and attr == "update" and "component" in obj.markers:
            return Sym("update", Ref(obj))
        return super().get_attr(obj, attr, node, mod)

    def call_hook(self, fv, args, kwargs, node, mod):
        if isinstance(fv, Sym) and fv.op == "update":
            self.updates.append(fv.args[0].obj)
            return None
        if isinstance(fv, Sym) and fv.op == "iface_with_delay":
            return Sym(fv.args[0].obj.fields["_dname"], args[0])
        if isinstance(fv, Closure) and getattr(fv.func, "name", "") == "with_delay":
            o = fv.self_obj
            idx = self.delay_ids.setdefault(id(o), len(self.delay_ids))
            name = o.fields.get("_dname", f"d{idx}")
            return Sym(name, args[0])
        return super().call_hook(fv, args, kwargs, node, mod)


# adapters of third parties that implement the public interfaces directly
IFACE_ONLY = {"<interface-only delay adapter>": {"ITimeDelayAdapter"}, "<interface-only no-dependency delay adapter>": {"ITimeDelayAdapter", "NoDependencyAdapter"}}


# ------------------------------------------------------------------ topology
class Topo:
    """Small abstract composition."""

    def __init__(self, repo):
        self.repo = repo
        self.comps = {}
        self.outputs = {}  # name -> out obj
        self.owner = {}  # out obj -> comp obj
        self.links = []  # (out_name, [adapter class names], consumer, in_name)
        self._n_delay = 0

    def comp(self, name, timed=True, status="UPDATED"):
        markers = {"component", "IComponent"}
        if timed:
            markers.add("ITimeComponent")
        c = Obj(label=name, markers=markers)
        c.fields.update(
            name=name,
            inputs={},
            outputs={},
            status=Sym("enum", "ComponentStatus", status),
            next_time=Sym("nt", name) if timed else None,
            time=Sym("now", name) if timed else None,
        )
        c.fields["_timed"] = timed
        self.comps[name] = c
        return c

    # ----- the slots are built by the real constructors and linked by the real chain(): whatever private state the
    # classes keep (target lists, static flags, source references) is there under its real name, so properties that a
    # refactoring starts to read (has_targets, ...) find what the real code would find.  The public values the model itself
    # reads (targets, source, is_static, name) are mirrored as plain fields.
    def _real(self, o, params):
        from .absbase import FinamInterp, seed_from_init
        try:
            seed_from_init(FinamInterp(self.repo), o.cls, o, params)
            o.fields.setdefault("logger", Logger(label="logger"))
            o.fields.setdefault("logger_name", o.label)
        except (AnalysisError, Undecided, Raised):
            pass

    def _real_link(self, src, tgt):
        from .absbase import FinamInterp
        if src is None or src.cls is None:
            return
        f = self.repo.resolve(src.cls, "chain", "method")
        if f is None:
            return
        keep = {k: tgt.fields.pop(k) for k in ("source",) if k in tgt.fields}
        keep_src = {k: src.fields.pop(k) for k in ("targets",) if k in src.fields}
        try:
            it = FinamInterp(self.repo)
            it.run(f, [tgt], self_obj=src)
        except (AnalysisError, Undecided, Raised, KeyError):
            pass
        finally:
            tgt.fields.update(keep)
            src.fields.update(keep_src)

    def output(self, comp, name="out", static=False, pull=False):
        cls = self.repo.cls("CallbackOutput" if pull else "Output")
        o = Obj(cls=cls, label=f"{comp.label}.{name}")
        self._real(o, {"name": name, "static": static, "info": None, "callback": Sym("callback")})
        o.fields.update(name=name, is_static=static, time=Sym("T", o.label), targets=[], _static=static)
        comp.fields["outputs"][name] = o
        self.outputs[o.label] = o
        self.owner[o] = comp
        return o

    def link(self, out, adapters, comp, in_name="in", static_in=False, sink="Input"):
        """adapters: upstream -> downstream list of class names (or existing adapter Objs to
        branch from)."""
        src = out
        elems = []
        for cname in adapters:
            if isinstance(cname, Obj):
                a = cname
                elems.append(a)
                src = a
                continue
            if cname in IFACE_ONLY:
                # a third-party adapter that implements only the interfaces (no SDK base class)
                self._n_elem = getattr(self, "_n_elem", 0) + 1
                a = Obj(cls=None, label=f"{cname}#{self._n_elem}", markers={"IAdapter", "IInput", "IOutput"} | IFACE_ONLY[cname])
                a.fields.update(source=src, targets=[], name=a.label, is_static=False, time=None, needs_push=False, needs_pull=False)
                if "ITimeDelayAdapter" in a.markers:
                    a.fields["_dname"] = f"d{self._n_delay}"
                    self._n_delay += 1
                    a.fields["with_delay"] = Sym("iface_with_delay", Ref(a))
                if src is not None:
                    src.fields["targets"].append(a)
                elems.append(a)
                src = a
                continue
            cls = self.repo.cls(cname)
            self._n_elem = getattr(self, "_n_elem", 0) + 1
            a = Obj(cls=cls, label=f"{cname}#{self._n_elem}")
            if self.repo.is_subclass(cls, self.repo.cls("ITimeDelayAdapter")):
                a.fields["_dname"] = f"d{self._n_delay}"
                self._n_delay += 1
            self._real(a, {})
            a.fields.update(source=src, targets=[], name=a.label, is_static=False, time=None)
            if src is not None:
                src.fields["targets"].append(a)
                self._real_link(src, a)
            elems.append(a)
            src = a
        if comp is None:
            return elems
        inp = Obj(cls=self.repo.cls(sink), label=f"{comp.label}.{in_name}")
        self._real(inp, {"name": in_name, "static": static_in, "info": None, "callback": Sym("callback")})
        inp.fields.update(source=src, name=in_name, is_static=static_in, _static=static_in)
        if src is not None:
            src.fields["targets"].append(inp)
            self._real_link(src, inp)
        comp.fields["inputs"][in_name] = inp
        self.links.append((out, elems, comp, inp))
        return elems

    def composition(self, members=None, **extra):
        """A Composition over this topology: attributes seeded from the real constructor; the owner maps are put into the
        attributes the class itself fills from _map_outputs / _map_inputs (whatever they are called)."""
        from .absbase import FinamInterp, seed_from_init
        cls = self.repo.cls("Composition")
        c = Obj(cls=cls, label="composition")
        comps = list(members) if members is not None else list(self.comps.values())
        seed_from_init(FinamInterp(self.repo), cls, c, {"components": comps})
        in_owner = {i: k for k in self.comps.values() for i in k.fields["inputs"].values()}
        c.fields[composition_attr(self.repo, "_map_outputs", "_output_owners")] = dict(self.owner)
        c.fields[composition_attr(self.repo, "_map_inputs", "_input_owners")] = in_owner
        c.fields["logger"] = Logger(label="logger")
        c.fields.update(extra)
        return c


def composition_attr(repo, filler, default):
    """Attribute of Composition that is assigned the result of the helper `filler` (e.g. `self.X = _map_outputs(...)`)."""
    import ast
    cls = repo.cls("Composition")
    for f in cls.methods.values():
        for n in ast.walk(f.node):
            if isinstance(n, ast.Assign) and isinstance(n.value, ast.Call) and getattr(n.value.func, "id", getattr(n.value.func, "attr", None)) == filler:
                for t in n.targets:
                    if isinstance(t, ast.Attribute) and isinstance(t.value, ast.Name) and t.value.id == "self":
                        return t.attr
    return default


def data_path_term(kinds, delay_names, start):
    """The time actually requested from the source output (DESIGN C01/R02 model 2).

    kinds: downstream -> upstream list of kinds; delay_names parallel (None or name).
    Returns None when no dependency remains (BREAK while the request is still a pull)."""
    tau, pulling = start, True
    for k, dn in zip(kinds, delay_names):
        if k == "DELAY" and pulling:
            tau = Sym(dn, tau)
        elif k == "BREAK" and pulling:
            return None
        elif k == "BUFFER":
            pulling = False
    return tau


def outcome_repr(out):
    kind, v = out
    if kind == "raise":
        return f"raise {v.name}"
    return f"ret {v!r}"


__all__ = ["SchedInterp", "Topo", "data_path_term", "Raised", "outcome_repr", "Logger", "Ref"]
