"""Common hooks of the abstract interpreters: loggers, ErrorLogger, exceptions, strings,
external names, and the *order oracle* (a total preorder over named symbolic terms that
decides comparisons; no arithmetic is ever performed on program values)."""
from __future__ import annotations

import ast

from .interp import Closure, Interp, Obj, Raised, Sym, Undecided
from .loader import AnalysisError, Class, Func, Module
from .poly import NotPolynomial, Poly, to_poly
from .rat import rat_eq, to_rat


class Logger(Obj):
    pass


class Ref:
    """Identity wrapper (lets an Obj ride inside a hashable Sym)."""

    __slots__ = ("obj",)

    def __init__(self, obj):
        self.obj = obj

    def __eq__(self, o):
        return isinstance(o, Ref) and o.obj is self.obj

    def __hash__(self):
        return id(self.obj)

    def __repr__(self):
        return repr(self.obj)


class Order:
    """Total preorder over named terms.  A term is identified by its rational normal form
    (equality by cross multiplication); `rank` maps names to comparable positions that are
    used only through <, ==."""

    def __init__(self):
        self.entries = []  # (Rat, name)
        self.rank = {}
        self._cache = {}

    def name(self, term, name, rank):
        self.entries.append((to_rat(term), name))
        self.rank[name] = rank
        self._cache.clear()
        return term

    def name_of(self, v):
        try:
            r = to_rat(v)
        except NotPolynomial:
            return None
        key = repr(r)
        if key in self._cache:
            return self._cache[key]
        hit = None
        for e, n in self.entries:
            if e.equals(r):
                hit = n
                break
        self._cache[key] = hit
        return hit

    def lookup(self, v):
        n = self.name_of(v)
        return None if n is None else self.rank[n]


def poly_of(v):
    """Polynomial normal form (raises NotPolynomial for genuine quotients)."""
    r = to_rat(v)
    if r.den.is_const() and r.den.const_value() != 0:
        return r.num.scale(1 / r.den.const_value())
    raise NotPolynomial(repr(v))


def same_value(a, b):
    return rat_eq(a, b)


class Vec(tuple):
    """Small integer vector of *configuration* values (grid extents): elementwise arithmetic."""

    def __getitem__(self, k):
        r = tuple.__getitem__(self, k)
        return Vec(r) if isinstance(k, slice) else r


class FinamInterp(Interp):
    """Vocabulary shared by all rules that abstractly interpret finam functions."""

    def __init__(self, repo, order=None):
        super().__init__(repo)
        self.order = order or Order()
        self.effects = []  # (kind, payload) e.g. ("remove", file), ("log", ...)

    # names ---------------------------------------------------------------
    def global_name(self, name, mod):
        ent = self.repo.lookup(mod, name) if mod is not None else None
        if ent is None:
            return Sym("ext", name)
        if isinstance(ent, Module) or isinstance(ent, (Func, Class)):
            return super().global_name(name, mod)
        if isinstance(ent, ast.AST):
            # module-level values exist once per process: a mutable one (memo dict, registry object) is evaluated once per
            # interpreter and shared by every later reference, as in Python
            memo = self.__dict__.setdefault("_module_values", {})
            key = (getattr(mod, "name", None), name)
            if key in memo:
                return memo[key]
            try:
                v = self.eval(ent, {"__mod__": mod}, mod)
            except AnalysisError:
                return Sym("ext", name)
            if isinstance(v, (dict, list, set, Obj)):
                memo[key] = v
            return v
        return ent

    def get_attr(self, obj, attr, node, mod):
        if isinstance(obj, Logger):
            return Sym("logcall", attr)
        if isinstance(obj, Obj) and attr == "logger":
            return Logger(label="logger")
        if isinstance(obj, str) or (isinstance(obj, Sym) and obj.op in ("fstr", "str", "join")):
            return Sym("strmethod", attr)
        if isinstance(obj, Obj) and attr == "__class__":
            return Obj(label="class", fields={"__name__": obj.label, "__qualname__": obj.label, "__module__": "finam"})
        if isinstance(obj, Sym) and obj.op == "ext":
            return Sym("ext", f"{obj.args[0]}.{attr}")
        return super().get_attr(obj, attr, node, mod)

    def call_hook(self, fv, args, kwargs, node, mod):
        if isinstance(fv, Sym):
            if fv.op == "ntfactory":
                from .interp import NamedTup
                _n, fields, defaults = fv.args
                vals = list(args)
                for f in fields[len(vals):]:
                    if f in kwargs:
                        vals.append(kwargs[f])
                    elif defaults is not None and len(fields) - fields.index(f) <= len(defaults):
                        vals.append(defaults[fields.index(f) - (len(fields) - len(defaults))])
                    else:
                        self.on_raise(Sym("exc", "TypeError", f"missing argument {f}"), node)
                return NamedTup(None, fields, vals)
            if fv.op == "attrgetter" and len(args) == 1:
                return self.attr(args[0], fv.args[0], node, mod)
            if fv.op == "itemgetter" and len(args) == 1:
                return self.get_item(args[0], fv.args[0], node)
            if fv.op == "logcall":
                return None
            if fv.op == "strmethod":
                if fv.args[0] == "join" and args and isinstance(args[0], (list, tuple)):
                    return Sym("join", tuple(args[0]))
                return Sym("str", fv.args[0])
            if fv.op == "ext":
                return self.ext_call(fv.args[0], args, kwargs, node)
        if isinstance(fv, Class) and fv.name == "ErrorLogger":
            return Obj(label="ErrorLogger")
        if isinstance(fv, Closure) and getattr(fv.func, "name", "") == "is_loggable":
            return True
        return NotImplemented

    def binop(self, op, left, right, node):
        if isinstance(left, Vec) and isinstance(right, int) and not isinstance(right, bool):
            f = {ast.Add: lambda a: a + right, ast.Sub: lambda a: a - right, ast.Mult: lambda a: a * right}.get(type(op))
            if f is not None:
                return Vec(f(a) for a in left)
        return super().binop(op, left, right, node)

    def ext_call(self, name, args, kwargs, node):
        if name in ("partial", "functools.partial") and args:
            from .interp import Partial
            return Partial(args[0], args[1:], kwargs)
        short = name.split(".")[-1]
        if short in ("asarray", "array") and args and isinstance(args[0], (tuple, list)) and all(isinstance(x, int) for x in args[0]):
            return Vec(args[0])
        if short == "maximum" and isinstance(args[0], Vec) and isinstance(args[1], int):
            return Vec(max(a, args[1]) for a in args[0])
        if short == "prod" and isinstance(args[0], (Vec, tuple, list)) and all(isinstance(x, int) for x in args[0]):
            r = 1
            for x in args[0]:
                r *= x
            return r
        if name in ("deque", "collections.deque"):
            if kwargs or len(args) > 1:
                raise AnalysisError("deque with maxlen not in vocabulary")
            from .interp import Deque
            return Deque(self.iterate(args[0], node) if args else [])
        if name in ("islice", "itertools.islice") and args and isinstance(args[0], (list, tuple)) and all(a is None or isinstance(a, int) for a in args[1:]):
            return list(args[0])[slice(*args[1:])]
        if name in ("reduce", "functools.reduce") and len(args) >= 2 and isinstance(args[0], Closure):
            seq = list(self.iterate(args[1], node))
            if len(args) > 2:
                seq = [args[2]] + seq
            if not seq:
                self.on_raise(Sym("exc", "TypeError", "reduce() of empty iterable with no initial value"), node)
            acc = seq[0]
            for x in seq[1:]:
                acc = self.call(args[0], [acc, x], {}, node, None)
            return acc
        if name in ("takewhile", "itertools.takewhile", "dropwhile", "itertools.dropwhile") and len(args) == 2 and isinstance(args[0], Closure):
            out, taking = [], True
            for x in self.iterate(args[1], node):
                if taking and not self.truth(self.call(args[0], [x], {}, node, None), node):
                    taking = False
                    if name.endswith("takewhile"):
                        break
                if taking == name.endswith("takewhile"):
                    out.append(x)
            return out
        if name in ("replace", "dataclasses.replace", "copy.replace") and args and isinstance(args[0], Obj):
            n = Obj(cls=args[0].cls, label=args[0].label, markers=args[0].markers)
            n.fields = dict(args[0].fields)
            n.fields.update(kwargs)
            return n
        if name in ("namedtuple", "collections.namedtuple") and len(args) >= 2 and isinstance(args[0], str):
            fields = args[1].replace(",", " ").split() if isinstance(args[1], str) else list(args[1])
            defaults = kwargs.get("defaults")
            return Sym("ntfactory", args[0], tuple(fields), tuple(defaults) if defaults is not None else None)
        if name in ("attrgetter", "operator.attrgetter") and len(args) == 1 and isinstance(args[0], str) and "." not in args[0]:
            return Sym("attrgetter", args[0])
        if name in ("itemgetter", "operator.itemgetter") and len(args) == 1:
            return Sym("itemgetter", args[0])
        if name in ("reduce", "functools.reduce") and len(args) >= 2 and isinstance(args[0], Sym) and args[0].op == "ext" \
                and args[0].args[0] in ("operator.add", "operator.mul", "operator.sub", "add", "mul") and isinstance(args[1], (list, tuple)):
            op = {"add": ast.Add(), "mul": ast.Mult(), "sub": ast.Sub()}[args[0].args[0].split(".")[-1]]
            seq = list(args[1])
            if len(args) > 2:
                seq = [args[2]] + seq
            if not seq:
                self.on_raise(Sym("exc", "TypeError", "reduce() of empty iterable with no initial value"), node)
            acc = seq[0]
            for x in seq[1:]:
                acc = self.binop(op, acc, x, node)
            return acc
        if name in ("count", "itertools.count"):
            from .interp import Count
            return Count(*args)
        if name in ("os.remove", "os.unlink"):
            self.effects.append(("remove", args[0]))
            return None
        if name.endswith("Error") or name.endswith("Exception"):
            return Sym("exc", name.split(".")[-1], *[a if isinstance(a, (str, Sym)) else repr(a) for a in args])
        raise AnalysisError(f"call of external {name} not in vocabulary (line {getattr(node, 'lineno', '?')})")

    def isinstance(self, v, klass, node):
        if isinstance(klass, tuple):
            return any(self.isinstance(v, k, node) for k in klass)
        if isinstance(klass, Sym) and klass.op == "ext":
            return self.ext_isinstance(v, klass.args[0], node)
        if isinstance(klass, Sym) and klass.op == "builtin":
            return self.ext_isinstance(v, klass.args[0], node)
        if not isinstance(klass, Class):
            raise AnalysisError(f"isinstance against {klass!r}")
        if isinstance(v, Sym) and v.op == "enum" and self.repo.has_cls(v.args[0]):
            return self.repo.is_subclass(self.repo.cls(v.args[0]), klass)
        if isinstance(v, Obj):
            if v.cls is not None:
                return self.repo.is_subclass(v.cls, klass) or klass.name in v.markers
            return klass.name in v.markers
        return False

    def ext_isinstance(self, v, name, node):
        if name == "str":
            return isinstance(v, str) or (isinstance(v, Sym) and v.op in ("file", "fstr", "str"))
        if name == "datetime":
            return isinstance(v, Sym) and v.op in ("time",) or self.order.lookup(v) is not None
        if name in ("tuple", "list", "dict", "set") and isinstance(v, (Obj, tuple, list, dict, set)):
            return isinstance(v, {"tuple": tuple, "list": list, "dict": dict, "set": set}[name])  # (objects of repo classes are no containers)
        raise Undecided(f"isinstance({v!r}, {name})", node)

    def decide(self, cond, node):
        # datetimes (ranked terms) are truthy
        if not (isinstance(cond, Sym) and cond.op in ("lt", "le", "eq", "ne", "not")) and self.order.lookup(cond) is not None:
            return True
        return super().decide(cond, node)

    # comparisons -----------------------------------------------------------
    def sym_compare(self, op, left, right, node):
        if isinstance(left, Sym) and isinstance(right, Sym) and left.op == "enum" and right.op == "enum":
            eq = left == right
            if isinstance(op, ast.Eq):
                return eq
            if isinstance(op, ast.NotEq):
                return not eq
        if isinstance(op, (ast.Eq, ast.NotEq)) and (left is None or right is None):
            return isinstance(op, ast.NotEq)
        a, b = self.order.lookup(left), self.order.lookup(right)
        if a is not None and b is not None:
            return {
                ast.Lt: a < b, ast.LtE: a <= b, ast.Gt: a > b, ast.GtE: a >= b,
                ast.Eq: a == b, ast.NotEq: a != b,
            }[type(op)]
        return self.undecided_compare(op, left, right, node)

    def undecided_compare(self, op, left, right, node):
        name = {ast.Lt: "lt", ast.LtE: "le", ast.Gt: "gt", ast.GtE: "ge", ast.Eq: "eq", ast.NotEq: "ne"}.get(type(op))
        if name is None:
            raise Undecided(f"{left!r} {type(op).__name__} {right!r}", node)
        if name == "gt":
            return Sym("lt", right, left)
        if name == "ge":
            return Sym("le", right, left)
        return Sym(name, left, right)

    def minmax(self, name, seq, node):
        if not seq:
            self.on_raise(Sym("exc", "ValueError", "min() arg is an empty sequence"), node)
        return super().minmax(name, seq, node)


def seed_from_init(it, cls, obj, params=None, skip=()):
    """Partial evaluation of the constructors of `cls` (base classes first): every statement
    `self.<attr> = <expr>` anywhere in an `__init__` whose right-hand side evaluates in the
    abstract domain (constants, empty containers, constructor parameters bound by `params`)
    seeds `obj.fields[attr]`; everything else is skipped.  Class-level attributes (`x = []` in
    the class body) are NOT copied: they stay shared, as in Python.  This keeps the rules
    independent of the names of private attributes: a renamed attribute is seeded under its new
    name and read back by the very code that was renamed."""
    params = dict(params or {})
    repo = it.repo
    done = []
    for k in reversed(list(repo.mro(cls))):
        f = k.methods.get("__init__")
        if f is None:
            continue
        env = {"self": obj, "__mod__": f.module}
        a = f.node.args
        names = [x.arg for x in a.posonlyargs + a.args][1:]
        defaults = a.defaults
        for i, n in enumerate(names):
            di = i - (len(names) - len(defaults))
            if n in params:
                env[n] = params[n]
            elif di >= 0:
                try:
                    env[n] = it.eval(defaults[di], dict(env), f.module)
                except (AnalysisError, Undecided, Raised):
                    pass
        for x, d in zip(a.kwonlyargs, a.kw_defaults):
            if x.arg in params:
                env[x.arg] = params[x.arg]
            elif d is not None:
                try:
                    env[x.arg] = it.eval(d, dict(env), f.module)
                except (AnalysisError, Undecided, Raised):
                    pass
        if a.vararg is not None:
            env[a.vararg.arg] = params.get(a.vararg.arg, ())
        if a.kwarg is not None:
            env[a.kwarg.arg] = params.get(a.kwarg.arg, {})  # (`**info_kwargs` of the slot constructors: empty unless the rule passes some)
        for st in _stmts_in_order(f.node):
            tgt = None
            if isinstance(st, ast.Assign) and len(st.targets) == 1:
                tgt, val = st.targets[0], st.value
            elif isinstance(st, ast.AnnAssign) and st.value is not None:
                tgt, val = st.target, st.value
            if isinstance(tgt, ast.Name) and tgt.id not in env:
                # a local helper value of the constructor (`step = (upper - lower) / bins`): kept when it evaluates
                try:
                    env[tgt.id] = it.eval(val, dict(env), f.module)
                except (AnalysisError, Undecided, Raised, KeyError, RecursionError):
                    pass
                continue
            if tgt is None or not (isinstance(tgt, ast.Attribute) and isinstance(tgt.value, ast.Name) and tgt.value.id == "self"):
                continue
            if tgt.attr in skip or repo.resolve(cls, tgt.attr, "setter") is not None:
                continue  # an assignment through a property setter is a call, not a plain attribute
            try:
                v = it.eval(val, dict(env), f.module)
            except (AnalysisError, Undecided, Raised, KeyError, RecursionError):
                continue
            obj.fields[tgt.attr] = v
            done.append(tgt.attr)
    return done


def _stmts_in_order(fn_node):
    """All statements of a function body in source order (nested blocks included, nested functions excluded)."""
    out = []

    def rec(stmts):
        for st in stmts:
            if isinstance(st, (ast.FunctionDef, ast.AsyncFunctionDef, ast.ClassDef)):
                continue
            out.append(st)
            for field in ("body", "orelse", "finalbody"):
                blk = getattr(st, field, None)
                if isinstance(blk, list):
                    rec(blk)
            for h in getattr(st, "handlers", []) or []:
                rec(h.body)

    rec(fn_node.body)
    return out


def backing_attr(repo, cls, prop):
    """The attribute a trivial property returns (`return self.<attr>`), found through the MRO; None if the property is not of
    that form.  Lets a rule put a value where the class itself would look for it, whatever the attribute is called."""
    g = repo.resolve(cls, prop, "getter")
    if g is None:
        return None
    body = [st for st in g.node.body if not (isinstance(st, ast.Expr) and isinstance(st.value, ast.Constant) and isinstance(st.value.value, str))]
    if len(body) == 1 and isinstance(body[0], ast.Return) and isinstance(body[0].value, ast.Attribute) \
            and isinstance(body[0].value.value, ast.Name) and body[0].value.value.id == "self":
        return body[0].value.attr
    return None


def set_backed(repo, obj, prop, value):
    """obj.<prop> shall read `value`: stored in the property's backing attribute (or under the property's own name)."""
    attr = backing_attr(repo, obj.cls, prop) if obj.cls is not None else None
    obj.fields[attr or prop] = value
