"""Obligations, verdicts, evidence files, known findings, replay files."""
from __future__ import annotations

import hashlib
import json
import os

DISCHARGED = "DISCHARGED"
VIOLATED = "VIOLATED"
UNRECOGNISED = "UNRECOGNISED"

VERIF = os.path.dirname(os.path.dirname(os.path.abspath(__file__)))
KNOWN_FILE = os.path.join(VERIF, "known_findings.json")


class Ob:
    """One rule instance (obligation) with its verdict."""

    def __init__(self, rule, key, verdict, file="", line=0, func="", msg="", detail=None):
        self.rule = rule
        self.key = key  # stable construct key: never a line number
        self.verdict = verdict
        self.file = file
        self.line = line
        self.func = func
        self.msg = msg
        self.detail = detail or {}

    @property
    def where(self):
        return f"{self.file}:{self.line}" if self.file else ""

    def as_dict(self):
        d = {
            "rule": self.rule,
            "key": self.key,
            "verdict": self.verdict,
            "where": self.where,
            "function": self.func,
            "msg": self.msg,
        }
        if self.detail:
            d["detail"] = self.detail
        return d

    def hash(self):
        return hashlib.sha256(f"{self.rule}|{self.key}".encode()).hexdigest()[:12]


class Sink:
    """Collector handed to every rule."""

    def __init__(self):
        self.obs = []
        self.analysed = {}

    def _add(self, verdict, rule, key, at=None, msg="", func="", **detail):
        file, line = "", 0
        if at is not None:
            if isinstance(at, tuple):
                file, line = at
            else:
                file = getattr(at, "file", "")
                node = getattr(at, "node", None)
                line = getattr(node, "lineno", 0)
                func = func or getattr(at, "qualname", "")
        self.obs.append(Ob(rule, key, verdict, file, line, func, msg, detail))

    def ok(self, rule, key, at=None, msg="", **kw):
        self._add(DISCHARGED, rule, key, at, msg, **kw)

    def bad(self, rule, key, at=None, msg="", **kw):
        self._add(VIOLATED, rule, key, at, msg, **kw)

    def unknown(self, rule, key, at=None, msg="", **kw):
        self._add(UNRECOGNISED, rule, key, at, msg, **kw)

    def check(self, cond, rule, key, at=None, ok="", bad="", **kw):
        if cond:
            self.ok(rule, key, at, ok, **kw)
        else:
            self.bad(rule, key, at, bad or ok, **kw)
        return cond

    def note(self, name, value):
        """Record what was analysed (printed in the evidence)."""
        cur = self.analysed.get(name)
        if isinstance(cur, list) and isinstance(value, list):
            cur.extend(v for v in value if v not in cur)
        elif isinstance(cur, int) and isinstance(value, int):
            self.analysed[name] = cur + value
        else:
            self.analysed[name] = value

    def floor(self, rule, what, count, minimum, at=None):
        """Vacuity guard: fewer instances than confirmed by hand => UNRECOGNISED."""
        if count < minimum:
            self.unknown(
                rule,
                f"floor:{what}",
                at,
                f"only {count} instance(s) of '{what}' found, at least {minimum} expected: "
                "anchor moved or vocabulary too narrow",
            )
        else:
            self.note(f"{rule}.instances.{what}", count)


def load_known():
    if not os.path.exists(KNOWN_FILE):
        return []
    with open(KNOWN_FILE, encoding="utf-8") as fh:
        return json.load(fh).get("findings", [])


def split_known(prop, obs):
    """Partition violated obligations into (listed-open, unlisted)."""
    known = [
        k
        for k in load_known()
        if k.get("status") == "open" and prop in k.get("properties", [k.get("property")])
    ]
    listed, unlisted = [], []
    for o in obs:
        if o.verdict != VIOLATED:
            continue
        hit = next((k for k in known if k["rule"] == o.rule and k["key"] == o.key), None)
        (listed if hit else unlisted).append((o, hit))
    return listed, unlisted


def write_replay(prop, ob):
    d = os.path.join(VERIF, "evidence", "replay")
    os.makedirs(d, exist_ok=True)
    p = os.path.join(d, f"{prop}-{ob.rule}-{ob.hash()}.json")
    with open(p, "w", encoding="utf-8") as fh:
        json.dump({"property": prop, **ob.as_dict()}, fh, indent=1)
    return p


def write_evidence(prop, tier, seed, sink, wall, rules, explanation, assumptions, extra=None,
                   path=None):
    obs = sink.obs
    n_ok = sum(o.verdict == DISCHARGED for o in obs)
    n_bad = sum(o.verdict == VIOLATED for o in obs)
    distinct = len({(o.rule, o.key) for o in obs if o.where})
    samples = [o.as_dict() for o in obs if o.verdict != DISCHARGED][:20]
    seen_rules = set()
    for o in obs:
        if o.verdict == DISCHARGED and o.rule not in seen_rules and len(samples) < 60:
            seen_rules.add(o.rule)
            samples.append(o.as_dict())
    for o in obs:
        if len(samples) >= 60:
            break
        if o.verdict == DISCHARGED and o.as_dict() not in samples:
            samples.append(o.as_dict())
    cov = {
        "explanation": explanation,
        "obligations": len(obs),
        "discharged": n_ok,
        "evaluations": len(obs),
        "distinct_nontrivial": distinct,
        "rule": "one evaluation per rule instance (obligation) found in the current source of "
        "/repo/src/finam; distinct_nontrivial counts distinct (rule, construct) pairs whose "
        "pattern matched a concrete source location (floors and table-level obligations "
        "without a location are not counted)",
        "samples": samples,
        "exhaustive": True,
        "rules": rules,
        "per_rule": _per_rule(obs),
        "analysed": sink.analysed,
    }
    if extra:
        cov.update(extra)
    ev = {
        "property_id": prop,
        "tier": tier,
        "seed": seed,
        "level": "other",
        "coverage": cov,
        "assumptions": assumptions,
        "wall_s": round(wall, 3),
        "violations": n_bad,
    }
    path = path or os.path.join(VERIF, "evidence", f"{prop}.json")
    os.makedirs(os.path.dirname(path), exist_ok=True)
    tmp = path + ".tmp"
    with open(tmp, "w", encoding="utf-8") as fh:
        json.dump(ev, fh, indent=1, default=str)
    os.replace(tmp, path)
    return path


def _per_rule(obs):
    out = {}
    for o in obs:
        r = out.setdefault(o.rule, {DISCHARGED: 0, VIOLATED: 0, UNRECOGNISED: 0})
        r[o.verdict] += 1
    return out
