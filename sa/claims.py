"""Texts for MANIFEST.json (level claimed, trusted base, technique) per property."""

TECH_ABS = "finite-domain abstract interpretation of the function ASTs (decision-table extraction)"
NOTE = (
    "Trusted: Python grammar / stdlib ast; class-hierarchy call resolution restricted to "
    "src/finam; the checker's stated models (DESIGN.md section 4); numpy/pint/scipy semantics "
    "where named. Decides structural necessary conditions (clauses), not the behaviour as a whole."
)

CLAIMS = {
    "C01": {
        "text": "Static, clause level: every in-repo time component pulls at its announced time (R01); "
                "the scheduler's dependency walk demands from each source exactly the time the data path "
                "requests, for all chains of adapter kinds up to the bound (R02); the extracted decision "
                "table of one scheduling step updates a component only when no transitive dependency lags "
                "(R03/R09). Not decided: truthful third-party components, positive steps, numeric entry selection.",
        "design_ref": "DESIGN.md 4/C01",
        "note": NOTE,
        "technique": TECH_ABS + " over adapter-kind chains and small topologies; def-use on pull sites",
    },
}

PENDING = "check not built yet in this revision of /verif (see DESIGN.md section 5 for the plan)"
NOT_APPLICABLE = [
    {"property_id": "C05",
     "reason": "relation between whole executions under permutations of the input; no clause of it is a fact "
               "about the shape of the code (its anchored mechanisms are decided under C06/R13 and C02/R05)"},
]
for _p in ["C02", "C03", "C04", "C06", "C07", "C08", "C09", "C10", "C11", "C12", "C13", "C14", "C15",
           "C16", "C17", "C18", "C19", "C20"]:
    if _p not in CLAIMS:
        NOT_APPLICABLE.append({"property_id": _p, "reason": PENDING})

NOTES = (
    "Static analysis only: no check imports or runs finam. Exit 0 = all obligations discharged (or only "
    "listed known findings), 1 = unlisted violation with a VIOLATION line, 2 = analysis error "
    "(unrecognised shape / floor not met), printed as ANALYSIS-ERROR."
)
