"""Texts for MANIFEST.json (level claimed, trusted base, technique) per property."""
from . import registry

NOTE = (
    "Trusted base: Python grammar / stdlib ast; class-hierarchy call resolution restricted to classes in src/finam; the "
    "checker's stated models and reference semantics (DESIGN.md section 4 and 9); numpy/pint/scipy semantics where a rule names "
    "them. The check decides structural clauses that are necessary conditions of the property, not the behaviour as a whole; "
    "what is not decided is stated in the claim text. finam is never imported or executed."
)

T_CFG = "statement-CFG dominance / post-dominance"
T_ABS = "finite-domain abstract interpretation of the function ASTs (decision-table extraction, no concrete values, no solver)"
T_DF = "def-use / tag dataflow with per-function summaries"
T_NF = "syntactic rational-function normal forms"
T_CHA = "class-hierarchy (MRO) call resolution, who-may-call"

TECH = {
    "C01": f"{T_ABS} over adapter-kind chains, small topologies and order types; {T_DF} on pull sites",
    "C02": f"{T_ABS} of the dependency walk and scheduling step; {T_CFG} and accepted-idiom matching on the run loop",
    "C03": f"{T_CFG} over the life cycle; typestate-table comparison (wrappers / hooks / driver); {T_CHA}",
    "C04": f"{T_ABS} of the scheduling step over cyclic topologies and of the connect loop over scripted statuses; {T_CFG}",
    "C06": f"{T_ABS} of ConnectHelper against scripted peers; {T_CFG} (no store before a possible FinamNoDataError); handler-type lint",
    "C07": f"{T_ABS} of Info.accepts / masks_compatible decision tables; {T_CFG} and {T_DF} on the metadata exchange path",
    "C08": f"{T_ABS} of Output.get_data over order types; {T_CFG} stage ordering; tag dataflow (time axis); layout algebra",
    "C09": f"{T_ABS} of eviction over order types and consumer sets; link-element-kind table from {T_CHA} and {T_DF}",
    "C10": f"packed/unpacked typestate ({T_DF}); pairing and call-graph reachability of file removal; writer/reader agreement; {T_CFG}",
    "C11": f"{T_ABS} of the interpolation adapters over order types with {T_NF}",
    "C12": f"{T_ABS} of the integration adapters over order types; equality with the exact integral by {T_NF}",
    "C13": f"{T_ABS} of the delay protocol and clamp decision tables; walk/data-path agreement",
    "C14": f"memo-invalidation dataflow through property getters ({T_CHA}); sibling agreement; index-space typing",
    "C15": f"layout algebra ({T_ABS} over all axis orders and directions); tag dataflow for the time axis",
    "C16": f"writer/reader and coordinate/data pairing on resolved attributes; {T_DF}; term mirroring of compress/expand",
    "C17": f"{T_ABS} of the unit predicates against a scripted unit relation",
    "C18": f"{T_ABS} of the mask decision table; term mirroring of compress/expand",
    "C19": f"{T_ABS} of composition validation over enumerated topologies",
    "C20": f"{T_ABS} of static slots, pull-based outputs and the scheduling step; freshness dataflow",
}

CLAIMS = {}
for _pid, _spec in registry.PROPS.items():
    CLAIMS[_pid] = {
        "text": _spec["explanation"],
        "design_ref": f"DESIGN.md section 4/{_pid} and section 9",
        "note": NOTE,
        "technique": TECH[_pid],
    }

NOT_APPLICABLE = [
    {"property_id": "C05",
     "reason": "relation between whole executions under permutations of component and link order; no clause of it is a fact about "
               "the shape of the code. Its anchored mechanisms are decided where they are necessary conditions in their own right "
               "(failed exchanges side-effect free: C06/R13; selection by least time only: C02/R05) but neither is sufficient nor "
               "individually necessary for permutation equivalence, so claiming C05 through them would be a proxy."},
]

NOTES = (
    "Static analysis only: no check imports or runs finam. Exit 0 = all obligations discharged (or only listed known findings), "
    "1 = unlisted violation with a VIOLATION line, 2 = analysis error (unrecognised shape / floor not met / condition outside the "
    "abstract domain), printed as ANALYSIS-ERROR. 14 genuine defects found by the rules were repaired in /repo by separate 'fix:' "
    "commits and are recorded as fixed in known_findings.json; there are no open known findings."
)
