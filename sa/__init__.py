"""Static-analysis engine for the FINAM property checks (stdlib `ast` only).

Nothing in this package imports or runs `finam`; every verdict is derived from the
source text below ``<repo>/src/finam`` as it is on disk when the check runs.
"""
