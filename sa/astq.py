"""Small AST query helpers shared by the rules."""
from __future__ import annotations

import ast

from .loader import AnalysisError


def U(node):
    return ast.unparse(node) if node is not None else ""


def walk(node, into_nested=False):
    """ast.walk that does not descend into nested function / lambda / class bodies."""
    stack = [node]
    first = True
    while stack:
        n = stack.pop()
        if not first and not into_nested and isinstance(
            n, (ast.FunctionDef, ast.AsyncFunctionDef, ast.Lambda, ast.ClassDef)
        ):
            continue
        first = False
        yield n
        stack.extend(reversed(list(ast.iter_child_nodes(n))))


def walk_body(stmts, into_nested=False):
    for s in stmts:
        yield from walk(s, into_nested) if not isinstance(
            s, (ast.FunctionDef, ast.AsyncFunctionDef, ast.ClassDef)
        ) or into_nested else ()


def fn_walk(fn_node, into_nested=False):
    """Walk the body of a function (not its decorators / defaults)."""
    for s in fn_node.body:
        if isinstance(s, (ast.FunctionDef, ast.AsyncFunctionDef, ast.ClassDef)) and not into_nested:
            continue
        yield from walk(s, into_nested)


def self_attr(node, name="self"):
    """'x' for `self.x`, else None."""
    if (
        isinstance(node, ast.Attribute)
        and isinstance(node.value, ast.Name)
        and node.value.id == name
    ):
        return node.attr
    return None


def call_name(call):
    """Last path component of the callee: f(...) -> f ; a.b.c(...) -> c."""
    f = call.func
    if isinstance(f, ast.Name):
        return f.id
    if isinstance(f, ast.Attribute):
        return f.attr
    return None


def calls(root, name=None, into_nested=False):
    it = fn_walk(root, into_nested) if isinstance(root, (ast.FunctionDef,)) else walk(
        root, into_nested
    )
    for n in it:
        if isinstance(n, ast.Call) and (name is None or call_name(n) == name):
            yield n


def self_calls(root, name):
    for c in calls(root, name):
        if isinstance(c.func, ast.Attribute) and self_attr(c.func) == name:
            yield c


def parent(node):
    return getattr(node, "_parent", None)


def enclosing(node, types):
    cur = parent(node)
    while cur is not None and not isinstance(cur, types):
        cur = parent(cur)
    return cur


def stmt_of(node):
    cur = node
    while cur is not None and not isinstance(cur, ast.stmt):
        cur = parent(cur)
    return cur


def ancestors(node):
    cur = parent(node)
    while cur is not None:
        yield cur
        cur = parent(cur)


def is_within(node, root):
    cur = node
    while cur is not None:
        if cur is root:
            return True
        cur = parent(cur)
    return False


def arg_of(call, index, kw=None, params=None):
    """Positional / keyword argument of a call (None if absent)."""
    if kw is not None:
        for k in call.keywords:
            if k.arg == kw:
                return k.value
    if index is not None and index < len(call.args):
        a = call.args[index]
        if not isinstance(a, ast.Starred):
            return a
    return None


def names_in(node):
    return {n.id for n in ast.walk(node) if isinstance(n, ast.Name)}


def attr_chain(node):
    """`a.b.c` -> ['a','b','c'] or None."""
    out = []
    while isinstance(node, ast.Attribute):
        out.append(node.attr)
        node = node.value
    if isinstance(node, ast.Name):
        out.append(node.id)
        return list(reversed(out))
    return None


def const_names(node):
    """Members referenced like ComponentStatus.X inside node -> set of 'X'."""
    out = set()
    for n in ast.walk(node):
        if isinstance(n, ast.Attribute) and isinstance(n.value, ast.Name) and n.value.id == "ComponentStatus":
            out.add(n.attr)
    return out


# --------------------------------------------------------------- comparisons
_FLIP = {ast.Lt: ast.Gt, ast.Gt: ast.Lt, ast.LtE: ast.GtE, ast.GtE: ast.LtE,
         ast.Eq: ast.Eq, ast.NotEq: ast.NotEq}
_NEG = {ast.Lt: ast.GtE, ast.Gt: ast.LtE, ast.LtE: ast.Gt, ast.GtE: ast.Lt,
        ast.Eq: ast.NotEq, ast.NotEq: ast.Eq, ast.Is: ast.IsNot, ast.IsNot: ast.Is,
        ast.In: ast.NotIn, ast.NotIn: ast.In}
_SYM = {ast.Lt: "<", ast.LtE: "<=", ast.Gt: ">", ast.GtE: ">=", ast.Eq: "==",
        ast.NotEq: "!=", ast.Is: "is", ast.IsNot: "is not", ast.In: "in", ast.NotIn: "not in"}


def cmp_norm(expr, negate=False):
    """Normalise a single comparison to (left, op, right) with op in < <= == != ...

    `a > b` becomes (b, '<', a); `not (a >= b)` becomes (a, '<', b).  Returns None for
    anything that is not a simple binary comparison."""
    while isinstance(expr, ast.UnaryOp) and isinstance(expr.op, ast.Not):
        negate = not negate
        expr = expr.operand
    if not (isinstance(expr, ast.Compare) and len(expr.ops) == 1):
        return None
    op = type(expr.ops[0])
    left, right = expr.left, expr.comparators[0]
    if negate:
        op = _NEG.get(op)
        if op is None:
            return None
    if op in (ast.Gt, ast.GtE):
        op = _FLIP[op]
        left, right = right, left
    return (U(left), _SYM[op], U(right))


def cmp_parts(expr, negate=False):
    """Like cmp_norm but returns AST operands: (left_ast, op_symbol, right_ast)."""
    while isinstance(expr, ast.UnaryOp) and isinstance(expr.op, ast.Not):
        negate = not negate
        expr = expr.operand
    if not (isinstance(expr, ast.Compare) and len(expr.ops) == 1):
        return None
    op = type(expr.ops[0])
    left, right = expr.left, expr.comparators[0]
    if negate:
        op = _NEG.get(op)
        if op is None:
            return None
    if op in (ast.Gt, ast.GtE):
        op = _FLIP[op]
        left, right = right, left
    return (left, _SYM[op], right)


def conjuncts(expr):
    if isinstance(expr, ast.BoolOp) and isinstance(expr.op, ast.And):
        out = []
        for v in expr.values:
            out.extend(conjuncts(v))
        return out
    return [expr]


def disjuncts(expr):
    if isinstance(expr, ast.BoolOp) and isinstance(expr.op, ast.Or):
        out = []
        for v in expr.values:
            out.extend(disjuncts(v))
        return out
    return [expr]


def guards_of(node, stop=None):
    """Conditions that hold when `node` executes: list of (test_expr, polarity) from the
    enclosing `if`/`while`/ternary structure (innermost last). Early-return guards are
    not included (use the CFG for those)."""
    out = []
    cur = node
    while True:
        p = parent(cur)
        if p is None or p is stop:
            break
        if isinstance(p, (ast.If, ast.While)):
            if cur in p.body:
                out.append((p.test, True))
            elif cur in p.orelse:
                out.append((p.test, False))
        elif isinstance(p, ast.IfExp):
            if cur is p.body:
                out.append((p.test, True))
            elif cur is p.orelse:
                out.append((p.test, False))
        if isinstance(p, (ast.FunctionDef, ast.AsyncFunctionDef)):
            break
        cur = p
    return list(reversed(out))


def require(cond, msg):
    if not cond:
        raise AnalysisError(msg)


def stmt_key(node):
    """Normalised statement text used in construct keys (never a line number)."""
    s = stmt_of(node) or node
    if isinstance(s, (ast.If, ast.While)):
        return f"{type(s).__name__.lower()} {U(s.test)}"
    if isinstance(s, ast.For):
        return f"for {U(s.target)} in {U(s.iter)}"
    if isinstance(s, ast.With):
        return "with " + ", ".join(U(i) for i in s.items)
    return " ".join(U(s).split())
