"""R06t - the life cycle as a trace: an abstract run of the real Composition constructor,
connect() and run() over scripted stand-in components that record every life-cycle call.

Decided on the trace (not on the shape of the code): every component passes initialize,
connect (>= 1 call), validate, finalize exactly once and in this order, updates lie between
validate and finalize, and a component that reports FAILED (or any state the phase does not
allow) in some phase stops the composition with FinamStatusError before any later phase of any
component starts."""
from __future__ import annotations

import ast

from ..absbase import FinamInterp, Logger, Ref
from ..interp import Closure, Obj, Raised, Sym, Undecided
from ..loader import AnalysisError

PHASES = ("initialize", "connect", "validate", "update", "finalize")
AFTER = {"initialize": "INITIALIZED", "validate": "VALIDATED", "update": "UPDATED", "finalize": "FINALIZED"}


def _st(name):
    return Sym("enum", "ComponentStatus", name)


class Opaque:
    """External object nobody looks into (loggers, handlers, formatters, paths)."""

    def __repr__(self):
        return "<opaque>"


OPAQUE = Opaque()


class LifeInterp(FinamInterp):
    def __init__(self, repo, script):
        super().__init__(repo)
        self.script = script  # comp name -> dict(step, connect_calls, fail=(phase, status))
        self.trace = []  # (comp, phase)
        self.handler = Obj(label="log-handler")
        self.handler_closed = 0

    # ----- externals nobody looks into
    def ext_call(self, name, args, kwargs, node):
        root = name.split(".")[0]
        if root in ("logging", "sys", "os", "Path", "strftime", "time", "pathlib") or name in ("Path", "strftime"):
            return OPAQUE
        return super().ext_call(name, args, kwargs, node)

    def ext_isinstance(self, v, name, node):
        if name == "datetime":
            return isinstance(v, int) and not isinstance(v, bool)
        if name == "bool":
            return isinstance(v, bool)
        return super().ext_isinstance(v, name, node)

    def get_attr(self, obj, attr, node, mod):
        if (isinstance(obj, Logger) or obj is OPAQUE) and attr == "handlers":
            return [self.handler]  # one installed log handler (file / stream), to be closed at the end
        if isinstance(obj, Obj) and obj.label == "log-handler":
            return Sym("handlercall", attr)
        if obj is OPAQUE:
            return OPAQUE
        if isinstance(obj, Obj) and "component" in obj.markers and attr in PHASES:
            return Sym("lc", Ref(obj), attr)
        if isinstance(obj, Obj) and obj.label in ("slots",) and attr in ("set_logger", "items", "values", "keys"):
            return Sym("slotcall", attr, Ref(obj))
        return super().get_attr(obj, attr, node, mod)

    def get_item(self, c, k, node):
        if c is OPAQUE:
            return []
        return super().get_item(c, k, node)

    def iterate(self, v, node):
        if v is OPAQUE:
            return []
        if isinstance(v, Obj) and v.label == "slots":
            return [k for k, _v in v.fields.get("_slot_items", [])]
        return super().iterate(v, node)

    def builtin(self, name, args, kwargs, node):
        if name == "len" and isinstance(args[0], Obj) and args[0].label == "slots":
            return len(args[0].fields.get("_slot_items", []))
        return super().builtin(name, args, kwargs, node)

    def call_hook(self, fv, args, kwargs, node, mod):
        if fv is OPAQUE:
            return OPAQUE
        if isinstance(fv, Sym) and fv.op == "handlercall":
            if fv.args[0] == "close":
                self.handler_closed += 1
            return None
        if isinstance(fv, Sym) and fv.op == "slotcall":
            items = fv.args[1].obj.fields.get("_slot_items", [])
            return {"items": list(items), "values": [v for _k, v in items], "keys": [k for k, _v in items]}.get(fv.args[0])
        if isinstance(fv, Sym) and fv.op == "lc":
            comp, phase = fv.args[0].obj, fv.args[1]
            sc = self.script[comp.label]
            self.trace.append((comp.label, phase))
            if len(self.trace) > 400:
                raise AnalysisError("life-cycle trace longer than 400 calls")
            if phase == "connect":
                sc["_connects"] = sc.get("_connects", 0) + 1
                new = "CONNECTED" if sc["_connects"] >= sc.get("connect_calls", 1) else "CONNECTING"
            else:
                new = AFTER[phase]
            if phase == "update":
                comp.fields["time"] = comp.fields["time"] + sc.get("step", 1)
            fail = sc.get("fail")
            if fail and fail[0] == phase:
                new = fail[1]
            comp.fields["status"] = _st(new)
            return None
        return super().call_hook(fv, args, kwargs, node, mod)


def _comp(name, t0):
    c = Obj(label=name, markers={"component", "IComponent", "ITimeComponent"})
    c.fields.update(name=name, status=_st("CREATED"), time=t0, next_time=None, inputs=Obj(label="slots"), outputs=Obj(label="slots"),
                    uses_base_logger_name=False, base_logger_name=None, logger_name=name, metadata={})
    return c


def _drive(repo, script, end=6, timed=True, connect_twice=False, dangling_input=False):
    """Constructor, connect (through run) and run of a composition of the scripted components.
    Returns (interp, outcome) with outcome None | exception name."""
    from ..absbase import seed_from_init
    comp_cls = repo.cls("Composition")
    comps = [_comp(n, 0) for n in script]
    it = LifeInterp(repo, script)
    it.max_loop = 1000
    if not timed:
        for c in comps:
            c.markers.discard("ITimeComponent")
            c.fields["time"] = None
    if dangling_input:
        icls = repo.cls("Input")
        inp = Obj(cls=icls, label="Input")
        seed_from_init(it, icls, inp, {"name": "in", "info": None, "static": False})
        inp.fields["logger"] = Logger(label="logger")
        comps[0].fields["inputs"].fields["_slot_items"] = [("in", inp)]
    me = Obj(cls=comp_cls, label="composition")
    init = repo.resolve(comp_cls, "__init__", "method")
    run = repo.resolve(comp_cls, "run", "method")
    conn = repo.resolve(comp_cls, "connect", "method")
    try:
        it.run(init, [comps], {}, self_obj=me)
        if connect_twice:
            it.run(conn, [0], {}, self_obj=me)
            it.run(conn, [0], {}, self_obj=me)
        it.run(run, [], {"start_time": 0 if timed else None, "end_time": end if timed else None}, self_obj=me)
    except Raised as r:
        return it, r.name
    return it, None


def r06t_trace(repo, sink):
    comp_cls = repo.cls("Composition")
    run = repo.resolve(comp_cls, "run", "method")
    names = ("A", "B")
    # 1. the regular life cycle
    script = {"A": dict(step=2, connect_calls=2), "B": dict(step=3, connect_calls=1)}
    try:
        it, outcome = _drive(repo, script)
    except (AnalysisError, Undecided) as exc:
        sink.unknown("R06", "life-trace", run, f"constructor / connect / run outside vocabulary: {exc}")
        return
    why = None
    if outcome is not None:
        why = f"a composition of two well-behaved components ends in {outcome}"
    else:
        for n in names:
            seq = [p for c, p in it.trace if c == n]
            once = {p: seq.count(p) for p in ("initialize", "validate", "finalize")}
            if any(v != 1 for v in once.values()):
                why = why or f"component {n}: life-cycle calls {once}; initialize, validate and finalize are called exactly once each"
            elif seq.count("connect") < script[n]["connect_calls"]:
                why = why or f"component {n}: connect called {seq.count('connect')} times although it needs {script[n]['connect_calls']} calls to finish connecting"
            elif seq.count("update") < 1:
                why = why or f"component {n} is never updated"
            else:
                order = [seq.index("initialize"), seq.index("connect"), len(seq) - 1 - seq[::-1].index("connect"), seq.index("validate"),
                         seq.index("update"), len(seq) - 1 - seq[::-1].index("update"), seq.index("finalize")]
                if order != sorted(order):
                    why = why or f"component {n}: life-cycle order is {seq}; expected initialize, connect.., validate, update.., finalize"
        # a phase starts for no component before the previous phase is complete for every component
        first = {p: min((i for i, (c, q) in enumerate(it.trace) if q == p), default=None) for p in PHASES}
        last = {p: max((i for i, (c, q) in enumerate(it.trace) if q == p), default=None) for p in PHASES}
        for a, b in zip(PHASES, PHASES[1:]):
            if first[b] is not None and last[a] is not None and first[b] < last[a]:
                why = why or f"phase `{b}` starts (call {first[b]}) before phase `{a}` is complete for every component (call {last[a]})"
    if why is None and it.handler_closed != 1:
        why = f"the composition's log handler is closed {it.handler_closed} times at the end of run() (file handles stay open / closed twice)"
    sink.check(why is None, "R06", "life-trace", run,
               ok=f"{len(it.trace)} life-cycle calls on two scripted components: initialize, connect.., validate, update.., finalize - once each where "
                  "required, in this order, phase by phase",
               bad=why or "")
    # 2. a component that leaves a phase in a state the phase does not allow stops the composition at once
    n_fail = 0
    for phase in PHASES:
        for bad_state in ("FAILED",) + (("CREATED",) if phase in ("initialize", "validate") else ()):
            for who in names:
                script = {"A": dict(step=2, connect_calls=2), "B": dict(step=3, connect_calls=1)}
                script[who]["fail"] = (phase, bad_state)
                try:
                    it, outcome = _drive(repo, script)
                except (AnalysisError, Undecided) as exc:
                    sink.unknown("R06", f"life-trace:status-checked:{phase}", run, f"outside vocabulary: {exc}")
                    return
                n_fail += 1
                idx = next(i for i, (c, p) in enumerate(it.trace) if c == who and p == phase)
                later = [(c, p) for (c, p) in it.trace[idx + 1:]]
                why = None
                if outcome != "FinamStatusError":
                    why = (f"component {who} is {bad_state} after {phase}(): the composition "
                           f"{'carries on and returns normally' if outcome is None else 'ends in ' + outcome}, expected FinamStatusError")
                elif later:
                    why = f"component {who} is {bad_state} after {phase}(): {later[:3]} are still called before the composition stops"
                if why:
                    sink.bad("R06", f"life-trace:status-checked:{phase}", run, why)
                    break
            else:
                continue
            break
        else:
            sink.ok("R06", f"life-trace:status-checked:{phase}", run,
                    f"a component that is FAILED (or unchanged) after {phase}() stops the composition with FinamStatusError before any further life-cycle call")
    sink.floor("R06", "scripted life-cycle failures", n_fail, 10)
    # 3. special situations
    try:
        it, outcome = _drive(repo, {"A": dict(connect_calls=1)}, timed=False)
        seq = [p for _c, p in it.trace]
        sink.check(outcome is None and seq.count("finalize") == 1 and seq.count("initialize") == 1 and seq.count("validate") == 1, "R06", "life-trace:no-time-components", run,
                   ok="a composition without time components is initialized, connected, validated and finalized once",
                   bad=f"composition without time components: outcome {outcome}, life-cycle calls {seq} (components stay unfinalized / a phase is skipped)")
        it, outcome = _drive(repo, {"A": dict(step=2, connect_calls=1)}, connect_twice=True)
        seq = [p for _c, p in it.trace]
        sink.check(outcome == "FinamStatusError" and seq.count("validate") == 1 and "update" not in seq, "R06", "life-trace:connect-once", run,
                   ok="a second connect() is refused with FinamStatusError, nothing is connected or validated twice",
                   bad=f"second connect(): outcome {outcome}, life-cycle calls {seq}")
        it, outcome = _drive(repo, {"A": dict(step=2, connect_calls=1)}, dangling_input=True)
        seq = [p for _c, p in it.trace]
        sink.check(outcome == "FinamConnectError" and "connect" not in seq, "R06", "life-trace:validated-before-connect", run,
                   ok="an invalid composition (unconnected input) is refused with FinamConnectError before any component connects",
                   bad=f"composition with an unconnected input: outcome {outcome}, life-cycle calls {seq}")
    except (AnalysisError, Undecided) as exc:
        sink.unknown("R06", "life-trace:special", run, f"outside vocabulary: {exc}")
