"""R06t - the life cycle as a trace: an abstract run of the real Composition constructor,
connect() and run() over scripted stand-in components that record every life-cycle call.

Decided on the trace (not on the shape of the code): every component passes initialize,
connect (>= 1 call), validate, finalize exactly once and in this order, updates lie between
validate and finalize, and a component that reports FAILED (or any state the phase does not
allow) in some phase stops the composition with FinamStatusError before any later phase of any
component starts."""
from __future__ import annotations

import ast

from ..absbase import FinamInterp, Logger, Ref
from ..interp import Closure, Obj, Raised, Sym, Undecided
from ..loader import AnalysisError

PHASES = ("initialize", "connect", "validate", "update", "finalize")
AFTER = {"initialize": "INITIALIZED", "validate": "VALIDATED", "update": "UPDATED", "finalize": "FINALIZED"}


def _st(name):
    return Sym("enum", "ComponentStatus", name)


class Opaque:
    """External object nobody looks into (loggers, handlers, formatters, paths)."""

    def __repr__(self):
        return "<opaque>"


OPAQUE = Opaque()


class LifeInterp(FinamInterp):
    def __init__(self, repo, script):
        super().__init__(repo)
        self.script = script  # comp name -> dict(step, connect_calls, fail=(phase, status))
        self.trace = []  # (comp, phase)
        self.handler = Obj(label="log-handler")
        self.handler_closed = 0
        self.slots = []  # (slot stub, has own limit, has own location)
        self.memory_at_first_connect = None
        self.slot_finalized = []
        self.dirs_made = []  # (path, some component has connected already)
        self.updates = []  # (component, {name: (time, finished)} before the update) for every update the driver performs

    # ----- externals nobody looks into
    def decide(self, cond, node):
        if isinstance(cond, Sym) and cond.op in ("LIMIT", "LOCATION"):
            return True  # a positive limit / a non-empty path
        return super().decide(cond, node)

    def ext_call(self, name, args, kwargs, node):
        if name in ("os.makedirs", "makedirs", "os.mkdir") or name.endswith(".mkdir"):
            self.dirs_made.append((args[0] if args else None, any(p == "connect" for _c, p in self.trace)))
            return None
        root = name.split(".")[0]
        if root in ("logging", "sys", "os", "Path", "strftime", "time", "pathlib") or name in ("Path", "strftime"):
            return OPAQUE
        return super().ext_call(name, args, kwargs, node)

    def ext_isinstance(self, v, name, node):
        if name == "datetime":
            return isinstance(v, int) and not isinstance(v, bool)
        if name == "bool":
            return isinstance(v, bool)
        return super().ext_isinstance(v, name, node)

    def get_attr(self, obj, attr, node, mod):
        if (isinstance(obj, Logger) or obj is OPAQUE) and attr == "handlers":
            return [self.handler]  # one installed log handler (file / stream), to be closed at the end
        if isinstance(obj, Obj) and obj.label == "log-handler":
            return Sym("handlercall", attr)
        if obj is OPAQUE:
            return OPAQUE
        if isinstance(obj, Obj) and "component" in obj.markers and attr in PHASES:
            return Sym("lc", Ref(obj), attr)
        if isinstance(obj, Obj) and "slot-stub" in obj.markers and attr in ("finalize", "ping", "pinged"):
            return Sym("slotstub", Ref(obj), attr)
        if isinstance(obj, Obj) and obj.label in ("slots",) and attr in ("set_logger", "items", "values", "keys"):
            return Sym("slotcall", attr, Ref(obj))
        return super().get_attr(obj, attr, node, mod)

    def get_item(self, c, k, node):
        if c is OPAQUE:
            return []
        return super().get_item(c, k, node)

    def iterate(self, v, node):
        if v is OPAQUE:
            return []
        if isinstance(v, Obj) and v.label == "slots":
            return [k for k, _v in v.fields.get("_slot_items", [])]
        return super().iterate(v, node)

    def builtin(self, name, args, kwargs, node):
        if name == "len" and isinstance(args[0], Obj) and args[0].label == "slots":
            return len(args[0].fields.get("_slot_items", []))
        return super().builtin(name, args, kwargs, node)

    def call_hook(self, fv, args, kwargs, node, mod):
        if fv is OPAQUE:
            return OPAQUE
        if isinstance(fv, Sym) and fv.op == "handlercall":
            if fv.args[0] == "close":
                self.handler_closed += 1
            return None
        if isinstance(fv, Sym) and fv.op == "slotcall":
            items = fv.args[1].obj.fields.get("_slot_items", [])
            return {"items": list(items), "values": [v for _k, v in items], "keys": [k for k, _v in items]}.get(fv.args[0])
        if isinstance(fv, Sym) and fv.op == "slotstub":
            if fv.args[1] == "finalize":
                self.slot_finalized.append(fv.args[0].obj.label)
            return None
        if isinstance(fv, Sym) and fv.op == "lc":
            comp, phase = fv.args[0].obj, fv.args[1]
            if phase == "connect" and self.memory_at_first_connect is None:
                self.memory_at_first_connect = {sl.label: (sl.fields["memory_limit"], sl.fields["memory_location"]) for sl, _a, _b in self.slots}
            sc = self.script[comp.label]
            self.trace.append((comp.label, phase))
            if len(self.trace) > 400:
                raise AnalysisError("life-cycle trace longer than 400 calls")
            if phase == "connect":
                sc["_connects"] = sc.get("_connects", 0) + 1
                new = "CONNECTED" if sc["_connects"] >= sc.get("connect_calls", 1) else "CONNECTING"
            else:
                new = AFTER[phase]
            if phase == "update":
                comps = getattr(self, "comps", {})
                self.updates.append((comp.label, {k: (v.fields["time"], v.fields["status"] == _st("FINISHED")) for k, v in comps.items()}))
                if len(self.updates) > 300:
                    raise AnalysisError("more than 300 updates in a scripted run")
                # scripted dependencies: the components this one lags behind are advanced first (what the real dependency
                # walk does for linked components; the stand-ins have no slots)
                target = comp.fields["time"] + sc.get("step", 1)
                for d in sc.get("deps", ()):
                    dep, dsc = comps[d], self.script[d]
                    while dep.fields["time"] < target and dep.fields["status"] != _st("FINISHED"):
                        dep.fields["time"] = dep.fields["time"] + dsc.get("step", 1)
                        fin = dsc.get("finish_at")
                        dep.fields["status"] = _st("FINISHED" if fin is not None and dep.fields["time"] >= fin else "UPDATED")
                comp.fields["time"] = comp.fields["time"] + sc.get("step", 1)
                if sc.get("finish_at") is not None and comp.fields["time"] >= sc["finish_at"]:
                    new = "FINISHED"  # the component declares itself finished
            fail = sc.get("fail")
            if fail and fail[0] == phase:
                new = fail[1]
            comp.fields["status"] = _st(new)
            return None
        return super().call_hook(fv, args, kwargs, node, mod)


def _comp(name, t0):
    c = Obj(label=name, markers={"component", "IComponent", "ITimeComponent"})
    c.fields.update(name=name, status=_st("CREATED"), time=t0, next_time=None, inputs=Obj(label="slots"), outputs=Obj(label="slots"),
                    uses_base_logger_name=False, base_logger_name=None, logger_name=name, metadata={})
    return c


def _slot(label, kind, own_limit, own_loc):
    o = Obj(label=label, markers={"IOutput", "slot-stub"} | ({"IAdapter", "IInput"} if kind == "adapter" else set()))
    o.fields.update(memory_limit=Sym("own_limit") if own_limit else None, memory_location=Sym("own_loc") if own_loc else None,
                    targets=[], has_targets=False, name=label, is_static=False, needs_push=False, needs_pull=False, source=None)
    return o


def _drive(repo, script, end=6, timed=True, connect_twice=False, dangling_input=False, memory_slots=False, ctor=None, retry_after_rejection=False):
    """Constructor, connect (through run) and run of a composition of the scripted components.
    Returns (interp, outcome) with outcome None | exception name."""
    from ..absbase import seed_from_init
    comp_cls = repo.cls("Composition")
    comps = [_comp(n, script[n].get("_t0", 0)) for n in script]
    it = LifeInterp(repo, script)
    it.comps = {c.label: c for c in comps}
    it.max_loop = 1000
    if not timed:
        for c in comps:
            c.markers.discard("ITimeComponent")
            c.fields["time"] = None
    if dangling_input:
        icls = repo.cls("Input")
        inp = Obj(cls=icls, label="Input")
        seed_from_init(it, icls, inp, {"name": "in", "info": None, "static": False})
        inp.fields["logger"] = Logger(label="logger")
        comps[0].fields["inputs"].fields["_slot_items"] = [("in", inp)]
    if memory_slots:
        outs = []
        for own_limit in (False, True):
            for own_loc in (False, True):
                tag = f"limit={'own' if own_limit else 'unset'},location={'own' if own_loc else 'unset'}"
                out = _slot(f"output({tag})", "output", own_limit, own_loc)
                ada = _slot(f"adapter({tag})", "adapter", own_limit, own_loc)
                out.fields["targets"] = [ada]
                out.fields["has_targets"] = True
                ada.fields["source"] = out
                outs.append((f"o{len(outs)}", out))
                it.slots.append((out, own_limit, own_loc))
                it.slots.append((ada, own_limit, own_loc))
        comps[0].fields["outputs"].fields["_slot_items"] = outs
    me = Obj(cls=comp_cls, label="composition")
    init = repo.resolve(comp_cls, "__init__", "method")
    run = repo.resolve(comp_cls, "run", "method")
    conn = repo.resolve(comp_cls, "connect", "method")
    try:
        it.run(init, [comps], dict(ctor or {}), self_obj=me)
        if connect_twice:
            it.run(conn, [0], {}, self_obj=me)
            it.run(conn, [0], {}, self_obj=me)
        if retry_after_rejection:
            # a connect() refused by validation, the unconnected input taken away again, then the run (which connects)
            try:
                it.run(conn, [0], {}, self_obj=me)
                it.first_connect = None
            except Raised as r:
                it.first_connect = r.name
            it.trace_at_rejection = len(it.trace)
            comps[0].fields["inputs"].fields["_slot_items"] = []
        it.run(run, [], {"start_time": 0 if timed else None, "end_time": end if timed else None}, self_obj=me)
    except Raised as r:
        return it, r.name
    except AnalysisError as exc:
        exc.interp = it  # (what was observed up to the point where the run left the vocabulary / the step budget)
        raise
    return it, None


def r06t_trace(repo, sink):
    comp_cls = repo.cls("Composition")
    run = repo.resolve(comp_cls, "run", "method")
    names = ("A", "B")
    # 1. the regular life cycle
    script = {"A": dict(step=2, connect_calls=2), "B": dict(step=3, connect_calls=1)}
    try:
        it, outcome = _drive(repo, script)
    except (AnalysisError, Undecided) as exc:
        sink.unknown("R06", "life-trace", run, f"constructor / connect / run outside vocabulary: {exc}")
        return
    why = None
    if outcome is not None:
        why = f"a composition of two well-behaved components ends in {outcome}"
    else:
        for n in names:
            seq = [p for c, p in it.trace if c == n]
            once = {p: seq.count(p) for p in ("initialize", "validate", "finalize")}
            if any(v != 1 for v in once.values()):
                why = why or f"component {n}: life-cycle calls {once}; initialize, validate and finalize are called exactly once each"
            elif seq.count("connect") < script[n]["connect_calls"]:
                why = why or f"component {n}: connect called {seq.count('connect')} times although it needs {script[n]['connect_calls']} calls to finish connecting"
            elif seq.count("update") < 1:
                why = why or f"component {n} is never updated"
            else:
                order = [seq.index("initialize"), seq.index("connect"), len(seq) - 1 - seq[::-1].index("connect"), seq.index("validate"),
                         seq.index("update"), len(seq) - 1 - seq[::-1].index("update"), seq.index("finalize")]
                if order != sorted(order):
                    why = why or f"component {n}: life-cycle order is {seq}; expected initialize, connect.., validate, update.., finalize"
        # a phase starts for no component before the previous phase is complete for every component
        first = {p: min((i for i, (c, q) in enumerate(it.trace) if q == p), default=None) for p in PHASES}
        last = {p: max((i for i, (c, q) in enumerate(it.trace) if q == p), default=None) for p in PHASES}
        for a, b in zip(PHASES, PHASES[1:]):
            if first[b] is not None and last[a] is not None and first[b] < last[a]:
                why = why or f"phase `{b}` starts (call {first[b]}) before phase `{a}` is complete for every component (call {last[a]})"
    if why is None and it.handler_closed != 1:
        why = f"the composition's log handler is closed {it.handler_closed} times at the end of run() (file handles stay open / closed twice)"
    sink.check(why is None, "R06", "life-trace", run,
               ok=f"{len(it.trace)} life-cycle calls on two scripted components: initialize, connect.., validate, update.., finalize - once each where "
                  "required, in this order, phase by phase",
               bad=why or "")
    # 2. a component that leaves a phase in a state the phase does not allow stops the composition at once
    n_fail = 0
    for phase in PHASES:
        for bad_state in ("FAILED",) + (("CREATED",) if phase in ("initialize", "validate") else ()):
            for who in names:
                script = {"A": dict(step=2, connect_calls=2), "B": dict(step=3, connect_calls=1)}
                script[who]["fail"] = (phase, bad_state)
                try:
                    it, outcome = _drive(repo, script)
                except (AnalysisError, Undecided) as exc:
                    sink.unknown("R06", f"life-trace:status-checked:{phase}", run, f"outside vocabulary: {exc}")
                    return
                n_fail += 1
                idx = next(i for i, (c, p) in enumerate(it.trace) if c == who and p == phase)
                later = [(c, p) for (c, p) in it.trace[idx + 1:]]
                why = None
                if outcome != "FinamStatusError":
                    why = (f"component {who} is {bad_state} after {phase}(): the composition "
                           f"{'carries on and returns normally' if outcome is None else 'ends in ' + outcome}, expected FinamStatusError")
                elif later:
                    why = f"component {who} is {bad_state} after {phase}(): {later[:3]} are still called before the composition stops"
                if why:
                    sink.bad("R06", f"life-trace:status-checked:{phase}", run, why)
                    break
            else:
                continue
            break
        else:
            sink.ok("R06", f"life-trace:status-checked:{phase}", run,
                    f"a component that is FAILED (or unchanged) after {phase}() stops the composition with FinamStatusError before any further life-cycle call")
    sink.floor("R06", "scripted life-cycle failures", n_fail, 10)
    # 3. special situations
    try:
        it, outcome = _drive(repo, {"A": dict(connect_calls=1)}, timed=False)
        seq = [p for _c, p in it.trace]
        sink.check(outcome is None and seq.count("finalize") == 1 and seq.count("initialize") == 1 and seq.count("validate") == 1, "R06", "life-trace:no-time-components", run,
                   ok="a composition without time components is initialized, connected, validated and finalized once",
                   bad=f"composition without time components: outcome {outcome}, life-cycle calls {seq} (components stay unfinalized / a phase is skipped)")
        it, outcome = _drive(repo, {"A": dict(step=2, connect_calls=1)}, connect_twice=True)
        seq = [p for _c, p in it.trace]
        sink.check(outcome == "FinamStatusError" and seq.count("validate") == 1 and "update" not in seq, "R06", "life-trace:connect-once", run,
                   ok="a second connect() is refused with FinamStatusError, nothing is connected or validated twice",
                   bad=f"second connect(): outcome {outcome}, life-cycle calls {seq}")
        it, outcome = _drive(repo, {"A": dict(step=2, connect_calls=1)}, dangling_input=True)
        seq = [p for _c, p in it.trace]
        sink.check(outcome == "FinamConnectError" and "connect" not in seq, "R06", "life-trace:validated-before-connect", run,
                   ok="an invalid composition (unconnected input) is refused with FinamConnectError before any component connects",
                   bad=f"composition with an unconnected input: outcome {outcome}, life-cycle calls {seq}")
        it, outcome = _drive(repo, {"A": dict(connect_calls=1)}, timed=False, dangling_input=True)
        seq = [p for _c, p in it.trace]
        sink.check(outcome == "FinamConnectError" and "connect" not in seq, "R06", "life-trace:validated-before-connect:no-time-components", run,
                   ok="also without time components an invalid composition is refused with FinamConnectError before any component connects",
                   bad=f"composition without time components and with an unconnected input: outcome {outcome}, life-cycle calls {seq} "
                       "(validation must not depend on how the start time is determined)")
        it, outcome = _drive(repo, {"A": dict(step=2, connect_calls=1)}, dangling_input=True, retry_after_rejection=True)
        seq = [p for _c, p in it.trace][getattr(it, "trace_at_rejection", 0):]
        first = getattr(it, "first_connect", None)
        sink.check(first == "FinamConnectError" and outcome is None and seq.count("connect") >= 1 and seq.count("validate") == 1 and seq.count("finalize") == 1,
                   "R06", "life-trace:connect-again-after-rejection", run,
                   ok="a connect() refused by validation leaves the composition unconnected: after the repair it connects, validates, runs and finalizes",
                   bad=f"first connect() with an unconnected input: {first or 'accepted'}; after taking that input away the run ends with {outcome or 'no error'}, "
                       f"life-cycle calls {seq}: a refused connect() must not mark the composition as connected (the repaired topology is never "
                       "validated / connected)")
    except (AnalysisError, Undecided) as exc:
        sink.unknown("R06", "life-trace:special", run, f"outside vocabulary: {exc}")


def r25w_memory_wiring(repo, sink):
    """Before any component connects (= before data is exchanged) every output and every adapter
    of the composition has the composition's memory limit / location where it has none of its
    own, and keeps its own setting otherwise; every collected adapter is finalized at the end.
    Observed on the trace of the real constructor, connect() and run()."""
    comp_cls = repo.cls("Composition")
    conn = repo.resolve(comp_cls, "connect", "method")
    try:
        it, outcome = _drive(repo, {"A": dict(step=2, connect_calls=1), "B": dict(step=3, connect_calls=1)}, memory_slots=True,
                             ctor={"slot_memory_limit": Sym("LIMIT"), "slot_memory_location": Sym("LOCATION")})
    except (AnalysisError, Undecided) as exc:
        sink.unknown("R25", "composition-hands-limit", conn, f"constructor / connect / run outside vocabulary: {exc}")
        return
    if outcome is not None or it.memory_at_first_connect is None:
        sink.unknown("R25", "composition-hands-limit", conn, f"the scripted composition with stand-in outputs and adapters ends in {outcome}")
        return
    for kind in ("output", "adapter"):
        why = None
        for sl, own_limit, own_loc in it.slots:
            if not sl.label.startswith(kind):
                continue
            got = it.memory_at_first_connect[sl.label]
            want = (Sym("own_limit") if own_limit else Sym("LIMIT"), Sym("own_loc") if own_loc else Sym("LOCATION"))
            if got != want:
                why = why or (f"{sl.label}: when the first component connects it has limit {got[0]!r}, location {got[1]!r}; expected {want[0]!r}, "
                              f"{want[1]!r} (each unset setting takes the composition's value independently, own settings are kept)")
        sink.check(why is None, "R25", f"composition-hands-limit-to:{kind}s", conn,
                   ok=f"every unset memory limit / location of the {kind}s takes the composition's value before data is exchanged, own settings are kept",
                   bad=why or "")
    # the spill directory exists before the first component connects, whatever the composition-wide limit is: single slots
    # carry their own limits and take only the location from the composition
    why = None
    for lim_name, lim in (("a positive limit", Sym("LIMIT")), ("limit 0 (spill everything)", 0), ("no composition-wide limit", None)):
        try:
            it2, outcome2 = _drive(repo, {"A": dict(step=2, connect_calls=1)}, memory_slots=True,
                                   ctor={"slot_memory_limit": lim, "slot_memory_location": Sym("LOCATION")})
        except (AnalysisError, Undecided) as exc:
            sink.unknown("R25", "spill-directory-created", conn, f"outside vocabulary: {exc}")
            why = "unknown"
            break
        if outcome2 is not None:
            why = why or f"{lim_name}: the scripted composition ends in {outcome2}"
        elif not any(p == Sym("LOCATION") and not late for p, late in it2.dirs_made):
            why = why or (f"{lim_name}: the configured spill location is not created before the first component connects "
                          f"(directories made: {it2.dirs_made!r}); outputs and adapters with their own limit write below it, the first spill fails with FileNotFoundError")
    if why != "unknown":
        sink.check(why is None, "R25", "spill-directory-created", conn, ok="the configured spill location is created before any data is exchanged, for every composition-wide limit",
                   bad=why or "")
    adapters = sorted(sl.label for sl, _a, _b in it.slots if sl.label.startswith("adapter"))
    sink.check(sorted(it.slot_finalized) == adapters, "R25", "adapters-finalized", conn,
               ok="every adapter reachable from the components' outputs is finalized once at the end of the run",
               bad=f"adapters finalized at the end: {sorted(it.slot_finalized)}, expected each of {adapters} once")


# =========================================================================== R07 (semantic)
class _WrapInterp(FinamInterp):
    """Runs a life-cycle wrapper of Component on a component whose hook leaves a scripted status."""

    def __init__(self, repo, hook, leaves):
        super().__init__(repo)
        self.hook, self.leaves = hook, leaves
        self.hook_calls = 0
        self.out_finalized = 0

    def ext_isinstance(self, v, name, node):
        if name == "datetime":
            return isinstance(v, int) and not isinstance(v, bool)
        return super().ext_isinstance(v, name, node)

    def get_attr(self, obj, attr, node, mod):
        if isinstance(obj, Obj) and obj.label == "slots" and attr in ("items", "values", "keys"):
            return Sym("slotcall", attr, Ref(obj))
        if isinstance(obj, Obj) and obj.label == "out-stub" and attr == "finalize":
            return Sym("outfin")
        if isinstance(obj, Obj) and obj.label == "in-stub" and attr == "ping":
            return Sym("inping")
        return super().get_attr(obj, attr, node, mod)

    def set_attr(self, obj, attr, value, node):
        return super().set_attr(obj, attr, value, node)

    def iterate(self, v, node):
        if isinstance(v, Obj) and v.label == "slots":
            return [k for k, _v in v.fields.get("_slot_items", [])]
        return super().iterate(v, node)

    def call_hook(self, fv, args, kwargs, node, mod):
        if isinstance(fv, Sym) and fv.op == "slotcall":
            items = fv.args[1].obj.fields.get("_slot_items", [])
            return {"items": list(items), "values": [v for _k, v in items], "keys": [k for k, _v in items]}[fv.args[0]]
        if isinstance(fv, Sym) and fv.op == "outfin":
            self.out_finalized += 1
            return None
        if isinstance(fv, Sym) and fv.op == "inping":
            return None
        if isinstance(fv, Closure) and fv.self_obj is not None and getattr(fv.func, "name", "") == self.hook:
            self.hook_calls += 1
            if self.leaves is not None:
                self.store_attr(fv.self_obj, "status", _st(self.leaves), node)
            return None
        return super().call_hook(fv, args, kwargs, node, mod)


def r07w_wrappers(repo, sink):
    """Decision table of the @final life-cycle wrappers of Component: the hook runs exactly once;
    afterwards the status is the phase's default unless the hook reported FAILED (every phase)
    or FINISHED (update) - those are kept."""
    from ..absbase import seed_from_init
    ccls = repo.cls("TimeComponent") if repo.has_cls("TimeComponent") else repo.cls("Component")
    table = {"initialize": ("CREATED", "INITIALIZED"), "validate": ("CONNECTED", "VALIDATED"), "update": ("VALIDATED", "UPDATED"),
             "finalize": ("UPDATED", "FINALIZED")}
    for phase, (before, default) in table.items():
        f = repo.resolve(ccls, phase, "method")
        if f is None:
            sink.unknown("R07", f"wrapper:{phase}", None, f"Component.{phase} not found")
            continue
        worst = None
        leaves = [None, "FAILED"] + (["FINISHED"] if phase == "update" else [])
        try:
            for lv in leaves:
                it = _WrapInterp(repo, "_" + phase, lv)
                me = Obj(cls=ccls, label="component")
                seed_from_init(it, ccls, me, {})
                slots_in, slots_out = Obj(label="slots"), Obj(label="slots")
                slots_out.fields["_slot_items"] = [("o", Obj(label="out-stub"))]
                me.fields.update(logger=Logger(label="logger"), name="c", _name="c", time=0)
                it.store_attr(me, "status", _st(before), None)
                # the slot collections, under whatever attribute the class keeps them
                for k in [k for k, v in me.fields.items() if isinstance(v, Obj) and getattr(v.cls, "name", "") in ("IOManager",)]:
                    del me.fields[k]
                me.fields["inputs"], me.fields["outputs"] = slots_in, slots_out
                try:
                    it.run(f, [], self_obj=me)
                except Raised as r:
                    worst = worst or f"hook leaves {lv or 'the status alone'}: {phase}() raises {r.name}"
                    continue
                g = repo.resolve(ccls, "status", "getter")
                got = it.run(g, [], self_obj=me) if g is not None else me.fields.get("status")
                want = _st(lv) if lv else _st(default)
                if it.hook_calls != 1:
                    worst = worst or f"{phase}() calls _{phase}() {it.hook_calls} times"
                elif got != want:
                    worst = worst or (f"_{phase}() {'leaves the status alone' if lv is None else 'reports ' + lv}: afterwards the status is "
                                      f"{got.args[1] if isinstance(got, Sym) else got!r}, must be {want.args[1]}"
                                      + (": a component that finished itself is updated again" if lv == "FINISHED" else ""))
                elif phase == "finalize" and it.out_finalized != 1:
                    worst = worst or f"finalize() finalizes its outputs {it.out_finalized} times"
        except (AnalysisError, Undecided) as exc:
            sink.unknown("R07", f"wrapper:{phase}", f, f"{phase}() outside vocabulary: {exc}")
            continue
        sink.check(worst is None, "R07", f"wrapper:{phase}", f,
                   ok=f"{phase}(): hook once; status {default} afterwards unless the hook reported FAILED" + (" / FINISHED" if phase == "update" else ""),
                   bad=worst or "")


def r07w_connect(repo, sink):
    """connect(): the first call (status INITIALIZED) pings the inputs and does not run the hook;
    every later call runs the hook exactly once with the start time."""
    from ..absbase import seed_from_init
    ccls = repo.cls("TimeComponent") if repo.has_cls("TimeComponent") else repo.cls("Component")
    f = repo.resolve(ccls, "connect", "method")
    worst = None
    try:
        for before, want_hook, want_status in (("INITIALIZED", 0, "CONNECTING"), ("CONNECTING", 1, "CONNECTING"), ("CONNECTING_IDLE", 1, "CONNECTING_IDLE")):
            it = _WrapInterp(repo, "_connect", None)
            pings = []

            class _P(_WrapInterp):
                def call_hook(self, fv, args, kwargs, node, mod):
                    if isinstance(fv, Sym) and fv.op == "inping":
                        pings.append(1)
                        return None
                    return super().call_hook(fv, args, kwargs, node, mod)

            it = _P(repo, "_connect", None)
            me = Obj(cls=ccls, label="component")
            seed_from_init(it, ccls, me, {})
            slots_in, slots_out = Obj(label="slots"), Obj(label="slots")
            slots_in.fields["_slot_items"] = [("i", Obj(label="in-stub")), ("j", Obj(label="in-stub"))]
            me.fields.update(logger=Logger(label="logger"), name="c", _name="c", time=0, inputs=slots_in, outputs=slots_out)
            it.store_attr(me, "status", _st(before), None)
            try:
                it.run(f, [0], self_obj=me)
            except Raised as r:
                worst = worst or f"status {before}: connect() raises {r.name}"
                continue
            g = repo.resolve(ccls, "status", "getter")
            got = it.run(g, [], self_obj=me)
            if it.hook_calls != want_hook:
                worst = worst or f"status {before}: connect() runs _connect() {it.hook_calls} times, expected {want_hook}"
            elif before == "INITIALIZED" and len(pings) != 2:
                worst = worst or f"the first connect() pings {len(pings)} of 2 inputs"
            elif before != "INITIALIZED" and pings:
                worst = worst or f"status {before}: connect() pings the inputs again"
            elif got != _st(want_status):
                worst = worst or f"status {before}: after connect() the status is {got!r}, expected {want_status}"
    except (AnalysisError, Undecided) as exc:
        sink.unknown("R07", "wrapper:connect", f, f"connect() outside vocabulary: {exc}")
        return
    sink.check(worst is None, "R07", "wrapper:connect", f, ok="connect(): ping phase on the first call, the hook once on every later call, never both",
               bad=worst or "")


def r07t_finishing(repo, sink):
    """A component that declares itself FINISHED in an update (before the end time) is accepted,
    never updated again, does not stop the others, and is finalized like everybody else."""
    comp_cls = repo.cls("Composition")
    run = repo.resolve(comp_cls, "run", "method")
    for name, script, end in (("one-of-two", {"A": dict(step=1, connect_calls=1, finish_at=2), "B": dict(step=2, connect_calls=1)}, 8),
                              ("the-only-one", {"A": dict(step=2, connect_calls=1, finish_at=4)}, 9),
                              ("never-updated-bystander", {"A": dict(step=1, connect_calls=1), "B": dict(step=1, connect_calls=1, _t0=50)}, 5)):
        try:
            it, outcome = _drive(repo, script, end=end)
        except (AnalysisError, Undecided) as exc:
            sink.unknown("R07", f"finishing:{name}", run, f"outside vocabulary: {exc}")
            continue
        why = None
        if outcome is not None:
            why = f"the run ends in {outcome}"
        else:
            for n, sc in script.items():
                seq = [p for c, p in it.trace if c == n]
                if sc.get("finish_at") is not None:
                    need = -(-sc["finish_at"] // sc["step"])
                    if seq.count("update") != need:
                        why = why or f"{n} finishes itself after {need} updates but is updated {seq.count('update')} times"
                if seq.count("finalize") != 1:
                    why = why or f"{n} is finalized {seq.count('finalize')} times"
            others = [n for n, sc in script.items() if sc.get("finish_at") is None and not sc.get("_t0")]
            for n in others:
                ups = [p for c, p in it.trace if c == n].count("update")
                if ups * script[n]["step"] < end:
                    why = why or f"{n} stops at time {ups * script[n]['step']} before the end time {end} after another component finished"
        sink.check(why is None, "R07", f"finishing:{name}", run,
                   ok="a self-declared FINISHED (or never updated) component is accepted, not updated again and finalized once; the others run to the end",
                   bad=f"scenario {name}: {why}")
