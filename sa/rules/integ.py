"""Time-integration rules: R29 INTEG (exact integral of the interpolant, eviction with the
old interval start, interval bookkeeping) and R28 DIM (time exponent of the result),
by decision-table extraction over order types of (previous pull, request, buffer times,
step position)."""
from __future__ import annotations

import ast
import itertools
from fractions import Fraction

from ..absbase import FinamInterp, Logger, Order, poly_of
from ..astq import U, fn_walk
from ..interp import Closure, Obj, Raised, Sym, Undecided
from ..loader import AnalysisError
from ..poly import NotPolynomial, Poly
from .buffer import PREV as PREV_KEY, BufInterp, P, Q, T, V, _adapter_obj, _expected_remaining, _fresh, prev_attr

PREV = Sym("p")
STEP = Sym("step")
UNIT_S = Sym("unit_s")
INIT_IV = Sym("initial_interval")


SEC = Sym("seconds_per_time_unit")


def secs(x):
    """timedelta.total_seconds() is linear in the duration."""
    return Sym("mul", x, SEC)


class IntegInterp(BufInterp):
    def decide(self, cond, node):
        # truthiness of the step position: a float, falsy exactly when it equals 0.0
        if cond == STEP and "step" in self.order.rank and "zero" in self.order.rank:
            return self.order.rank["step"] != self.order.rank["zero"]
        return super().decide(cond, node)

    def get_attr(self, obj, attr, node, mod):
        if attr == "total_seconds" and isinstance(obj, Sym):
            return Sym("secs_of", obj)
        if attr in ("days", "seconds", "microseconds") and isinstance(obj, Sym):
            # the three fields of a timedelta: total_seconds() = 86400 days + seconds + microseconds / 10^6
            return Sym("tdpart", obj, attr)
        if attr == "to_reduced_units" and isinstance(obj, (Sym,)):
            return Sym("reduce_of", obj)
        if attr == "dtype" and isinstance(obj, Sym):
            return Sym("dtype", obj)
        if attr in ("astype", "round") and isinstance(obj, Sym):
            return Sym("cast_of", obj, attr)
        return super().get_attr(obj, attr, node, mod)

    def call_hook(self, fv, args, kwargs, node, mod):
        if isinstance(fv, Sym) and fv.op == "secs_of":
            return secs(fv.args[0])
        if isinstance(fv, Sym) and fv.op == "reduce_of":
            return fv.args[0]
        if isinstance(fv, Sym) and fv.op == "cast_of":
            return Sym(fv.args[1], fv.args[0], *args)  # a cast / rounding changes the numbers: another term than the integral
        return super().call_hook(fv, args, kwargs, node, mod)

    def ext_call(self, name, args, kwargs, node):
        if name.endswith(".Unit") and args == ["s"]:
            return UNIT_S
        return super().ext_call(name, args, kwargs, node)

    def binop(self, op, left, right, node):
        # a literal zero times DATA is not a neutral element of the sum: 0 * nan, 0 * inf and 0 * masked are nan / nan / masked, so a
        # publication that merely seeds the accumulator leaks into every window (a symbolic weight that happens to be zero is another matter)
        if isinstance(op, ast.Mult) and isinstance(node, ast.BinOp):
            for z, zn, d in ((left, node.left, right), (right, node.right, left)):
                written_zero = isinstance(zn, ast.Constant) and isinstance(zn.value, (int, float)) and not isinstance(zn.value, bool) and zn.value == 0
                if written_zero and isinstance(z, (int, float)) and z == 0 and isinstance(d, Sym) and "V(" in repr(d):
                    return Sym("zero_times", d)  # (`0.0 * data` written out: a zero "of the right shape" made from data)
        return super().binop(op, left, right, node)

    def _rank_bounds(self, v):
        """(lo, hi, exact): rank of v, or the open rank interval a midpoint 0.5 * (a + b) of two ranked terms lies in."""
        r = self.order.lookup(v) if not isinstance(v, (int, float)) or isinstance(v, bool) else self.order.lookup(v)
        if r is not None:
            return r, r, True
        if isinstance(v, Sym):
            inner = None
            if v.op == "mul" and len(v.args) == 2 and 0.5 in v.args:
                inner = v.args[0] if v.args[1] == 0.5 else v.args[1]
            elif v.op == "div" and len(v.args) == 2 and v.args[1] == 2:
                inner = v.args[0]
            if isinstance(inner, Sym) and inner.op == "add" and len(inner.args) == 2:
                ra, rb = (self.order.lookup(x) for x in inner.args)
                if ra is not None and rb is not None:
                    return (ra, ra, True) if ra == rb else (min(ra, rb), max(ra, rb), False)
        return None

    def undecided_compare(self, op, left, right, node):
        bl, br = self._rank_bounds(left), self._rank_bounds(right)
        if bl is not None and br is not None and isinstance(op, (ast.Lt, ast.LtE, ast.Gt, ast.GtE)):
            (llo, lhi, lex), (rlo, rhi, rex) = bl, br
            # left entirely below / above right (an inexact interval is open: its ends are not attained)
            below = lhi < rlo or (lhi == rlo and not (lex and rex))
            above = llo > rhi or (llo == rhi and not (lex and rex))
            if below:
                return isinstance(op, (ast.Lt, ast.LtE))
            if above:
                return isinstance(op, (ast.Gt, ast.GtE))
        return super().undecided_compare(op, left, right, node)

    def attr(self, base, attr, node, mod):
        if attr == "to_reduced_units" and base is None:
            self.on_raise(Sym("exc", "AttributeError", "NoneType has no to_reduced_units"), node)
        return super().attr(base, attr, node, mod)


def _pos_rank(pos):
    k, i = pos
    return 4 * i + (0 if k == "eq" else 2)


def _interval_positions(n):
    out = []
    for i in range(n):
        out.append(("eq", i))
        if i < n - 1:
            out.append(("in", i))
    return out


def _quot(x, i):
    return Sym("div", Sym("sub", x, T(i)), Sym("sub", T(i + 1), T(i)))


def _scenario_order(n, ppos, qpos, rp, rq, rs):
    """Order oracle: buffer times, previous pull p, request q, and for every interval the
    normalised positions of p and q (quotients) relative to 0, 1 and the step."""
    o = Order()
    for i in range(n):
        o.name(T(i), f"T{i}", 4 * i)
    o.name(PREV, "p", _pos_rank(ppos))
    o.name(Q, "q", _pos_rank(qpos) + (1 if ppos == qpos else 0))
    o.name(0, "zero", 0)
    o.name(1, "one", 60)
    for x, pos, inner in ((PREV, ppos, rp), (Q, qpos, rq)):
        xr = _pos_rank(pos) + (1 if (x is Q and ppos == qpos) else 0)
        for i in range(n - 1):
            lo, hi = 4 * i, 4 * (i + 1)
            if xr < lo:
                r = -10
            elif xr == lo:
                r = 0
            elif xr < hi:
                r = inner
            elif xr == hi:
                r = 60
            else:
                r = 70
            o.name(_quot(x, i), f"quot_{x!r}_{i}", r)
    if rs is not None:
        o.name(STEP, "step", rs)
    # durations
    o.name(secs(Sym("sub", Q, PREV)), "dur", 1)
    return o


def _expected(kind, n, ppos, qpos, rp, rq, rs, per_time):
    """Exact integral of the interpolant over [p, q] in the atoms used by the code."""
    pr = _pos_rank(ppos)
    qr = _pos_rank(qpos) + (1 if ppos == qpos else 0)
    if n == 1 or qr <= 0:
        if kind == "Sum" and per_time:
            return Sym("mul", V(0), Sym("mul", secs(INIT_IV), UNIT_S))
        return V(0)
    total = None
    for i in range(n - 1):
        lo, hi = 4 * i, 4 * (i + 1)
        if pr >= hi or qr <= lo:
            continue
        a, ar = (0, 0) if pr <= lo else (_quot(PREV, i), rp)
        b, br = (1, 60) if qr >= hi else (_quot(Q, i), rq)
        vo, vn = V(i), V(i + 1)
        if rs is None:
            mid = Sym("div", Sym("add", a, b), 2)
            val = Sym("mul", Sym("sub", b, a), Sym("add", vo, Sym("mul", mid, Sym("sub", vn, vo))))
        else:
            def mn(x, xr, y, yr):
                return (x, xr) if xr <= yr else (y, yr)

            def mx(x, xr, y, yr):
                return (x, xr) if xr >= yr else (y, yr)

            sb, sbr = mn(STEP, rs, b, br)
            sa, sar = mn(a, ar, STEP, rs)
            l_old = Sym("sub", sb, sa) if sbr > sar else 0
            s2, s2r = mx(STEP, rs, a, ar)
            b2, b2r = mx(STEP, rs, b, br)
            l_new = Sym("sub", b2, s2) if b2r > s2r else 0
            val = Sym("add", Sym("mul", l_old, vo), Sym("mul", l_new, vn))
        if kind == "Avg" or per_time:
            val = Sym("mul", val, Sym("mul", secs(Sym("sub", T(i + 1), T(i))), UNIT_S))
        total = val if total is None else Sym("add", total, val)
    if kind == "Avg":
        total = Sym("div", total, Sym("mul", secs(Sym("sub", Q, PREV)), UNIT_S))
    return total


def _canon(v, order, reps):
    """Replace normalised positions (quotients, step) by one representative per rank class:
    under the scenario's order type terms of equal rank denote the same number."""
    if isinstance(v, Sym):
        if v.op == "div" or v == STEP:
            n = order.name_of(v)
            if n is not None and (n.startswith("quot_") or n == "step"):
                return reps[order.rank[n]]
        if v.op in ("add", "sub", "mul", "div", "neg"):
            return Sym(v.op, *[_canon(a, order, reps) for a in v.args])
    return v


def _reps(order):
    reps = {}
    terms = {}
    for (i, qx) in [(i, x) for i in range(8) for x in (PREV, Q)]:
        terms[f"quot_{qx!r}_{i}"] = _quot(qx, i)
    terms["step"] = STEP
    for _e, n in order.entries:
        if n.startswith("quot_") or n == "step":
            r = order.rank[n]
            if r == 0:
                reps[r] = 0
            elif r == 60:
                reps[r] = 1
            else:
                cur = reps.get(r)
                cand = terms[n]
                if cur is None or (isinstance(cur, Sym) and repr(cand) < repr(cur)):
                    reps[r] = cand
    return reps


def _td_terms(v, acc):
    if isinstance(v, Sym):
        if v.op == "tdpart":
            acc.add(v.args[0])
        for x in v.args:
            _td_terms(x, acc)
    elif isinstance(v, (tuple, list)):
        for x in v:
            _td_terms(x, acc)
    return acc


def _td_rewrite(v, ds):
    """Durations whose timedelta fields are read somewhere: their total seconds are spelled out as the sum of the three fields,
    so a sum that leaves one out (the microseconds, the days) is a different number."""
    if isinstance(v, Sym):
        if v.op == "mul" and len(v.args) == 2 and SEC in v.args:
            d = v.args[0] if v.args[1] == SEC else v.args[1]
            if d in ds:
                return Sym("add", Sym("add", Sym("mul", 86400, Sym("tdpart", d, "days")), Sym("tdpart", d, "seconds")),
                           Sym("div", Sym("tdpart", d, "microseconds"), 1000000))
        return Sym(v.op, *[_td_rewrite(x, ds) for x in v.args])
    if isinstance(v, tuple):
        return tuple(_td_rewrite(x, ds) for x in v)
    if isinstance(v, list):
        return [_td_rewrite(x, ds) for x in v]
    return v


def _eq(a, b, order=None):
    from ..absbase import same_value
    if order is not None:
        reps = _reps(order)
        a, b = _canon(a, order, reps), _canon(b, order, reps)
    ds = _td_terms(b, _td_terms(a, set()))
    if ds:
        a, b = _td_rewrite(a, ds), _td_rewrite(b, ds)
    return same_value(a, b)


def r29i_initial_value(repo, sink):
    """Own rule (also part of C04: delay-resolved cycles ask for the start time again and again)."""
    # requests at (or clamped to) the first buffered time are answered with the first value however many publications have
    # arrived since: a delay adapter downstream clamps every early request to the source's start time, so the same time is
    # asked again and again while the buffer grows (delay-resolved cycles, late consumers)
    for cname, kind in (("AvgOverTime", "Avg"), ("SumOverTime", "Sum")):
        c = repo.cls(cname)
        f = repo.resolve(c, "_get_data", "method")
        worst = None
        for per_time in ((True, False) if kind == "Sum" else (True,)):
            ctor = {"step": None}
            if kind == "Sum":
                ctor.update(per_time=per_time, initial_interval=INIT_IV)
            answers = {}
            for n in (1, 2, 3):
                for prev in ("repeated",):  # (the first notification sets the previous-pull time to the first buffered time)
                    order = _scenario_order(n, ("eq", 0), ("eq", 0), 0, 0, None)
                    order.rank["q"] = order.rank["p"] = 0
                    order.rank["dur"] = 0
                    it = IntegInterp(repo, order)
                    o = _fresh(_adapter_obj(repo, cname, n, extra={PREV_KEY: PREV}, ctor=ctor))
                    try:
                        answers[(n, prev)] = ("ret", it.run(f, [Q, None], self_obj=o))
                    except Raised as r:
                        answers[(n, prev)] = ("raise", r.name)
                    except Undecided as u:
                        raise AnalysisError(f"{cname}._get_data at the first buffered time: undecidable {u}") from u
            ref = answers[(1, "repeated")]
            for (n, prev), got in sorted(answers.items()):
                if got[0] == "raise" or (ref[0] == "ret" and not _eq(got[1], ref[1], order)):
                    worst = worst or (f"{n} buffered publication(s), {prev.replace('-', ' ')} at the first buffered time"
                                      f"{' (per time)' if kind == 'Sum' and per_time else ''}: "
                                      + (f"raises {got[1]}" if got[0] == "raise" else f"returns {_short(got[1])}")
                                      + f", with a single buffered publication the answer is {_short(ref[1]) if ref[0] == 'ret' else ref}")
        sink.check(worst is None, "R29", f"initial-value:{cname}", f, ok="a request at the first buffered time gets the first value, however long the buffer is", bad=worst or "")


def r29_integ(repo, sink, tier="quick"):
    nmax = 3 if tier == "quick" else 4
    inner = [10, 20, 30, 40, 50]
    total = 0
    for cname, kind in (("AvgOverTime", "Avg"), ("SumOverTime", "Sum")):
        if not repo.has_cls(cname):
            raise AnalysisError(f"{cname} not found")
        c = repo.cls(cname)
        f = repo.resolve(c, "_get_data", "method")
        for step_mode in ("linear", "step"):
            for per_time in ((True, False) if kind == "Sum" else (True,)):
                worst, cases = None, 0
                for n in range(1, nmax + 1):
                    for ppos in _interval_positions(n):
                        for qpos in _interval_positions(n):
                            if _pos_rank(qpos) < _pos_rank(ppos):
                                continue
                            same_iv = ppos == qpos
                            if same_iv and ppos[0] == "eq":
                                continue  # p == q: zero-length interval, outside the property's premise
                            combos = []
                            rps = inner if ppos[0] == "in" else [None]
                            rqs = inner if qpos[0] == "in" else [None]
                            rss = [0, 5, 10, 15, 20, 25, 30, 35, 40, 45, 50, 55, 60] if step_mode == "step" else [None]
                            if step_mode == "linear":
                                rps, rqs = rps[:1], ([inner[1]] if same_iv else rqs[:1])
                            for rp, rq, rs in itertools.product(rps, rqs, rss):
                                if same_iv and not (rp < rq):
                                    continue
                                combos.append((rp, rq, rs))
                            if tier == "quick" and step_mode == "step":
                                combos = [c3 for c3 in combos if (c3[0] in (None, 20)) and (c3[1] in (None, 40))]
                            for rp, rq, rs in combos:
                                order = _scenario_order(n, ppos, qpos, rp if rp is not None else 0, rq if rq is not None else 0, rs)
                                it = IntegInterp(repo, order)
                                extra = {PREV_KEY: PREV}
                                ctor = {"step": STEP if step_mode == "step" else None}
                                if kind == "Sum":
                                    ctor.update(per_time=per_time, initial_interval=INIT_IV)
                                o = _fresh(_adapter_obj(repo, cname, n, extra=extra, ctor=ctor))
                                cases += 1
                                exp = _expected(kind, n, ppos, qpos, rp or 0, rq or 0, rs, per_time)
                                where = _txt(n, ppos, qpos, rs)

                                def judge(got, obj):
                                    if not _eq(got, exp, order):
                                        return (f"{where}: returns {_short(got)}, the exact "
                                                f"{'average' if kind == 'Avg' else 'integral'} of the interpolant is {_short(exp)}")
                                    if obj.fields[prev_attr(repo)] != Q:
                                        return f"{where}: the remembered previous-pull time is {obj.fields[prev_attr(repo)]!r} after the pull, must be the request time"
                                    keep = _expected_remaining(n, _pos_rank(ppos))
                                    kept = [d[1].args[0] for d in obj.fields["data"]]
                                    if kept != keep:
                                        return (f"{where}: buffer keeps entries {kept}, the next integral from the "
                                                f"request onwards needs {keep} (eviction must use the old interval start)")
                                    return None

                                try:
                                    got = it.run(f, [Q, None], self_obj=o)
                                    why = judge(got, o)
                                except Raised as r:
                                    why = f"{where}: raises {r.name} ({r.exc!r})"
                                except Undecided as u:
                                    # a comparison the order type cannot decide: explore both outcomes; it is a
                                    # violation only if the result is wrong whichever way the comparison goes
                                    it2 = IntegInterp(repo, order)
                                    objs = []

                                    def thunk():
                                        ob = _fresh(_adapter_obj(repo, cname, n, extra=extra, ctor=ctor))
                                        objs.append(ob)
                                        return (it2.run(f, [Q, None], self_obj=ob), ob)

                                    paths = it2.run_all(thunk)
                                    whys = []
                                    for _d, (k2, v2) in paths:
                                        whys.append(f"{where}: raises {v2.name}" if k2 == "raise" else judge(v2[0], v2[1]))
                                    if all(whys):
                                        why = whys[0] + f" (also on the other outcome of the undecided test {u})"
                                    else:
                                        raise AnalysisError(f"{cname}._interpolate: undecidable condition {u} ({where})") from u
                                if why:
                                    worst = worst or why
                total += cases
                sink.check(worst is None, "R29", f"integral:{cname}:{step_mode}:{'per_time' if per_time else 'absolute'}", f,
                           ok=f"{cases} order types: result is the exact integral of the interpolant over [previous pull, request]"
                              + (" divided by its length" if kind == "Avg" else ""),
                           bad=worst or "", cases=cases)
    sink.note("R29.order_types", total)
    sink.floor("R29", "order types", total, 200)
    # zero-length average is refused
    f = repo.resolve(repo.cls("AvgOverTime"), "_get_data", "method")
    order = _scenario_order(2, ("in", 0), ("in", 0), 20, 20, None)
    order.rank["q"] = order.rank["p"]
    order.rank["dur"] = 0
    order.name(0, "zero-duration", 0)
    it = IntegInterp(repo, order)
    o = _fresh(_adapter_obj(repo, "AvgOverTime", 2, extra={PREV_KEY: PREV}, ctor={"step": None}))
    try:
        it.run(f, [Q, None], self_obj=o)
        sink.bad("R29", "avg-zero-length", f, "average over a zero-length interval does not raise")
    except Raised as r:
        sink.check(r.name == "FinamTimeError", "R29", "avg-zero-length", f, ok="zero-length average raises FinamTimeError", bad=f"raises {r.name}")
    except (Undecided, AnalysisError) as exc:
        sink.unknown("R29", "avg-zero-length", f, str(exc))


def _txt(n, ppos, qpos, rs):
    def one(p):
        return f"at entry {p[1]}" if p[0] == "eq" else f"inside ({p[1]},{p[1] + 1})"
    s = f"{n} entries, previous pull {one(ppos)}, request {one(qpos)}"
    if rs is not None:
        s += f", step rank {rs}"
    return s


def _short(v):
    from ..rat import to_rat
    try:
        return repr(to_rat(v))[:220]
    except Exception:  # pylint: disable=broad-except
        return repr(v)[:220]


# =========================================================================== R28
def r28_dim(repo, sink):
    """Time exponent of what _interpolate returns vs what _get_info declares."""
    if not repo.has_cls("SumOverTime"):
        raise AnalysisError("SumOverTime not found")
    c = repo.cls("SumOverTime")
    gi = repo.resolve(c, "_get_info", "method")
    # declared: units *= Unit('s') iff per_time
    declared = {}
    for per_time in (True, False):
        it = _InfoInterp(repo)
        me = Obj(cls=c, label="SumOverTime")
        from ..absbase import FinamInterp as _FI, seed_from_init
        seed_from_init(_FI(repo), c, me, {"per_time": per_time})
        me.fields.update(logger=Logger(label="logger"))
        try:
            out = it.run(gi, [Obj(label="req", fields={"units": Sym("u_req")})], self_obj=me)
        except (Raised, Undecided, AnalysisError) as exc:
            sink.unknown("R28", f"declared:{per_time}", gi, f"_get_info not in vocabulary: {exc}")
            return
        u = out.fields.get("units") if isinstance(out, Obj) else None
        declared[per_time] = _time_exp(u)
        sink.check(declared[per_time] == (1 if per_time else 0), "R28", f"declared-units:per_time={per_time}", gi,
                   ok=f"output units = input units x s^{declared[per_time]}",
                   bad=f"_get_info declares input units x s^{declared[per_time]} for per_time={per_time}")
        req = it.requested
        sink.check(req is not None and (req.fields.get("units") is None) == per_time, "R28", f"requested-units:per_time={per_time}", gi,
                   ok="units are requested upstream only when they pass through unchanged",
                   bad="per_time adapter forwards the consumer's (time-integrated) units upstream as a requirement")
    # delivered: every product with secs x unit_s raises the exponent by one (checked by R29's expected forms);
    # here: the single-entry branch uses initial_interval iff per_time
    f = repo.resolve(c, "_interpolate", "method")
    for per_time in (True, False):
        order = _scenario_order(1, ("eq", 0), ("eq", 0), 0, 0, None)
        it = IntegInterp(repo, order)
        o = _fresh(_adapter_obj(repo, "SumOverTime", 1, extra={PREV_KEY: PREV}, ctor={"step": STEP, "per_time": per_time, "initial_interval": INIT_IV}))
        got = it.run(f, [Q], self_obj=o)
        e = _time_exp(got)
        sink.check(e == (1 if per_time else 0), "R28", f"initial-branch:per_time={per_time}", f,
                   ok=f"initial value carries time exponent {e}", bad=f"initial value carries time exponent {e}, declared {1 if per_time else 0}")


def _time_exp(v):
    """Exponent of unit_s in a symbolic rational expression (None if not homogeneous)."""
    from ..rat import to_rat
    try:
        r = to_rat(v)
    except Exception:  # pylint: disable=broad-except
        return None

    def exp(p):
        exps = {sum(pw for a, pw in mon if a == repr(UNIT_S)) for mon in p.terms}
        return exps.pop() if len(exps) == 1 else None

    a, b = exp(r.num), exp(r.den)
    return None if a is None or b is None else a - b


class _InfoInterp(IntegInterp):
    def __init__(self, repo):
        super().__init__(repo, Order())
        self.requested = None

    def get_attr(self, obj, attr, node, mod):
        if isinstance(obj, Obj) and obj.label in ("req", "delivered", "copy") and attr == "copy_with":
            return Sym("copy_with", _R(obj))
        if isinstance(obj, Obj) and obj.label in ("req", "delivered", "copy") and attr in obj.fields:
            return obj.fields[attr]
        if isinstance(obj, Sym) and attr == "units":
            return obj
        if isinstance(obj, Sym) and attr in ("to_reduced_units",):
            return Sym("reduce_of", obj)
        return super().get_attr(obj, attr, node, mod)

    def call_hook(self, fv, args, kwargs, node, mod):
        if isinstance(fv, Sym) and fv.op == "copy_with":
            src = fv.args[0].obj
            n = Obj(label="copy", fields=dict(src.fields))
            n.fields.update(kwargs)
            return n
        if isinstance(fv, Closure) and getattr(fv.func, "name", "") == "exchange_info":
            self.requested = args[0]
            return Obj(label="delivered", fields={"units": Sym("u_in")})
        return super().call_hook(fv, args, kwargs, node, mod)


class _R:
    def __init__(self, obj):
        self.obj = obj

    def __hash__(self):
        return id(self.obj)

    def __eq__(self, o):
        return isinstance(o, _R) and o.obj is self.obj
