"""R16x - metadata exchange plumbing, decided by abstract runs of the real bodies of
Output.get_info, Input.exchange_info, Adapter.get_info / exchange_info and
TimeDelayAdapter.get_info over scripted infos (no text matching).

Abstract domain: an info is an object with the fields grid / time / mask / meta whose values
are either None or named symbols; `accepts` answers from a script and records who asked whom in
which direction; `copy_with` has its documented meaning (R15c decides the real one)."""
from __future__ import annotations

import ast
import itertools

from ..absbase import FinamInterp, Logger, Ref
from ..interp import Closure, Obj, Raised, Sym, Undecided
from ..loader import AnalysisError, Class


class XInfo(Obj):
    pass


def xinfo(label, grid, time, units, mask=None, extra=None):
    o = XInfo(label=label)
    meta = {"units": units}
    meta.update(extra or {})
    o.fields.update(grid=grid, time=time, mask=mask, meta=meta)
    return o


def _snapshot(i):
    return (i.fields["grid"], i.fields["time"], i.fields["mask"], tuple(sorted(i.fields["meta"].items(), key=lambda kv: kv[0])))


class ExchMixin:
    """Vocabulary of the metadata exchange; mixed into the interpreters of rules that need an
    input / adapter whose info and grid transform were set up by the real exchange code."""

    accepts_script = True
    delivered = None
    get_info_result = None
    same_grid = False

    def _exch_state(self):
        if not hasattr(self, "accept_calls"):
            self.accept_calls = []  # (receiver, incoming, downstream flag)
            self.requests = []  # infos sent to the source

    # symbols standing for grids / times are plain truthy values
    def decide(self, cond, node):
        if isinstance(cond, Sym) and cond.op in ("G", "T", "U", "M", "transform"):
            return True
        return super().decide(cond, node)

    def get_attr(self, obj, attr, node, mod):
        if isinstance(obj, XInfo):
            if attr in ("accepts", "copy_with"):
                return Sym(attr, Ref(obj))
            if attr in obj.fields:
                return obj.fields[attr]
            if attr in obj.fields["meta"]:
                return obj.fields["meta"][attr]
            raise AnalysisError(f"info attribute .{attr} not in vocabulary")
        if isinstance(obj, Obj) and obj.label == "source" and attr == "get_info":
            return Sym("source_get_info")
        if isinstance(obj, Sym) and obj.op == "G" and attr == "get_transform_to":
            return Sym("get_transform_to", obj)
        return super().get_attr(obj, attr, node, mod)

    def set_attr(self, obj, attr, value, node):
        if isinstance(obj, XInfo):
            if attr in ("grid", "time", "mask"):
                obj.fields[attr] = value
                return None
            raise AnalysisError(f"assignment to info.{attr} not in vocabulary")
        return super().set_attr(obj, attr, value, node)

    def isinstance(self, v, klass, node):
        if isinstance(klass, Class) and klass.name == "Info":
            return isinstance(v, XInfo)
        return super().isinstance(v, klass, node)

    def call_hook(self, fv, args, kwargs, node, mod):
        self._exch_state()
        if isinstance(fv, Sym) and fv.op == "accepts":
            recv = fv.args[0].obj
            acc = self.repo.method("Info", "accepts")
            names = [p for p in acc.params if p != "self"]
            bound = dict(zip(names, args))
            bound.update(kwargs)
            incoming = bound.get(names[0])
            fail = bound.get(names[1]) if len(names) > 1 else None
            down = bound.get(names[2], False) if len(names) > 2 else False
            self.accept_calls.append((recv, incoming, down))
            if not self.accepts_script and isinstance(fail, dict):
                fail["grid"] = (Sym("got"), Sym("expected"))
            return self.accepts_script
        if isinstance(fv, Sym) and fv.op == "copy_with":
            src = fv.args[0].obj
            kwargs = dict(kwargs)
            use_none = kwargs.pop("use_none", True)
            n = XInfo(label="copy")
            n.fields.update(grid=src.fields["grid"], time=src.fields["time"], mask=src.fields["mask"], meta=dict(src.fields["meta"]))
            for k, v in kwargs.items():
                if v is None and not use_none:
                    continue
                if k in ("time", "grid", "mask"):
                    n.fields[k] = v
                else:
                    n.fields["meta"][k] = v
            return n
        if isinstance(fv, Sym) and fv.op == "source_get_info":
            self.requests.append(args[0] if args else kwargs.get("info"))
            return self.delivered
        if isinstance(fv, Sym) and fv.op == "get_transform_to":
            return None if self.same_grid else Sym("transform", fv.args[0], args[0])
        if isinstance(fv, Closure) and getattr(fv.func, "name", "") == "_get_info" and self.get_info_result is not None:
            self.requests.append(args[0] if args else kwargs.get("info"))
            return self.get_info_result
        return super().call_hook(fv, args, kwargs, node, mod)


class ExchInterp(ExchMixin, FinamInterp):
    def __init__(self, repo, accepts=True, delivered=None, get_info_result=None):
        super().__init__(repo)
        self.accepts_script = accepts
        self.delivered = delivered
        self.get_info_result = get_info_result
        self._exch_state()


def linked_input(repo, it, static=False, same_grid=False, src=None):
    """An Input as the real code leaves it after construction, linking and the metadata
    exchange: constructed by the partial evaluation of its constructors, linked through its
    `source` setter, info and grid transform set by an abstract run of exchange_info.  No
    private attribute is named here.  `it` must mix in ExchMixin.  Returns (input, source stub,
    request info, delivered info)."""
    from ..absbase import seed_from_init
    icls = repo.cls("Input")
    me = Obj(cls=icls, label="Input")
    req = xinfo("req", G2, T2, U2)
    deliv = xinfo("src", G1, T1, U1, mask=Sym("M", "src"))
    seed_from_init(it, icls, me, {"name": "in", "info": req, "static": static})
    me.fields["logger"] = Logger(label="logger")
    src = src if src is not None else Obj(label="source", markers={"IOutput", "IAdapter"}, fields={"logger_name": "src", "name": "src"})
    setter = repo.resolve(icls, "source", "setter")
    if setter is None:
        raise AnalysisError("Input.source has no setter")
    it.run(setter, [src], self_obj=me)
    it.delivered, it.same_grid, it.accepts_script = deliv, same_grid, True
    it.run(repo.resolve(icls, "exchange_info", "method"), [], self_obj=me)
    return me, src, req, deliv


G1, G2 = Sym("G", "own"), Sym("G", "req")
T1, T2 = Sym("T", "own"), Sym("T", "req")
U1, U2 = Sym("U", "own"), Sym("U", "req")


def _ints(o):
    return {k: v for k, v in o.fields.items() if isinstance(v, int) and not isinstance(v, bool)}


def _run(it, f, args, self_obj, kwargs=None):
    try:
        return ("ret", it.run(f, list(args), kwargs or {}, self_obj=self_obj))
    except Raised as r:
        return ("raise", r.name)


def r16x_output_get_info(repo, sink):
    f = repo.method("Output", "get_info")
    ocls = repo.cls("Output")
    worst, cases = None, 0

    def mk(own, static):
        from ..absbase import seed_from_init
        o = Obj(cls=ocls, label="Output")
        seeder = ExchInterp(repo)
        seed_from_init(seeder, ocls, o, {"name": "out", "info": None, "static": static})
        o.fields["logger"] = Logger(label="logger")
        if own is not None:
            seeder.run(repo.resolve(ocls, "push_info", "method"), [own], self_obj=o)
        return o

    def counted(o, before):
        """How often the exchange was counted: the growth of the output's integer counters."""
        return sum(v - before.get(k, 0) for k, v in _ints(o).items() if v != before.get(k, 0))

    # no info yet
    it = ExchInterp(repo)
    got = _run(it, f, [xinfo("req", G2, T2, U2)], mk(None, False))
    cases += 1
    if got != ("raise", "FinamNoDataError"):
        worst = worst or f"without an own info get_info gives {got!r} instead of FinamNoDataError"
    # conflicting request
    own = xinfo("own", G1, T1, U1)
    before = _snapshot(own)
    o = mk(own, False)
    ints0 = _ints(o)
    it = ExchInterp(repo, accepts=False)
    got = _run(it, f, [xinfo("req", G2, T2, U2)], o)
    cases += 1
    if got != ("raise", "FinamMetaDataError"):
        worst = worst or f"a request the own info does not accept gives {got!r} instead of FinamMetaDataError"
    elif counted(o, ints0) != 0 or _snapshot(own) != before:
        worst = worst or "a rejected request is counted as exchanged / changes the own info"
    # accepted requests: unset fields are filled from the request or refused
    for og, ot, ou, rg, rt, ru, static in itertools.product((G1, None), (T1, None), (U1, None), (G2, None), (T2, None), (U2, None, "missing"), (False, True)):
        cases += 1
        own = xinfo("own", og, ot, ou)
        req = xinfo("req", rg, rt, None if ru == "missing" else ru)
        if ru == "missing":
            del req.fields["meta"]["units"]
        o = mk(own, static)
        ints0 = _ints(o)
        it = ExchInterp(repo, accepts=True)
        got = _run(it, f, [req], o)
        refuse = (og is None and rg is None) or (ot is None and rt is None and not static) or (ou is None and ru in (None, "missing"))
        desc = (f"own info (grid {'set' if og else 'unset'}, time {'set' if ot else 'unset'}, units {'set' if ou else 'unset'}), request (grid "
                f"{'set' if rg else 'unset'}, time {'set' if rt else 'unset'}, units {ru if isinstance(ru, str) else ('set' if ru else 'unset')}), "
                f"{'static' if static else 'dynamic'} output")
        if len(it.accept_calls) != 1 or it.accept_calls[0][0] is not own or it.accept_calls[0][1] is not req or it.accept_calls[0][2] is not True:
            worst = worst or (f"{desc}: compatibility must be checked once, by the output's own info on the request, as incoming from downstream; "
                              f"seen {[(a.label, getattr(b, 'label', b), c) for a, b, c in it.accept_calls]}")
            continue
        if refuse:
            if got != ("raise", "FinamMetaDataError"):
                worst = worst or f"{desc}: a field that nobody provides must be refused with FinamMetaDataError, got {got!r}"
            elif counted(o, ints0) != 0:
                worst = worst or f"{desc}: the refused exchange is counted"
            continue
        want = (og or rg, ot if ot is not None else rt, ou or ru)
        if got[0] != "ret" or got[1] is not own:
            worst = worst or f"{desc}: get_info must return the output's own (completed) info, got {got!r}"
            continue
        have = (own.fields["grid"], own.fields["time"], own.fields["meta"].get("units"))
        if have != want:
            worst = worst or f"{desc}: completed info has (grid, time, units) = {have!r}, expected {want!r} (own values kept, unset ones taken from the request)"
        elif counted(o, ints0) != 1:
            worst = worst or f"{desc}: the exchange is counted {counted(o, ints0)} times"
    sink.check(worst is None, "R15", "get_info:table", f,
               ok=f"{cases} scripted requests: no info -> FinamNoDataError; conflict -> FinamMetaDataError, nothing counted; unset fields filled from the "
                  "request or refused; own values never overwritten; counted once",
               bad=worst or "")
    sink.floor("R15", "Output.get_info scripted requests", cases, 100)


def r16x_input_exchange(repo, sink):
    f = repo.method("Input", "exchange_info")
    icls = repo.cls("Input")
    worst, cases = None, 0

    def mk(own, exchanged=False):
        from ..absbase import seed_from_init
        o = Obj(cls=icls, label="Input")
        seeder = ExchInterp(repo)
        seed_from_init(seeder, icls, o, {"name": "in", "info": own, "static": False})
        o.fields["logger"] = Logger(label="logger")
        setter = repo.resolve(icls, "source", "setter")
        seeder.run(setter, [Obj(label="source", markers={"IOutput", "IAdapter"}, fields={"logger_name": "src", "name": "src"})], self_obj=o)
        if exchanged:
            # a previous successful exchange, performed by the real code
            seeder.delivered = xinfo("src0", G1, T1, U1)
            first = xinfo("req0", G2, T2, U2)
            if own is None:
                seeder.run(f, [first], self_obj=o)
            else:
                seeder.run(f, [], self_obj=o)
        return o

    deliv = xinfo("src", G1, T1, U1, mask=Sym("M", "src"), extra={"foo": Sym("U", "foo")})
    # refusals
    for name, own, arg, exch in (("already exchanged", None, xinfo("req", G2, T2, U2), True),
                                 ("own info and request both given", xinfo("own", G2, T2, U2), xinfo("req", G2, T2, U2), False),
                                 ("neither own info nor request", None, None, False),
                                 ("request is not an Info", None, {"grid": G2}, False)):
        cases += 1
        o = mk(own, exch)
        it = ExchInterp(repo, accepts=True, delivered=deliv)
        got = _run(it, f, [arg], o)
        if got != ("raise", "FinamMetaDataError"):
            worst = worst or f"{name}: expected FinamMetaDataError, got {got!r}"
        elif it.requests:
            worst = worst or f"{name}: the source is asked although the exchange is refused"
    # source delivers something the request does not accept
    for via_own in (False, True):
        cases += 1
        req = xinfo("req", G2, T2, U2)
        o = mk(req if via_own else None)
        it = ExchInterp(repo, accepts=False, delivered=deliv)
        got = _run(it, f, [None if via_own else req], o)
        if got != ("raise", "FinamMetaDataError"):
            worst = worst or f"delivered info conflicts with the request: expected FinamMetaDataError, got {got!r}"
        else:
            it2 = ExchInterp(repo, accepts=True, delivered=deliv)
            again = _run(it2, f, [None if via_own else req], o)
            if again[0] != "ret":
                worst = worst or f"after a refused exchange a new attempt raises {again[1]}: the refused exchange is marked as done"
    # accepted
    for via_own, rg, rt, ru in itertools.product((False, True), (G2, None), (T2, None), (U2, None)):
        cases += 1
        req = xinfo("req", rg, rt, ru)
        o = mk(req if via_own else None)
        it = ExchInterp(repo, accepts=True, delivered=deliv)
        got = _run(it, f, [None if via_own else req], o)
        desc = f"request (grid {'set' if rg else 'unset'}, time {'set' if rt else 'unset'}, units {'set' if ru else 'unset'}) {'kept in the input' if via_own else 'passed in'}"
        if got[0] != "ret":
            worst = worst or f"{desc}: raises {got[1]}"
            continue
        if len(it.requests) != 1 or it.requests[0] is not req:
            worst = worst or f"{desc}: the source must be asked exactly once with the request, seen {len(it.requests)} requests"
            continue
        if len(it.accept_calls) != 1 or it.accept_calls[0][0] is not req or it.accept_calls[0][1] is not deliv or it.accept_calls[0][2] not in (False,):
            worst = worst or (f"{desc}: the request must check the delivered info once, as incoming from upstream; seen "
                              f"{[(a.label, getattr(b, 'label', b), c) for a, b, c in it.accept_calls]}")
            continue
        stored = _prop(repo, it, o, "info")
        if not isinstance(stored, XInfo):
            worst = worst or f"{desc}: no info stored"
            continue
        want = (rg or G1, rt or T1, ru or U1, deliv.fields["mask"], deliv.fields["meta"]["foo"])
        have = (stored.fields["grid"], stored.fields["time"], stored.fields["meta"].get("units"), stored.fields["mask"], stored.fields["meta"].get("foo"))
        if have != want:
            worst = worst or (f"{desc}: the input's info is (grid, time, units, mask, extra) = {have!r}, expected {want!r}: the requested values where given, "
                              "the delivered ones otherwise")
        elif stored is deliv or _snapshot(deliv) != (G1, T1, deliv.fields["mask"], (("foo", Sym("U", "foo")), ("units", U1))):
            worst = worst or f"{desc}: the source's info object is shared / modified instead of copied"
        elif _run(ExchInterp(repo, accepts=True, delivered=deliv), f, [None if via_own else req], o) != ("raise", "FinamMetaDataError"):
            worst = worst or f"{desc}: the exchange is not marked as done (a second exchange is not refused)"
        elif got[1] is not stored:
            worst = worst or f"{desc}: exchange_info returns {got[1]!r}, not the info the input holds"
        else:
            # whichever attribute holds it: exactly one transform, from the delivered grid to the input's grid
            trs = _reachable_transforms(o)
            if trs != [Sym("transform", G1, stored.fields["grid"])]:
                worst = worst or f"{desc}: the grid transform kept by the input is {trs!r}, expected one from the source grid to the input's grid"
    sink.check(worst is None, "R15", "exchange_info:table", f,
               ok=f"{cases} scripted exchanges: refusals raise FinamMetaDataError before the source is asked; the request checks the delivered info "
                  "(upstream direction); the input holds the delivered info overridden by the requested fields; transform source grid -> input grid",
               bad=worst or "")
    sink.floor("R15", "Input.exchange_info scripted exchanges", cases, 20)


def _reachable_transforms(o, depth=3):
    """The transform values the input keeps, directly or wrapped in private helper objects / containers."""
    out, seen = [], set()

    def walk(v, d):
        if isinstance(v, Sym):
            if v.op == "transform":
                out.append(v)
            return
        if d <= 0 or id(v) in seen:
            return
        seen.add(id(v))
        if isinstance(v, (list, tuple)):
            for x in v:
                walk(x, d - 1)
        elif isinstance(v, dict):
            for x in v.values():
                walk(x, d - 1)
        elif hasattr(v, "fields") and isinstance(getattr(v, "fields"), dict) and v is not o:
            for x in v.fields.values():
                walk(x, d - 1)

    for v in o.fields.values():
        walk(v, depth)
    return out


def _prop(repo, it, o, name):
    g = repo.resolve(o.cls, name, "getter")
    if g is None:
        raise AnalysisError(f"{o.cls.name}.{name} is not a property")
    return it.run(g, [], self_obj=o)


def _adapter(repo, cls, linked=False, src=None, ctor=None, it=None):
    from ..absbase import seed_from_init
    o = Obj(cls=cls, label=cls.name)
    it = it or ExchInterp(repo)
    seed_from_init(it, cls, o, ctor or {})
    o.fields.update(logger=Logger(label="logger"))
    o.fields.setdefault("name", "ad")
    if linked or src is not None:
        setter = repo.resolve(cls, "source", "setter")
        if setter is None:
            raise AnalysisError(f"{cls.name}.source has no setter")
        src = src if src is not None else Obj(label="source", markers={"IOutput", "IAdapter"}, fields={"logger_name": "src", "name": "src"})
        it.run(setter, [src], self_obj=o)
    return o


def r16x_adapter_plumbing(repo, sink):
    acls = repo.cls("Adapter")
    tcls = repo.cls("TimeDelayAdapter")
    # get_info stores and returns the result of _get_info
    for cls in (acls, tcls):
        f = repo.method(cls.name, "get_info")
        D = xinfo("delivered", G1, T1, U1)
        req = xinfo("req", G2, T2, U2)
        o = _adapter(repo, cls)
        it = ExchInterp(repo, get_info_result=D)
        got = _run(it, f, [req], o)
        why = None
        if got != ("ret", D) or got[1] is not D:
            why = f"returns {got!r} instead of the result of _get_info"
        elif _prop(repo, it, o, "info") is not D:
            why = "does not keep the result of _get_info as its output info (property `info`)"
        elif len(it.requests) != 1 or it.requests[0] is not req:
            why = "does not hand the consumer's request to _get_info exactly once"
        elif cls is tcls and o.fields.get("initial_time") != T1:
            why = f"records initial_time {o.fields.get('initial_time')!r} instead of the time of the exchanged info"
        else:
            # a second target behind the same adapter: its request is exchanged upstream as well (the source counts one
            # exchange per registered end point and publishes only when all of them are done)
            req2 = xinfo("req2", G2, T2, U2)
            got2 = _run(it, f, [req2], o)
            if len(it.requests) != 2 or it.requests[1] is not req2:
                why = (f"a second get_info (second target behind the adapter) reaches _get_info {len(it.requests) - 1} more time(s) ({got2[0]}): every "
                       "request must be exchanged upstream, otherwise the source waits forever for the second end point (false circular coupling)")
        sink.check(why is None, "R16", f"adapter-get_info:{cls.name}", f,
                   ok="get_info stores and returns the result of _get_info" + (" and takes the start time from it" if cls is tcls else ""),
                   bad=f"{cls.name}.get_info {why}")
    # exchange_info forwards the request and records what the source delivered
    f = repo.method("Adapter", "exchange_info")
    worst = None
    for name, arg in (("no request", None), ("request is not an Info", {"grid": G2})):
        o = _adapter(repo, acls, linked=True)
        it = ExchInterp(repo, delivered=xinfo("src", G1, T1, U1))
        got = _run(it, f, [arg], o)
        if got != ("raise", "FinamMetaDataError") or it.requests:
            worst = worst or f"{name}: expected FinamMetaDataError before the source is asked, got {got!r}"
    D = xinfo("src", G1, T1, U1)
    req = xinfo("req", G2, T2, U2)
    o = _adapter(repo, acls, linked=True)
    it = ExchInterp(repo, delivered=D)
    got = _run(it, f, [req], o)
    if got[0] != "ret" or got[1] is not D:
        worst = worst or f"returns {got!r} instead of what the source delivered"
    elif len(it.requests) != 1 or it.requests[0] is not req:
        worst = worst or "does not forward the request to the source exactly once"
    elif _prop(repo, it, o, "in_info") is not D:
        worst = worst or "does not record the delivered info as its input info (property `in_info`)"
    sink.check(worst is None, "R16", "adapter-exchange_info", f,
               ok="exchange_info refuses a missing / non-Info request, forwards the request upstream once, records and returns the delivered info",
               bad=f"Adapter.exchange_info: {worst}")


def run(repo, sink, fns):
    for fn in fns:
        try:
            fn(repo, sink)
        except (AnalysisError, Undecided) as exc:
            sink.unknown("R16", f"analysis:{fn.__name__}", None, f"outside the rule's vocabulary: {exc}")


def r16x_exchange(repo, sink):
    run(repo, sink, (r16x_output_get_info, r16x_input_exchange, r16x_adapter_plumbing))


def built_output(repo, cls_name="Output", ctor=None, targets=(), pinged=(), n_exchanged=None, own=None):
    """An output (or adapter seen from downstream) as the real code leaves it: constructed by partial evaluation of its
    constructors, given its info by push_info, linked by add_target, end points registered by pinged, infos exchanged by
    get_info.  No private attribute is named."""
    from ..absbase import seed_from_init
    c = repo.cls(cls_name)
    it = ExchInterp(repo)
    o = Obj(cls=c, label=cls_name)
    params = {"name": "out", "info": None, "static": False}
    params.update(ctor or {})
    seed_from_init(it, c, o, params)
    o.fields["logger"] = Logger(label="logger")
    own = own if own is not None else xinfo("own", G1, T1, U1)
    it.run(repo.resolve(c, "push_info", "method"), [own], self_obj=o)
    for t in targets:
        it.run(repo.resolve(c, "add_target", "method"), [t], self_obj=o)
    for e in pinged:
        it.run(repo.resolve(c, "pinged", "method"), [e], self_obj=o)
    for _k in range(len(pinged) if n_exchanged is None else n_exchanged):
        it.run(repo.resolve(c, "get_info", "method"), [xinfo("req", G1, T1, U1)], self_obj=o)
    return o


class _GI(ExchInterp):
    """Vocabulary of the adapters' own _get_info bodies: grid-less markers, unit arithmetic as uninterpreted terms."""

    def construct(self, cls, args, kwargs, node):
        if cls.name == "NoGrid" or self.repo.is_subclass(cls, "GridBase"):
            o = Obj(cls=cls, label=cls.name, markers={cls.name})
            o.fields.update(kwargs)
            return o
        return super().construct(cls, args, kwargs, node)

    def ext_call(self, name, args, kwargs, node):
        if name.split(".")[-1] == "Unit":
            return Sym("unit", *args)
        return super().ext_call(name, args, kwargs, node)

    def binop(self, op, left, right, node):
        if any(isinstance(x, Sym) and x.op in ("U", "unit", "uterm", "qty") for x in (left, right)):
            return Sym("uterm", type(op).__name__, left, right)
        return super().binop(op, left, right, node)

    def get_attr(self, obj, attr, node, mod):
        if isinstance(obj, Sym) and obj.op in ("uterm", "qty", "U", "unit"):
            if attr in ("to_reduced_units", "to_base_units"):
                return Sym("umethod", obj, attr)
            if attr == "units":
                return obj
        return super().get_attr(obj, attr, node, mod)

    def call_hook(self, fv, args, kwargs, node, mod):
        if isinstance(fv, Sym) and fv.op == "umethod":
            return fv.args[0]
        return super().call_hook(fv, args, kwargs, node, mod)

    def decide(self, cond, node):
        if isinstance(cond, Sym) and cond.op in ("uterm", "unit", "X"):
            return True
        return super().decide(cond, node)

    def compare(self, op, left, right, node):
        if isinstance(op, (ast.Eq, ast.NotEq)) and any(isinstance(x, Obj) and x.cls is not None and x.cls.name == "NoGrid" for x in (left, right)):
            eq = all(isinstance(x, Obj) and x.cls is not None and x.cls.name == "NoGrid" for x in (left, right))
            return eq if isinstance(op, ast.Eq) else not eq
        if isinstance(op, (ast.Eq, ast.NotEq)) and all(isinstance(x, Sym) and x.op == "G" for x in (left, right)):
            return (left == right) if isinstance(op, ast.Eq) else (left != right)
        return super().compare(op, left, right, node)


def _required_ctor(repo, c):
    """Stand-ins for the constructor parameters without default: None for an optional-by-convention grid, a symbol otherwise."""
    out = {}
    for k in repo.mro(c):
        f = k.methods.get("__init__")
        if f is None:
            continue
        a = f.node.args
        names = [x.arg for x in a.posonlyargs + a.args][1:]
        for i, n in enumerate(names):
            if i < len(names) - len(a.defaults) and n not in out:
                out[n] = None if n == "grid" else Sym("X", "ctor:" + n)
    return out


def _is_nogrid(v):
    return isinstance(v, Obj) and v.cls is not None and v.cls.name == "NoGrid"


def r16x_adapter_get_info(repo, sink):
    """Every concrete adapter's public get_info(), run abstractly against a scripted source: exactly one request reaches the
    source, it carries the consumer's time (and units or none), and what is delivered downstream carries the source's time and
    meta data - wherever in the class (or its helpers) the exchange is written."""
    ad = repo.cls("Adapter")
    n = 0
    for c in repo.subclasses(ad):
        if repo.is_abstract(c) or (repo.has_cls("ARegridding") and repo.is_subclass(c, repo.cls("ARegridding"))):
            continue  # (regridders: regrid2.r35x runs the same exchange with grids and masks in place)
        f = repo.resolve(c, "get_info", "method")
        n += 1
        why = None
        try:
            outs = []
            for tag in ("a", "b"):
                o = _adapter(repo, c, linked=True, ctor=_required_ctor(repo, c), it=_GI(repo))
                D = xinfo("src", Sym("G", "src" + tag), Sym("T", "src" + tag), Sym("U", "src" + tag), mask=Sym("M", "src"), extra={"extra": Sym("X", tag)})
                req = xinfo("req", Sym("G", "req" + tag), Sym("T", "req" + tag), Sym("U", "req" + tag))
                it = _GI(repo, delivered=D)
                got = _run(it, f, [req], o)
                outs.append((it, req, D, got))
            for it, req, D, got in outs:
                if got[0] != "ret" or not isinstance(got[1], XInfo):
                    why = f"get_info on compatible infos ends in {got!r}"
                    break
                if len(it.requests) != 1 or not isinstance(it.requests[0], XInfo):
                    why = f"{len(it.requests)} requests reach the source during one get_info (exactly one must: upstream learns the request once)"
                    break
                up, out = it.requests[0], got[1]
                if up.fields["time"] != req.fields["time"]:
                    why = f"the upstream request carries time {up.fields['time']!r}, the consumer asked with {req.fields['time']!r}: the request must derive from the consumer's info"
                elif up.fields["meta"].get("units") not in (req.fields["meta"]["units"], None):
                    why = f"the upstream request carries units {up.fields['meta'].get('units')!r}: neither the consumer's nor left open"
                elif not (up.fields["grid"] in (req.fields["grid"], None) or _is_nogrid(up.fields["grid"]) or up.fields["grid"] == o.fields.get("grid")):
                    why = f"the upstream request carries grid {up.fields['grid']!r}: neither the consumer's, nor left open, nor the adapter's own"
                elif out is req or out.fields["time"] != D.fields["time"] or out.fields["meta"].get("extra") != D.fields["meta"]["extra"]:
                    why = (f"the delivered info has time {out.fields['time']!r} / meta {out.fields['meta']!r}: it must derive from what the source "
                           f"delivered (time {D.fields['time']!r}), not from the request")
                if why:
                    break
        except (AnalysisError, Undecided) as exc:
            sink.unknown("R16", f"get_info:{c.name}", f, f"outside vocabulary: {exc}")
            continue
        sink.check(why is None, "R16", f"get_info:{c.name}", f,
                   ok="one request (consumer's time, units or none) reaches the source; the delivered info carries the source's time and meta data",
                   bad=f"{c.name}: {why}")
    sink.floor("R16", "concrete adapters (info exchange)", n, 14)
    # the two adapters between gridded and grid-less data state their requirement in the request / the delivered info
    if repo.has_cls("ValueToGrid"):
        c = repo.cls("ValueToGrid")
        f = repo.resolve(c, "get_info", "method")
        try:
            why = None
            for own, rq, want in ((None, G2, "ok"), (G1, None, "ok"), (G1, G1, "ok"), (G1, G2, "FinamMetaDataError")):
                o = _adapter(repo, c, linked=True, ctor={"grid": own})
                it = _GI(repo, delivered=xinfo("src", Obj(cls=repo.cls("NoGrid"), label="NoGrid"), T1, U1, mask=Sym("M", "src")))
                got = _run(it, f, [xinfo("req", rq, T2, U2)], o)
                up = it.requests[0] if it.requests else None
                if up is not None and not _is_nogrid(up.fields["grid"]):
                    why = why or (f"the upstream request carries grid {up.fields['grid']!r}: the adapter takes scalars, so it must ask for grid-less data "
                                  "(otherwise a gridded producer is accepted and its arrays are passed on as if they were scalars)")
                if want == "ok":
                    exp = own if own is not None else rq
                    if got[0] != "ret" or got[1].fields["grid"] != exp:
                        why = why or f"own grid {own!r}, requested {rq!r}: delivers {got!r} with grid {got[1].fields['grid'] if got[0] == 'ret' else None!r}, expected {exp!r}"
                elif got != ("raise", want):
                    why = why or f"own grid {own!r} and a different requested grid {rq!r}: get_info gives {got!r}, must raise {want}"
            sink.check(why is None, "R16", "grid-adapters:ValueToGrid", f, ok="asks upstream for grid-less data, announces its own or the requested grid, refuses a conflict", bad=why or "")
        except (AnalysisError, Undecided) as exc:
            sink.unknown("R16", "grid-adapters:ValueToGrid", f, f"outside vocabulary: {exc}")
    if repo.has_cls("GridToValue"):
        c = repo.cls("GridToValue")
        f = repo.resolve(c, "get_info", "method")
        try:
            o = _adapter(repo, c, linked=True, ctor={"func": Sym("func")})
            it = _GI(repo, delivered=xinfo("src", G1, T1, U1, mask=Sym("M", "src")))
            got = _run(it, f, [xinfo("req", Obj(cls=repo.cls("NoGrid"), label="NoGrid"), T2, U2)], o)
            up = it.requests[0] if it.requests else None
            why = None
            if up is None or up.fields["grid"] is not None:
                why = f"the upstream request carries grid {getattr(up, 'fields', {}).get('grid')!r}: any grid is acceptable upstream, the field must be left open"
            elif got[0] != "ret" or not _is_nogrid(got[1].fields["grid"]):
                why = f"delivers {got!r}: the aggregated value is grid-less"
            sink.check(why is None, "R16", "grid-adapters:GridToValue", f, ok="leaves the grid open upstream and announces grid-less data", bad=why or "")
        except (AnalysisError, Undecided) as exc:
            sink.unknown("R16", "grid-adapters:GridToValue", f, f"outside vocabulary: {exc}")
