"""Connect-helper rules by decision-table extraction over scripted peers:
R11 COMPLETE, R12 PROGRESS, R13 NODATA (failed attempts are side-effect free),
R14d DOUBLEPUSH."""
from __future__ import annotations

import ast
import itertools

from ..absbase import FinamInterp, Logger, Order, Ref
from ..astq import U, call_name, calls, fn_walk, self_attr, walk
from ..cfg import CFG
from ..interp import Closure, Obj, Raised, Sym, Undecided
from ..loader import AnalysisError, body_of

CH = "src/finam/tools/connect_helper.py"
OK, FAIL = "ok", "fail"


class Slot(Obj):
    """Scripted input / output stub."""


class _CH(FinamInterp):
    def __init__(self, repo):
        super().__init__(repo)
        self.log = []  # successful peer operations of the current call
        self.attempts = []

    def _script(self, slot, op):
        sc = slot.fields["_scripts"].get(op, [OK])
        i = slot.fields["_count"].get(op, 0)
        slot.fields["_count"][op] = i + 1
        return sc[min(i, len(sc) - 1)]

    def get_attr(self, obj, attr, node, mod):
        if isinstance(obj, Slot):
            if attr == "info" and obj.fields["_kind"] == "out":
                r = self._script(obj, "info")
                self.attempts.append((obj.label, "info", r))
                if r == FAIL:
                    self.on_raise(Sym("exc", "FinamNoDataError"), node)
                return obj.fields["_info"]
            if attr in obj.fields:
                return obj.fields[attr]
            return Sym("slotcall", Ref(obj), attr)
        if isinstance(obj, Obj) and obj.label.startswith("info") and attr in obj.fields:
            return obj.fields[attr]
        return super().get_attr(obj, attr, node, mod)

    def call_hook(self, fv, args, kwargs, node, mod):
        if isinstance(fv, Sym) and fv.op == "slotcall":
            slot, op = fv.args[0].obj, fv.args[1]
            if op == "has_info":
                return slot.fields["_has_info"]
            if op in ("exchange_info", "pull_data"):
                r = self._script(slot, op)
                self.attempts.append((slot.label, op, r, tuple(args)))
                if r == FAIL:
                    self.on_raise(Sym("exc", "FinamNoDataError"), node)
                self.log.append((slot.label, op, tuple(args)))
                if op == "exchange_info":
                    return slot.fields["_xinfo"]
                return Sym("data", slot.label)
            if op in ("push_info", "push_data"):
                self.log.append((slot.label, op, tuple(args)))
                if op == "push_info":
                    slot.fields["_has_info"] = True
                return None
            raise AnalysisError(f"stub operation {op} not scripted")
        if isinstance(fv, Sym) and fv.op == "ext" and fv.args[0] == "copy.copy":
            return dict(args[0]) if isinstance(args[0], dict) else Sym("copy", args[0])
        return super().call_hook(fv, args, kwargs, node, mod)

    def ext_call(self, name, args, kwargs, node):
        if name == "copy.copy":
            return dict(args[0]) if isinstance(args[0], dict) else Sym("copy", args[0])
        return super().ext_call(name, args, kwargs, node)


def _mk_info(label, time):
    return Obj(label=f"info:{label}", fields={"time": time, "grid": Sym("grid"), "meta": {}})


def _build(repo, it, ins, outs, pull, start, cache=True):
    """ins: {name: (has_own_info, scripts)}, outs: {name: (has_info, needs_push, static, info_time, scripts)}."""
    inputs, outputs = {}, {}
    for n, (own, sc) in ins.items():
        s = Slot(label=n)
        s.fields.update(_kind="in", _scripts=sc, _count={}, info=_mk_info(n, start) if own else None,
                        _xinfo=_mk_info("x" + n, start), name=n)
        inputs[n] = s
    for n, (has, push, static, itime, sc) in outs.items():
        s = Slot(label=n)
        s.fields.update(_kind="out", _scripts=sc, _count={}, _has_info=has, needs_push=push, is_static=static,
                        _info=_mk_info(n, itime), name=n)
        outputs[n] = s
    c = repo.cls("ConnectHelper")
    me = Obj(cls=c, label="helper")
    me.fields["logger"] = Logger(label="logger")
    init = repo.resolve(c, "__init__")
    it.run(init, ["lg", inputs, outputs], {"pull_data": list(pull), "cache": cache}, self_obj=me)
    return me, inputs, outputs


def _state(me, repo=None):
    """Bookkeeping of the helper as its public properties report it (no private attribute is named)."""
    repo = repo or me.fields.get("__repo__")
    it = FinamInterp(repo)

    def prop(name):
        g = repo.resolve(me.cls, name, "getter")
        if g is None:
            raise AnalysisError(f"ConnectHelper.{name} is not a property")
        return dict(it.run(g, [], self_obj=me))

    return {"in_infos": prop("in_infos"), "out_infos": prop("out_infos"), "pulled": prop("in_data"),
            "infos_pushed": prop("infos_pushed"), "data_pushed": prop("data_pushed")}


def _complete(st):
    return (all(v is not None for v in st["in_infos"].values()) and all(v is not None for v in st["out_infos"].values())
            and all(v is not None for v in st["pulled"].values()) and all(st["infos_pushed"].values())
            and all(st["data_pushed"].values()))


def _n_done(st):
    return (sum(v is not None for v in st["in_infos"].values()) + sum(v is not None for v in st["out_infos"].values())
            + sum(v is not None for v in st["pulled"].values()) + sum(bool(v) for v in st["infos_pushed"].values())
            + sum(bool(v) for v in st["data_pushed"].values()))


def _scenarios():
    """Finite set of peer scripts: (name, ins, outs, pull, per-call arguments)."""
    sc = []
    two = [[OK], [FAIL, OK], [FAIL, FAIL, OK]]
    # one input with its own info, pulled; exchange / pull succeed at various attempts
    for ex, pl in itertools.product(two, two):
        sc.append((f"in-own:x{len(ex)}p{len(pl)}", {"A": (True, {"exchange_info": ex, "pull_data": pl})}, {}, ["A"], {}))
    # input without own info: info handed over with the first call only (cached)
    for ex in two:
        sc.append((f"in-given:x{len(ex)}", {"A": (False, {"exchange_info": ex})}, {}, [], {"exchange_infos": {"A": "GIVEN"}}))
    # one pushing output that has info already; downstream info exchange completes late; data given first call
    for inf in two:
        sc.append((f"out-has-info:i{len(inf)}", {}, {"O": (True, True, False, "same", {"info": inf})}, [], {"push_data": {"O": "DATA"}}))
    # output without info: info pushed through the helper, data later
    for inf in two:
        sc.append((f"out-push-info:i{len(inf)}", {}, {"O": (False, True, False, "same", {"info": inf})}, [],
                   {"push_infos": {"O": "GIVEN"}, "push_data": {"O": "DATA"}}))
    # pull-based output (needs no data push), static output, output whose start differs
    sc.append(("out-pull-based", {}, {"O": (True, False, False, "same", {"info": [FAIL, OK]})}, [], {}))
    sc.append(("out-static", {}, {"O": (True, True, True, "same", {"info": [OK]})}, [], {"push_data": {"O": "DATA"}}))
    sc.append(("out-later-start", {}, {"O": (True, True, False, "later", {"info": [OK]})}, [], {"push_data": {"O": "DATA"}}))
    # two inputs + one output, interleaved
    sc.append(("mixed", {"A": (True, {"exchange_info": [FAIL, OK], "pull_data": [FAIL, FAIL, OK]}),
                         "B": (True, {"exchange_info": [OK], "pull_data": [OK]})},
               {"O": (True, True, False, "same", {"info": [FAIL, FAIL, OK]})}, ["A", "B"], {"push_data": {"O": "DATA"}}))
    # staggered: in some call exactly one kind of exchange succeeds while others are still outstanding
    slow = {"exchange_info": [OK], "pull_data": [FAIL] * 6 + [OK]}
    sc.append(("staggered-pull", {"A": (True, {"exchange_info": [OK], "pull_data": [FAIL, OK]}), "Z": (True, slow)}, {}, ["A", "Z"], {}))
    sc.append(("staggered-exchange", {"A": (True, {"exchange_info": [FAIL, OK]}), "Z": (True, slow)}, {}, ["Z"], {}))
    sc.append(("staggered-exchange-given", {"A": (False, {"exchange_info": [FAIL, OK]}), "Z": (True, slow)}, {}, ["Z"], {"exchange_infos": {"A": "GIVEN"}}))
    sc.append(("staggered-out-info", {"Z": (True, slow)}, {"O": (True, False, False, "same", {"info": [FAIL, OK]})}, ["Z"], {}))
    sc.append(("staggered-push-info", {"Z": (True, slow)}, {"O": (False, False, False, "same", {"info": [FAIL, FAIL, FAIL, OK]})}, ["Z"], {"push_infos@2": {"O": "GIVEN"}}))
    sc.append(("staggered-push-data", {"Z": (True, slow)}, {"O": (True, True, False, "same", {"info": [OK]})}, ["Z"], {"push_data@3": {"O": "DATA"}}))
    # two pushing outputs: the exchange of the first one stays outstanding for a while, the second one is ready at once
    sc.append(("two-outputs-first-pending", {}, {"O1": (True, True, False, "same", {"info": [FAIL, FAIL, FAIL, OK]}),
                                                 "O2": (True, True, False, "same", {"info": [OK]})}, [],
               {"push_data": {"O1": "DATA", "O2": "DATA"}}))
    sc.append(("two-outputs-second-pending", {}, {"O1": (True, True, False, "same", {"info": [OK]}),
                                                  "O2": (True, True, False, "same", {"info": [FAIL, FAIL, OK]})}, [],
               {"push_data": {"O1": "DATA", "O2": "DATA"}}))
    # a timed and a static output (whose exchanged info carries no time) on one component, declared in either order
    sc.append(("out-timed-then-static", {}, {"O1": (True, True, False, "same", {"info": [OK]}), "O2": (True, True, True, "none", {"info": [OK]})}, [],
               {"push_data": {"O1": "DATA", "O2": "DATA"}}))
    sc.append(("out-static-then-timed", {}, {"O1": (True, True, True, "none", {"info": [OK]}), "O2": (True, True, False, "same", {"info": [OK]})}, [],
               {"push_data": {"O1": "DATA", "O2": "DATA"}}))
    # a component that offers infos / data in EVERY call (the pattern of CsvReader and of the documentation) while the exchange
    # with the targets stays outstanding for a while
    sc.append(("out-push-info-every-call", {}, {"O": (False, True, False, "same", {"info": [FAIL, FAIL, FAIL, OK]})}, [],
               {"push_infos@*": {"O": "GIVEN"}, "push_data@*": {"O": "DATA"}}))
    sc.append(("in-given-every-call", {"A": (False, {"exchange_info": [FAIL, FAIL, OK]})}, {}, [], {"exchange_infos@*": {"A": "GIVEN"}}))
    # a producer that starts later than the composition, with a timed output and a static one whose exchanged info carries a
    # time all the same (Output.get_info fills unset fields - also the time - from the consumer): static slots take no part in
    # the comparison of starting times
    sc.append(("out-static-with-consumer-time-then-later-start", {}, {"O1": (True, True, True, "same", {"info": [OK]}), "O2": (True, True, False, "later", {"info": [OK]})}, [],
               {"push_data": {"O1": "DATA", "O2": "DATA"}}))
    sc.append(("out-later-start-then-static-with-consumer-time", {}, {"O1": (True, True, False, "later", {"info": [OK]}), "O2": (True, True, True, "same", {"info": [OK]})}, [],
               {"push_data": {"O1": "DATA", "O2": "DATA"}}))
    # the documented pattern "offer what `*_required` asks for", with and without caching, against peers that answer late
    for cache in (True, False):
        sc.append((f"in-given-when-required:cache={cache}", {"A": (False, {"exchange_info": [FAIL, FAIL, OK]})}, {}, [],
                   {"exchange_infos@required": {"A": "GIVEN"}}, {"cache": cache}))
        sc.append((f"out-offered-when-required:cache={cache}", {}, {"O": (False, True, False, "same", {"info": [FAIL, FAIL, OK]})}, [],
                   {"push_infos@required": {"O": "GIVEN"}, "push_data@required": {"O": "DATA"}}, {"cache": cache}))
    # never completing peer
    sc.append(("stuck", {"A": (True, {"exchange_info": [FAIL]})}, {}, ["A"], {}))
    # data for the output arrives only in a later call
    sc.append(("late-data", {}, {"O": (True, True, False, "same", {"info": [OK]})}, [], {"push_data@2": {"O": "DATA"}}))
    return sc


def r11_r12_connect(repo, sink):
    c = repo.cls("ConnectHelper")
    f = repo.resolve(c, "connect", "method")
    start, later = Sym("t0"), Sym("t1")
    n_calls = 0
    for name, ins, outs, pull, args, *opts in _scenarios():
        opts = opts[0] if opts else {}
        it = _CH(repo)
        it.order.name(start, "t0", 0)
        it.order.name(later, "t1", 1)
        outs2 = {n: (h, p, s, start if t == "same" else None if t == "none" else later, sc) for n, (h, p, s, t, sc) in outs.items()}
        try:
            me, inputs, outputs = _build(repo, it, ins, outs2, pull, start, cache=opts.get("cache", True))
        except (Raised, Undecided) as exc:
            sink.unknown("R11", f"connect:{name}", f, f"ConnectHelper.__init__ not in vocabulary: {exc}")
            continue
        why = None
        status = None
        for k in range(1, 10):
            kw = {}
            for key, val in args.items():
                base, _, at = key.partition("@")
                if at == "required":
                    # the documented pattern: offer what the helper's public `*_required` property asks for
                    prop = {"exchange_infos": "in_infos_required", "push_infos": "out_infos_required", "push_data": "data_required"}[base]
                    g = repo.resolve(me.cls, prop, "getter")
                    need = FinamInterp(repo).run(g, [], self_obj=me) if g is not None else {}
                    kw[base] = {n: (_mk_info("given", start) if v == "GIVEN" else Sym("payload", n)) for n, v in val.items() if need.get(n)}
                    continue
                if at == "*" or (at and int(at) == k) or (not at and k == 1):
                    kw[base] = {n: (_mk_info("given", start) if v == "GIVEN" else Sym("payload", n)) for n, v in val.items()}
            before = _state(me, repo)
            it.log, it.attempts = [], []
            try:
                status = it.run(f, [start], kw, self_obj=me)
            except Raised as r:
                why = f"call {k}: raises {r.name} ({r.exc!r})"
                break
            except Undecided as u:
                raise AnalysisError(f"ConnectHelper.connect: undecidable {u}") from u
            n_calls += 1
            after = _state(me, repo)
            st = status.args[1] if isinstance(status, Sym) and status.op == "enum" else repr(status)
            complete = _complete(after)
            progressed = _n_done(after) > _n_done(before)
            # R11
            if st == "CONNECTED" and not complete:
                missing = [k2 for k2, d in after.items() for n2, v in d.items() if v is None or v is False]
                why = f"call {k}: reports CONNECTED while exchanges are outstanding ({missing})"
            elif complete and st != "CONNECTED":
                why = f"call {k}: everything is exchanged but status is {st}"
            # R12
            elif not complete and progressed and st != "CONNECTING":
                why = f"call {k}: something new was exchanged {it.log} but status is {st}"
            elif not complete and not progressed and st != "CONNECTING_IDLE":
                why = f"call {k}: nothing new was exchanged but status is {st}"
            # liveness: an output whose info exchange is complete and whose data was handed over is published in this very call
            if why is None:
                given = {n2 for key, val in args.items() if key.partition("@")[0] == "push_data" and (key.partition("@")[2] in ("*", "required") or int(key.partition("@")[2] or 1) <= k) for n2 in val}
                # a component that offers exactly what the helper says it still requires: every outstanding exchange is attempted in
                # every call (an idle call makes the composition report a circular coupling that does not exist)
                if any(key.endswith("@required") for key in args) and not complete:
                    for n2, (own, _sc) in ins.items():
                        if not own and before["in_infos"].get(n2) is None and not any(a[0] == n2 and a[1] == "exchange_info" for a in it.attempts):
                            why = (f"call {k}: the info exchange of input {n2} is outstanding and the component offers its info whenever `in_infos_required` asks "
                                   "for it, but no exchange is attempted in this call (the property answers from state left over from the previous call)")
                    for n2 in outs:
                        if "push_data@required" in args and after["out_infos"].get(n2) is not None and after["infos_pushed"].get(n2) and not after["data_pushed"].get(n2):
                            why = why or (f"call {k}: output {n2} has completed its info exchange and the component offers its data whenever `data_required` asks for "
                                          "it, but the data is not published in this call (the property answers from state left over from the previous call)")
                for n2 in given:
                    if after["out_infos"].get(n2) is not None and after["infos_pushed"].get(n2) and not after["data_pushed"].get(n2):
                        why = (f"call {k}: output {n2} has completed its info exchange and was given its initial data, but the data was not published "
                               "(another output's outstanding exchange must not hold it back: consumers waiting for it report a false circular coupling)")
            # bookkeeping agrees with what the peers saw
            if why is None:
                for (lbl, op, _a) in it.log:
                    if op == "exchange_info" and before["in_infos"].get(lbl) is not None:
                        why = f"call {k}: input {lbl} exchanged its info twice"
                    if op == "pull_data" and before["pulled"].get(lbl) is not None:
                        why = f"call {k}: input {lbl} pulled twice"
                    if op == "push_data" and before["data_pushed"].get(lbl):
                        why = f"call {k}: output {lbl} received its initial data twice"
                    if op == "push_info" and before["infos_pushed"].get(lbl):
                        why = (f"call {k}: output {lbl} is given its info again although it was pushed before: a component that offers its infos in "
                               "every call (the documented pattern) overwrites the info its targets already negotiated, and reports progress forever")
                for (lbl, op, res, *_r) in it.attempts:
                    if res == FAIL:
                        d = {"exchange_info": "in_infos", "pull_data": "pulled", "info": "out_infos"}[op]
                        if after[d].get(lbl) is not None and before[d].get(lbl) is None:
                            why = f"call {k}: failed {op} on {lbl} is recorded as done"
            if why or st == "CONNECTED":
                break
        if why is None and name == "stuck" and status is not None and status.args[1] != "CONNECTING_IDLE":
            why = "a peer that never answers must leave the helper CONNECTING_IDLE"
        if why is None and name != "stuck" and (status is None or status.args[1] != "CONNECTED"):
            why = f"does not reach CONNECTED within 9 calls although every peer eventually answers (last status {status!r})"
        sink.check(why is None, "R11", f"connect:{name}", f,
                   ok="status is CONNECTED iff all declared exchanges are done, CONNECTING iff something new was exchanged, else CONNECTING_IDLE",
                   bad=why or "")
    r11_initial_pull(repo, sink)
    sink.note("R11.connect_calls_interpreted", n_calls)
    sink.floor("R11", "scripted connect scenarios", len(_scenarios()), 20)
    # exhaustiveness: the completeness test mentions every pending-state dictionary of the constructor
    init = repo.resolve(c, "__init__")
    state = set()
    for n in fn_walk(init.node):
        if isinstance(n, ast.Assign) and isinstance(n.value, ast.DictComp):
            v = n.value.value
            if (isinstance(v, ast.Constant) and v.value in (None, False)) or (isinstance(v, ast.Call) and call_name(v) == "has_info"):
                state |= {self_attr(t) for t in n.targets if self_attr(t)}
    sink.note("R11.pending_state", sorted(state))
    sink.floor("R11", "pending-state dictionaries", len(state), 5, init)


def r11_initial_pull(repo, sink):
    """The initial pull of the connect helper asks for the composition start time (own rule: it also belongs to C01)."""
    if id(sink) in getattr(repo, "_r11ip_done", set()):
        return
    repo.__dict__.setdefault("_r11ip_done", set()).add(id(sink))
    c = repo.cls("ConnectHelper")
    f = repo.resolve(c, "connect", "method")
    start, later = Sym("t0"), Sym("t1")
    # the initial pull asks for the composition start time (that is what producers publish for,
    # next to their own start); without time components it falls back to the exchanged info's time
    for nm, st_arg, want in (("composition-start", start, start), ("no-time-components", None, later)):
        it = _CH(repo)
        it.order.name(start, "t0", 0)
        it.order.name(later, "t1", 1)
        me, inputs, _o = _build(repo, it, {"A": (True, {})}, {}, ["A"], start)
        inputs["A"].fields["_xinfo"] = _mk_info("xA", later)
        it.log = []
        try:
            it.run(f, [st_arg], {}, self_obj=me)
            pulls = [a for (_l, op, a) in it.log if op == "pull_data"]
            ok = pulls == [(want,)]
            why = f"initial pull requested {pulls!r}, expected [({want!r},)]"
        except Raised as r:
            ok, why = False, f"raises {r.name}"
        sink.check(ok, "R11", f"initial-pull-time:{nm}", f,
                   ok="initial pull asks for the composition start time (or the info time when there is none)",
                   bad=why + ": producers publish their initial data for the composition start and their own start, "
                             "a consumer starting later must still ask for the composition start")


def r14_doublepush(repo, sink):
    """Initial data goes out once for the composition start and, when the producer starts later, once more (as a copy) for the
    producer's own start; a static output gets it once with time None; nothing is published again by later connect calls.
    Observed on the public connect() of the helper."""
    c = repo.cls("ConnectHelper")
    f = repo.resolve(c, "connect", "method")
    start, later = Sym("t0"), Sym("t1")
    for name, static, itime, want in (
        ("static", True, None, [("DATA", None)]),
        ("same-start", False, start, [("DATA", start)]),
        ("later-start", False, later, [("DATA", start), ("COPY", later)]),
    ):
        it = _CH(repo)
        it.order.name(start, "t0", 0)
        it.order.name(later, "t1", 1)
        me, _i, outs = _build(repo, it, {}, {"O": (True, True, static, itime, {"info": [OK]})}, [], start)
        it.log = []
        try:
            st1 = it.run(f, [start], {"push_data": {"O": Sym("payload", "O")}}, self_obj=me)
            n1 = len(it.log)
            it.run(f, [start], {}, self_obj=me)
        except Raised as r:
            sink.bad("R14", f"initial-push:{name}", f, f"raises {r.name}")
            continue
        pushes = [(("COPY" if isinstance(a[0], Sym) and a[0].op == "copy" else "DATA" if a[0] == Sym("payload", "O") else repr(a[0])), a[1])
                  for (_l, op, a) in it.log if op == "push_data"]
        first = [(("COPY" if isinstance(a[0], Sym) and a[0].op == "copy" else "DATA" if a[0] == Sym("payload", "O") else repr(a[0])), a[1])
                 for (_l, op, a) in it.log[:n1] if op == "push_data"]
        pushed_flag = _state(me, repo)["data_pushed"].get("O")
        ok = first == want and pushes == want and pushed_flag is True
        sink.check(ok, "R14", f"initial-push:{name}", f,
                   ok=f"initial data published as {want}, not again by a later call",
                   bad=f"initial data published as {first} in the first call and {pushes} over two calls (pushed flag {pushed_flag}), expected {want} once: "
                       "composition start and producer start must both be published, the second from a fresh copy")


# =========================================================================== R13
def r13_nodata(repo, sink):
    """(a) every swallowing `try` in the helper catches exactly FinamNoDataError (or the
    internal MissingInfoError); (b) on the exchange path no store to self.* precedes a
    statement that may raise FinamNoDataError."""
    m = repo.module(CH)
    n_try = 0
    for n in ast.walk(m.tree):
        if isinstance(n, ast.Try):
            for h in n.handlers:
                reraises = any(isinstance(x, ast.Raise) for x in ast.walk(h))
                if reraises:
                    continue
                n_try += 1
                names = {x.id for x in ast.walk(h.type) if isinstance(x, ast.Name)} if h.type is not None else {"<bare>"}
                ok = names <= {"FinamNoDataError", "MissingInfoError"} and names
                fn = n
                while not isinstance(fn, ast.FunctionDef):
                    fn = fn._parent
                sink.check(bool(ok), "R13", f"swallow:{fn.name}:{'+'.join(sorted(names))}:{U(n.body[0])[:50]}", (m.relpath, n.lineno),
                           ok="only 'no data yet' is swallowed (retry later)",
                           bad=f"connect helper swallows {sorted(names)}: a real error is turned into 'retry later' and connect() never reports it",
                           func=fn.name)
    # (how many handlers there are is a matter of style - one shared retry helper is as good as four inline blocks; that every
    #  kind of failed attempt is tolerated is decided by the scripted peers of R11)
    sink.floor("R13", "swallowing handlers in connect_helper", n_try, 1)
    # (b) side-effect freedom of failing exchanges
    paths = [
        ("Output", "get_info", "method"), ("Output", "info", "getter"), ("Output", "get_data", "method"),
        ("CallbackOutput", "get_data", "method"), ("Input", "exchange_info", "method"), ("Adapter", "exchange_info", "method"),
        ("Adapter", "get_info", "method"), ("TimeDelayAdapter", "get_info", "method"), ("Output", "push_data", "method"),
    ]
    raisers = _may_raise_nodata(repo)
    sink.note("R13.functions_that_may_raise_FinamNoDataError", sorted(raisers))
    n = 0
    for cname, mname, kind in paths:
        if not repo.has_cls(cname):
            continue
        f = repo.resolve(repo.cls(cname), mname, kind)
        if f is None:
            continue
        n += 1
        _check_no_store_before_raise(repo, sink, f, raisers)
    for c in repo.subclasses(repo.cls("Adapter")):
        f = c.methods.get("_get_info")
        if f is not None:
            n += 1
            _check_no_store_before_raise(repo, sink, f, raisers)
    sink.floor("R13", "exchange-path functions", n, 12)


def _may_raise_nodata(repo):
    """Names of functions/properties that may raise FinamNoDataError (fixpoint over calls by name)."""
    direct = set()
    allf = []
    for m in repo.modules.values():
        for c in m.classes.values():
            for tab in (c.methods, c.getters):
                allf.extend(tab.values())
        allf.extend(m.funcs.values())
    for f in allf:
        for n in fn_walk(f.node):
            if isinstance(n, ast.Raise) and n.exc is not None and "FinamNoDataError" in U(n.exc):
                direct.add(f.name)
    # transitive through the exchange vocabulary only
    vocab = {"get_info", "_get_info", "exchange_info", "info", "get_data", "_get_data", "pull_data", "push_data"}
    res = set(direct) & vocab | {"exchange_info", "get_info", "_get_info", "pull_data", "get_data", "_get_data"}
    return res


def _raising_nodes(f, raisers):
    out = []
    for n in fn_walk(f.node):
        if isinstance(n, ast.Raise) and n.exc is not None and "FinamNoDataError" in U(n.exc):
            out.append(n)
        elif isinstance(n, ast.Call) and call_name(n) in raisers and isinstance(n.func, ast.Attribute):
            if call_name(n) == f.name and U(n.func.value) == "super()":
                continue
            out.append(n)
        elif isinstance(n, ast.Attribute) and n.attr == "info" and "info" in raisers and isinstance(n.ctx, ast.Load) \
                and self_attr(n) == "info" and f.cls is not None and f.cls.name in ("Output", "CallbackOutput") and f.name != "info":
            out.append(n)
    return out


def _check_no_store_before_raise(repo, sink, f, raisers):
    cfg = CFG(f.node)
    stores = []
    for n in fn_walk(f.node):
        if isinstance(n, (ast.Assign, ast.AugAssign)):
            ts = n.targets if isinstance(n, ast.Assign) else [n.target]
            for t in ts:
                base = t
                while isinstance(base, (ast.Subscript, ast.Attribute)) and not (isinstance(base, ast.Attribute) and isinstance(base.value, ast.Name)):
                    base = base.value
                if isinstance(base, ast.Attribute) and isinstance(base.value, ast.Name) and base.value.id == "self":
                    stores.append(n)
        elif isinstance(n, ast.Call) and isinstance(n.func, ast.Attribute) and n.func.attr in ("append", "pop", "update", "clear") \
                and self_attr(n.func.value):
            stores.append(n)
    bad = None
    for r in _raising_nodes(f, raisers):
        rn = cfg.node_of(r)
        for s in stores:
            sn = cfg.node_of(s)
            if sn is rn:
                # the store is the statement whose right-hand side raises: evaluated first, harmless
                continue
            if cfg.reachable(sn, rn) and not _is_log(s):
                bad = (s, r)
                break
        if bad:
            break
    key = f"no-store-before-nodata:{f.qualname}"
    if bad:
        s, r = bad
        sink.bad("R13", key, (f.file, s.lineno),
                 f"`{U(s)[:70]}` changes state before `{U(r)[:60]}` may raise FinamNoDataError: a failed "
                 "exchange attempt is not side-effect free, so the retry (or another order of attempts) sees different state",
                 func=f.qualname)
    else:
        sink.ok("R13", key, f, "no state change precedes a possible FinamNoDataError")


def _is_log(s):
    return "logger" in U(s)


# =========================================================================== R11r
class _RuleInfo(Obj):
    """Stand-in for finam.Info created by the transfer rules."""


class _CHR(_CH):
    def construct(self, cls, args, kwargs, node):
        if cls.name == "Info":
            o = _RuleInfo(label="info:new")
            o.fields.update(time=kwargs.get("time"), grid=kwargs.get("grid"), meta=dict(kwargs.get("meta") or {}))
            return o
        if cls.name in ("FromInput", "FromOutput"):
            o = Obj(cls=cls, label=cls.name)
            o.fields.update(name=args[0] if args else kwargs.get("name"), fields=(args[1] if len(args) > 1 else kwargs.get("fields")) or [])
            return o
        if cls.name == "FromValue":
            o = Obj(cls=cls, label="FromValue")
            o.fields.update(field=args[0], value=args[1])
            return o
        return super().construct(cls, args, kwargs, node)

    def get_attr(self, obj, attr, node, mod):
        if isinstance(obj, _RuleInfo) and attr in obj.fields:
            return obj.fields[attr]
        return super().get_attr(obj, attr, node, mod)

    def ext_call(self, name, args, kwargs, node):
        if name == "copy.copy":
            a = args[0]
            return dict(a) if isinstance(a, dict) else Sym("copy", a)
        return super().ext_call(name, args, kwargs, node)


def _rule(repo, kind, *a):
    it = _CHR(repo)
    return it.construct(repo.cls(kind), list(a), {}, None)


def r11r_rules(repo, sink):
    """Info transfer rules: the derived info is built only when its sources are available,
    takes the named fields in rule order, and never aliases the source's metadata."""
    c = repo.cls("ConnectHelper")
    f = repo.resolve(c, "connect", "method")
    start = Sym("t0")

    def build(in_rules=None, out_rules=None, ins=None, outs=None, pull=(), cache=True):
        it = _CHR(repo)
        it.order.name(start, "t0", 0)
        inputs, outputs = {}, {}
        for n, own in (ins or {}).items():
            s_ = Slot(label=n)
            xi = _mk_info("x" + n, start)
            xi.fields["meta"] = {"units": Sym("u", n), "extra": Sym("e", n)}
            xi.fields["grid"] = Sym("grid", n)
            s_.fields.update(_kind="in", _scripts={"exchange_info": [FAIL, OK] if n == "late" else [OK]}, _count={},
                             info=_mk_info(n, start) if own else None, _xinfo=xi, name=n)
            inputs[n] = s_
        for n, has in (outs or {}).items():
            s_ = Slot(label=n)
            oi = _mk_info(n, start)
            oi.fields["meta"] = {"units": Sym("u", n)}
            s_.fields.update(_kind="out", _scripts={"info": [OK]}, _count={}, _has_info=has, needs_push=False, is_static=False, _info=oi, name=n)
            outputs[n] = s_
        me = Obj(cls=c, label="helper")
        me.fields["logger"] = Logger(label="logger")
        init = repo.resolve(c, "__init__")
        it.run(init, ["lg", inputs, outputs], {"pull_data": list(pull), "in_info_rules": in_rules, "out_info_rules": out_rules, "cache": cache}, self_obj=me)
        return it, me, inputs, outputs

    # 1) output info derived from an input that exchanges late, then overridden by a value
    rules = {"O": [_rule(repo, "FromInput", "late"), _rule(repo, "FromValue", "units", Sym("u_override")), _rule(repo, "FromValue", "time", Sym("t_override"))]}
    it, me, inputs, outputs = build(out_rules=rules, ins={"late": True}, outs={"O": False})
    why = None
    pushed = []
    try:
        for k in range(1, 4):
            it.log = []
            it.run(f, [start], {}, self_obj=me)
            pushed += [(k, a[0]) for (_l, op, a) in it.log if op == "push_info"]
    except Raised as r:
        why = f"raises {r.name} ({r.exc!r})"
    src = inputs["late"].fields["_xinfo"]
    if why is None:
        if len(pushed) != 1:
            why = f"derived output info pushed {len(pushed)} time(s) ({[k for k, _ in pushed]}); expected once, after the input's info is exchanged"
        elif pushed[0][0] < 2:
            why = "derived output info pushed before its source info was exchanged"
        else:
            info = pushed[0][1]
            meta = info.fields["meta"] if isinstance(info, Obj) else None
            if not isinstance(info, Obj) or info.fields.get("grid") != Sym("grid", "late") or info.fields.get("time") != Sym("t_override") \
                    or meta.get("units") != Sym("u_override") or meta.get("extra") != Sym("e", "late"):
                why = f"derived info has time={info.fields.get('time')!r} grid={info.fields.get('grid')!r} meta={meta!r}; rules apply in order, later ones override"
            elif src.fields["meta"].get("units") != Sym("u", "late"):
                why = ("applying a later FromValue rule changed the *source* input's exchanged metadata "
                       f"(units now {src.fields['meta'].get('units')!r}): the derived info shares the source's meta dict instead of copying it")
    sink.check(why is None, "R11", "rules:out-from-input", f,
               ok="derived output info is pushed once, after its source exchanged, from a copy of the source's fields with later rules overriding",
               bad=why or "")
    # 2) field-restricted rules from two inputs
    rules = {"O": [_rule(repo, "FromInput", "a", ["time", "grid"]), _rule(repo, "FromInput", "b", ["units"])]}
    it, me, inputs, outputs = build(out_rules=rules, ins={"a": True, "b": True}, outs={"O": False})
    why = None
    try:
        it.log = []
        it.run(f, [start], {}, self_obj=me)
        it.run(f, [start], {}, self_obj=me)
        pushed = [a[0] for (_l, op, a) in it.log if op == "push_info"]
        if len(pushed) != 1:
            why = f"derived info pushed {len(pushed)} times"
        else:
            info = pushed[0]
            if info.fields.get("grid") != Sym("grid", "a") or info.fields["meta"].get("units") != Sym("u", "b") or "extra" in info.fields["meta"]:
                why = f"field-restricted rules give grid={info.fields.get('grid')!r} meta={info.fields['meta']!r}; expected grid of a, units of b, nothing else"
    except Raised as r:
        why = f"raises {r.name} ({r.exc!r})"
    sink.check(why is None, "R11", "rules:restricted-fields", f, ok="only the named fields are transferred, each from its own source", bad=why or "")
    # 3) input info derived from an output
    rules = {"I": [_rule(repo, "FromOutput", "O")]}
    it, me, inputs, outputs = build(in_rules=rules, ins={"I": False}, outs={"O": True})
    why = None
    try:
        it.log = []
        for _k in range(3):
            it.run(f, [start], {}, self_obj=me)
        ex = [a for (_l, op, a) in it.log if op == "exchange_info"]
        if len(ex) != 1 or not ex[0] or not isinstance(ex[0][0], Obj) or ex[0][0].fields["meta"].get("units") != Sym("u", "O"):
            why = f"input info derived from the output is exchanged as {ex!r}"
    except Raised as r:
        why = f"raises {r.name} ({r.exc!r})"
    sink.check(why is None, "R11", "rules:in-from-output", f, ok="input request derived from the output's exchanged info, exchanged once", bad=why or "")
    # 3b) an input and an output of one component with the SAME name (a pass-through filter "Data" -> "Data"), each derived from the other side
    for direction in ("in-from-output", "out-from-input"):
        why = None
        try:
            if direction == "in-from-output":
                it, me, inputs, outputs = build(in_rules={"Data": [_rule(repo, "FromOutput", "Data")]}, ins={"Data": False}, outs={"Data": True})
            else:
                it, me, inputs, outputs = build(out_rules={"Data": [_rule(repo, "FromInput", "Data")]}, ins={"Data": True}, outs={"Data": False})
            it.log = []
            st = None
            for _k in range(4):
                st = it.run(f, [start], {}, self_obj=me)
            if direction == "in-from-output":
                ex = [a for (_l, op, a) in it.log if op == "exchange_info"]
                if len(ex) != 1 or not ex[0] or not isinstance(ex[0][0], Obj) or ex[0][0].fields["meta"].get("units") != Sym("u", "Data"):
                    why = f"the input's request must be derived from the output of the same name; exchanged as {ex!r}"
            else:
                pushed = [a[0] for (_l, op, a) in it.log if op == "push_info"]
                if len(pushed) != 1 or not isinstance(pushed[0], Obj) or pushed[0].fields.get("grid") != Sym("grid", "Data"):
                    why = f"the output's info must be derived from the input of the same name; pushed {pushed!r}"
            if why is None and not (isinstance(st, Sym) and st.args[1] == "CONNECTED"):
                why = f"the helper ends in {st!r} instead of CONNECTED (the rule is looked up on the wrong side and is never satisfied)"
        except Raised as r:
            why = f"raises {r.name} ({r.exc!r})"
        sink.check(why is None, "R11", f"rules:same-name:{direction}", f,
                   ok="FromInput / FromOutput address the input / output side even when both sides use one slot name", bad=why or "")
    # 4) an input whose info comes from value rules (always derivable) and whose source answers late: the exchange is attempted in
    # EVERY call while it is outstanding - with and without caching (a helper that tries only every second call reports no progress
    # although its peer is ready, and the composition ends in a false circular-coupling error)
    for cache in (True, False):
        rules = {"late": [_rule(repo, "FromValue", "grid", Sym("G")), _rule(repo, "FromValue", "time", start)]}
        it, me, inputs, outputs = build(in_rules=rules, ins={"late": False}, cache=cache)
        inputs["late"].fields["_scripts"] = {"exchange_info": [FAIL, FAIL, OK]}
        why = None
        try:
            tries = []
            for k in range(1, 5):
                it.log, it.attempts = [], []
                st = it.run(f, [start], {}, self_obj=me)
                tries.append(len([a for a in it.attempts if a[1] == "exchange_info"]))
                if isinstance(st, Sym) and st.args[1] == "CONNECTED":
                    break
            if tries[:3] != [1, 1, 1]:
                why = (f"exchange attempts per call: {tries}; the source answers at the third attempt, which must be made in the third call "
                       "(the rule-derived info is regenerated only every second call)")
        except Raised as r:
            why = f"raises {r.name} ({r.exc!r})"
        sink.check(why is None, "R11", f"rules:attempt-every-call:cache={cache}", f,
                   ok="an outstanding exchange with rule-derived info is attempted in every call", bad=why or "")


def r11s_static_slots(repo, sink):
    """The connect helper's scenarios that involve static outputs, as a rule of their own (C20: a static output serves its one
    publication whatever the consumers' times are - also next to timed outputs of a producer that starts later)."""
    from ..report import Sink
    tmp = Sink()
    r11_r12_connect(repo, tmp)
    n = 0
    for ob in tmp.obs:
        if "static" in ob.key:
            ob.rule = "R11s"
            sink.obs.append(ob)
            n += 1
    sink.floor("R11s", "connect scenarios with static outputs", n, 5)
