"""Life-cycle rules: R06 LIFE, R07 STATUS, R08 ADVANCE, R10 STALL, R10b MUSTCONNECT."""
from __future__ import annotations

import ast

from ..astq import U, call_name, calls, cmp_norm, const_names, fn_walk, self_attr, stmt_key, walk
from ..cfg import CFG
from ..interp import Closure, Obj, Raised, Sym, Undecided
from ..loader import AnalysisError, body_of
from ..schedmodel import Logger, Ref, SchedInterp

LIFE = ("initialize", "connect", "validate", "update", "finalize")


def _comp_calls(fn, name):
    """Calls `<x>.<name>(...)` where x is not self / super()."""
    out = []
    for c in calls(fn, name):
        if isinstance(c.func, ast.Attribute) and U(c.func.value) not in ("self", "super()"):
            out.append(c)
    return out


def _check_status_calls(fn):
    return [c for c in calls(fn, "_check_status") if isinstance(c.func, ast.Attribute) and self_attr(c.func)]


def _listed(call):
    """Status names accepted by a `_check_status(x, <list>)` call.  The list may be written at
    the call or bound once to a local name / module constant (hoisted out of a loop); anything
    else is outside the rule's vocabulary."""
    if len(call.args) < 2:
        for k in call.keywords:
            if k.arg is not None and len(call.args) == 1:
                return _status_list(call, k.value)
        return set()
    return _status_list(call, call.args[1])


def _status_list(call, expr, depth=0):
    if isinstance(expr, (ast.List, ast.Tuple, ast.Set)):
        return const_names(expr)
    if isinstance(expr, ast.BinOp) and isinstance(expr.op, ast.Add) and depth < 4:
        return _status_list(call, expr.left, depth + 1) | _status_list(call, expr.right, depth + 1)
    if isinstance(expr, ast.Name) and depth < 4:
        fn = call
        while fn is not None and not isinstance(fn, (ast.FunctionDef, ast.AsyncFunctionDef)):
            fn = getattr(fn, "_parent", None)
        scope = fn
        binds = []
        while scope is not None:
            for n in (fn_walk(scope) if isinstance(scope, (ast.FunctionDef, ast.AsyncFunctionDef)) else scope.body):
                if isinstance(n, ast.Assign) and any(isinstance(t, ast.Name) and t.id == expr.id for t in n.targets):
                    binds.append(n.value)
                elif isinstance(n, (ast.AugAssign, ast.AnnAssign)) and isinstance(n.target, ast.Name) and n.target.id == expr.id:
                    binds.append(None)
            if binds:
                break
            scope = getattr(scope, "_parent", None)
            while scope is not None and not isinstance(scope, (ast.FunctionDef, ast.AsyncFunctionDef, ast.Module)):
                scope = getattr(scope, "_parent", None)
        if len(binds) == 1 and binds[0] is not None:
            return _status_list(call, binds[0], depth + 1)
    raise AnalysisError(f"accepted-status list `{U(expr)}` of _check_status (line {call.lineno}) is not a literal or a name bound once to one")


def _classwide(repo, cls, name, self_call=False):
    """All call sites `<x>.<name>(..)` in any method of cls: [(Func, call)]."""
    out = []
    for f in list(cls.methods.values()) + list(cls.getters.values()):
        for c in calls(f.node, name):
            if not isinstance(c.func, ast.Attribute):
                continue
            is_self = U(c.func.value) in ("self", "super()")
            if is_self == self_call:
                out.append((f, c))
    return out


def _site_check(repo, sink, cls, name, f, found, key, self_call=False, want=1):
    """Shared verdict for 'exactly `want` call sites of `name`, located in method f'.
    Returns True if the intra-method checks may proceed."""
    allsites = _classwide(repo, cls, name, self_call)
    if len(found) == want and len(allsites) == want:
        sink.ok("R06", key, f, f"{want} {name}() call site(s), in {f.qualname}")
        return True
    if len(allsites) == 0:
        sink.bad("R06", key, f, f"{cls.name} never calls {name}()")
        return False
    if len(allsites) > want:
        where = sorted({g.qualname for g, _ in allsites})
        sink.bad("R06", key, f, f"{len(allsites)} {name}() call sites in {where}: a component would pass this phase more than once")
        return False
    sink.unknown("R06", key, f, f"{name}() is called from {sorted({g.qualname for g, _ in allsites})}, not from {f.qualname}: life-cycle layout not recognised")
    return False


# =========================================================================== R06
def r06_life(repo, sink):
    comp = repo.cls("Composition")
    init = repo.resolve(comp, "__init__")
    conn = repo.resolve(comp, "connect")
    run = repo.resolve(comp, "run")
    cc = repo.resolve(comp, "_connect_components")
    fin = repo.resolve(comp, "_finalize_components")
    step = repo.resolve(comp, "_update_recursive")
    for f, n in ((init, "__init__"), (conn, "connect"), (run, "run"), (cc, "_connect_components"),
                 (fin, "_finalize_components"), (step, "_update_recursive")):
        if f is None:
            raise AnalysisError(f"Composition.{n} not found")
    # Order, multiplicity and status checks of the life-cycle phases: decided on the trace of an abstract run of the real
    # constructor, connect() and run() over scripted components (rules/lifetrace.py) - independent of how the phases are
    # spread over helper methods.
    from . import lifetrace
    lifetrace.r06t_trace(repo, sink)
    _finalize_once(repo, sink, comp, fin)
    # collection of adapters (set semantics, both directions, recursion): decided by the abstract run above (finalize-once)
    # who-may-call: life-cycle methods of components are driven only by the Composition
    for m in ("initialize", "validate", "finalize"):
        foreign = []
        for mod in repo.modules.values():
            if mod.relpath.endswith("schedule.py"):
                continue
            for n in ast.walk(mod.tree):
                if isinstance(n, ast.Call) and isinstance(n.func, ast.Attribute) and n.func.attr == m and not n.args:
                    r = U(n.func.value)
                    if r in ("self", "super()") or r.startswith("self.") or r in ("out", "ada", "adapter", "Input", "Output", "Loggable"):
                        continue
                    foreign.append(f"{mod.relpath}:{n.lineno} {r}.{m}()")
        sink.check(not foreign, "R06", f"who-may-call:{m}", None, ok=f"no component.{m}() outside the driver",
                   bad=f"component.{m}() called outside the driver: {foreign}")


class _FinInterp(SchedInterp):
    def __init__(self, repo):
        super().__init__(repo)
        self.finalized = []

    def get_attr(self, obj, attr, node, mod):
        if isinstance(obj, Obj) and not isinstance(obj, Logger) and attr == "finalize" and "component" in obj.markers:
            return Sym("fin", Ref(obj))
        return super().get_attr(obj, attr, node, mod)

    def call_hook(self, fv, args, kwargs, node, mod):
        if isinstance(fv, Sym) and fv.op == "fin":
            o = fv.args[0].obj
            self.finalized.append(o.label)
            o.fields["status"] = Sym("enum", "ComponentStatus", "FINALIZED")
            return None
        if isinstance(fv, Closure) and getattr(fv.func, "name", "") == "finalize" and fv.self_obj is not None and fv.self_obj.cls is not None:
            self.finalized.append(fv.self_obj.label)
            return None
        return super().call_hook(fv, args, kwargs, node, mod)


def _finalize_once(repo, sink, comp_cls, fin):
    """Abstract run of adapter collection + finalization on a topology with a shared adapter."""
    from ..schedmodel import Topo
    t = Topo(repo)
    a, b, c = t.comp("A", status="UPDATED"), t.comp("B", status="UPDATED"), t.comp("C", status="VALIDATED")
    o = t.output(a)
    shared = t.link(o, ["Scale"], None)
    t.link(o, shared, b)
    t.link(o, shared + ["NextTime"], c)
    o2 = t.output(a, "out2")
    t.link(o2, ["DelayFixed", "Scale"], b, "in2")
    # a chain that ends in no input: reachable only by the downstream walk
    t.link(t.output(b, "dangling"), ["Scale", "Scale"], None)
    adapters = {e.label for (_o, elems, _c, _i) in t.links for e in elems}
    me = Obj(cls=comp_cls, label="composition")
    it = _FinInterp(repo)
    from ..absbase import seed_from_init
    seed_from_init(it, comp_cls, me, {"components": list(t.comps.values())})
    me.fields.update(logger=Logger(label="logger"))
    col = repo.resolve(comp_cls, "_collect_adapters")
    try:
        it.run(col, [], self_obj=me)
        it.run(fin, [], self_obj=me)
    except Raised as r:
        sink.bad("R06", "finalize-once", fin, f"finalizing a valid composition raises {r.name}")
        return
    counts = {}
    for lbl in it.finalized:
        counts[lbl] = counts.get(lbl, 0) + 1
    wrong = {k: counts.get(k, 0) for k in sorted(adapters | set(t.comps)) if counts.get(k, 0) != 1}
    sink.check(not wrong, "R06", "finalize-once", fin,
               ok=f"{len(adapters)} adapters (one shared by two consumers) and {len(t.comps)} components are each finalized exactly once",
               bad=f"finalize counts differ from one: {wrong} (an adapter upstream of a branch is reached once per consumer / an adapter is never collected)")


def _loop_iter(node):
    cur = getattr(node, "_parent", None)
    while cur is not None and not isinstance(cur, ast.For):
        cur = getattr(cur, "_parent", None)
    return U(cur.iter) if cur is not None else None


def _r06_wrappers(repo, sink):
    """Each @final SDK wrapper calls its hook exactly once on every path."""
    c = repo.cls("Component")
    for m in LIFE:
        f = repo.resolve(c, m, "method")
        if f is None:
            sink.unknown("R06", f"wrapper:{m}", None, f"Component.{m} not found")
            continue
        hooks = [x for x in calls(f.node, "_" + m) if isinstance(x.func, ast.Attribute) and self_attr(x.func)]
        cfg = CFG(f.node)
        if m == "connect":
            # ping phase on the first call, hook afterwards
            pings = [x for x in calls(f.node, "ping")]
            sink.check(len(hooks) == 1 and len(pings) == 1 and not cfg.reachable(cfg.node_of(pings[0]), cfg.node_of(hooks[0]))
                       and not cfg.reachable(cfg.node_of(hooks[0]), cfg.node_of(pings[0])), "R06", "wrapper:connect", f,
                       ok="connect(): ping phase or _connect hook, never both in one call",
                       bad="connect() wrapper: ping phase and _connect hook are not exclusive / not unique")
            continue
        ok = len(hooks) == 1 and cfg.postdominates(cfg.node_of(hooks[0]), cfg.entry) and not cfg.in_loop(cfg.node_of(hooks[0]))
        sink.check(ok, "R06", f"wrapper:{m}", f, ok=f"{m}() calls _{m}() exactly once",
                   bad=f"{m}() does not call _{m}() exactly once on every path")
    f = repo.resolve(c, "finalize", "method")
    loops = [n for n in fn_walk(f.node) if isinstance(n, ast.For) and "outputs" in U(n.iter)]
    sink.check(bool(loops) and any(call_name(x) == "finalize" for x in ast.walk(loops[0]) if isinstance(x, ast.Call)),
               "R06", "wrapper:finalize-outputs", f, ok="finalize() finalizes every output",
               bad="Component.finalize() does not finalize every output")


# =========================================================================== R07
def _wrapper_status(f):
    """(default status assigned, keep-set) of a @final wrapper."""
    for n in fn_walk(f.node):
        if isinstance(n, ast.If):
            asg = [s for s in n.body if isinstance(s, ast.Assign) and any(self_attr(t) == "status" for t in s.targets)]
            if asg and "status" in U(n.test):
                default = const_names(asg[0].value)
                t = n.test
                keep = None
                if isinstance(t, ast.Compare) and len(t.ops) == 1 and isinstance(t.ops[0], (ast.NotEq, ast.NotIn, ast.IsNot)):
                    keep = const_names(t.comparators[0])
                elif isinstance(t, ast.UnaryOp) and isinstance(t.op, ast.Not):
                    keep = const_names(t.operand)
                elif isinstance(t, ast.BoolOp) and isinstance(t.op, ast.And):
                    keep = set()
                    for v in t.values:
                        if isinstance(v, ast.Compare) and isinstance(v.ops[0], (ast.NotEq, ast.NotIn, ast.IsNot)):
                            keep |= const_names(v.comparators[0])
                        else:
                            keep = None
                            break
                if keep is not None and len(default) == 1:
                    return next(iter(default)), keep, n
    # unconditional store
    for n in body_of(f.node):
        if isinstance(n, ast.Assign) and any(self_attr(t) == "status" for t in n.targets):
            d = const_names(n.value)
            if len(d) == 1:
                return next(iter(d)), set(), n
    return None


def r07_status(repo, sink):
    """Status protocol between the components' life-cycle wrappers and the driver, decided by
    abstract runs (rules/lifetrace.py): the wrappers' decision tables and the scenarios in which
    a component finishes itself."""
    from . import lifetrace
    for fn in (lifetrace.r07w_wrappers, lifetrace.r07w_connect, lifetrace.r07t_finishing):
        try:
            fn(repo, sink)
        except (AnalysisError, Undecided) as exc:
            sink.unknown("R07", f"analysis:{fn.__name__}", None, f"outside the rule's vocabulary: {exc}")


def _step_tolerates_finished(repo, step):
    """True if `_update_recursive` does not raise for a FINISHED start component."""
    from ..schedmodel import Topo
    topo = Topo(repo)
    a = topo.comp("A", status="FINISHED")
    comp = topo.composition()
    it = SchedInterp(repo)
    try:
        paths = it.run_all(lambda: it.run(step, [a], self_obj=comp))
    except Exception:  # pylint: disable=broad-except
        return False
    return all(k == "ret" for _d, (k, _v) in paths)


# =========================================================================== R08
R08_EXCEPTIONS = {
    "UserControl": "interactive prompt: an unparsable answer deliberately leaves the clock unchanged and asks again",
}


def r08_advance(repo, sink):
    base = repo.cls("ITimeComponent")
    comps = [c for c in repo.subclasses(base, strict=True) if not repo.is_abstract(c)]
    sink.floor("R08", "time components", len(comps), 7)
    for c in comps:
        up = repo.resolve(c, "_update")
        if up is None:
            continue
        if c.name in R08_EXCEPTIONS:
            sink.ok("R08", f"advance:{c.name}", up, "named exception: " + R08_EXCEPTIONS[c.name])
            continue
        # first choice: two abstract updates over a symbolic clock (rules/sched.py): the public `time` after an update is the
        # time before it plus one step - wherever the assignment is written
        from .sched import _abstract_update
        clocks = []
        try:
            _abstract_update(repo, c, clocks)
        except (AnalysisError, Undecided, Raised, KeyError, TypeError):
            clocks = None
        if clocks:
            why = None
            for k, (before, after) in enumerate(clocks, 1):
                if after == before:
                    why = why or f"update {k} leaves the clock at {before!r}: run() cannot terminate"
                elif not (isinstance(after, Sym) and after.op == "tadd" and after.args[0] == before and after.args[1] == Sym("step")):
                    why = why or f"update {k} moves the clock from {before!r} to {after!r}, not by exactly one step"
            sink.check(why is None, "R08", f"advance:{c.name}", up, ok="every update advances the public clock by exactly one step", bad=why or "")
            continue
        # fallback (bodies outside the abstract vocabulary: file / console handling): the clock is stored on every path
        cfg = CFG(up.node)
        stores = []

        def _stores_in(fn_node):
            out = []
            for n in fn_walk(fn_node):
                if isinstance(n, (ast.Assign, ast.AugAssign)):
                    targets = n.targets if isinstance(n, ast.Assign) else [n.target]
                    flat = []
                    for t in targets:
                        flat.extend(t.elts if isinstance(t, ast.Tuple) else [t])
                    if any(self_attr(t) in ("time", "_time") for t in flat):
                        out.append(n)
            return out

        stores = _stores_in(up.node)
        # a helper method that stores the clock on each of its paths counts as a store where it is called
        for n in fn_walk(up.node):
            if isinstance(n, ast.Call) and isinstance(n.func, ast.Attribute) and self_attr(n.func):
                callee = repo.resolve(c, self_attr(n.func), "method")
                if callee is not None and callee is not up:
                    hs = _stores_in(callee.node)
                    if hs:
                        hcfg = CFG(callee.node)
                        if not hcfg.reachable(hcfg.entry, hcfg.exit, avoid=[hcfg.node_of(x) for x in hs]) and all(_advances(x) for x in hs):
                            st = n
                            while not isinstance(st, ast.stmt):
                                st = st._parent
                            st._r08_helper = True
                            stores.append(st)
        if not stores:
            sink.unknown("R08", f"advance:{c.name}", up, "_update is outside the abstract vocabulary and no clock assignment is found in it or its helpers")
            continue
        nodes = [cfg.node_of(s) for s in stores]
        every = not cfg.reachable(cfg.entry, cfg.exit, avoid=nodes)
        twice = any(cfg.reachable(a, b) for a in nodes for b in nodes)
        forward = all(getattr(s, "_r08_helper", False) or _advances(s) for s in stores)
        # (a syntactic reading: it can discharge, it never accuses - a shape it does not know is UNRECOGNISED; a table-driven
        # component whose clock is decided by the abstract run over a table stand-in - `reader-clock-follows-rows` - is left to that)
        if not (every and not twice and forward) and _table_clock_decided(repo, c):
            sink.ok("R08", f"advance:{c.name}", up, "table-driven component: the clock is decided by reader-clock-follows-rows (abstract run over a three-row table)")
        elif every and not twice and forward:
            sink.ok("R08", f"advance:{c.name}", up, "clock assigned exactly once on every path of _update (+= step or next data row)")
        else:
            sink.unknown("R08", f"advance:{c.name}", up,
                         ("a path through _update seems to leave the clock unchanged" if not every else
                          "the clock seems to be assigned more than once per update" if twice else
                          f"clock update not recognised as an advance: {U(stores[0])}") + " (syntactic fall-back; the body is outside the abstract vocabulary)")


def _table_clock_decided(repo, c):
    """The abstract table run (r08r) reaches a verdict for class c (either way: its own obligation reports a defect)."""
    if c.name != "CsvReader" and not any(isinstance(n, ast.Attribute) and n.attr == "read_csv" for m in c.methods.values() for n in ast.walk(m.node)):
        return False
    from ..report import Sink
    probe = Sink()
    try:
        r08r_reader_finishes(repo, probe)
    except (AnalysisError, Undecided):
        return False
    return any(o.key == "reader-clock-follows-rows" and o.verdict != "UNRECOGNISED" for o in probe.obs)


def r08r_reader_finishes(repo, sink):
    """A table-driven component (CsvReader) declares itself FINISHED in the very update that emits its last row: the driver
    updates every unfinished component below the end time again, and the next row does not exist.  Abstract run of the real
    _connect and _update bodies over a three-row table stand-in."""
    from ..absbase import seed_from_init, set_backed
    from .sched import _Slots, _UpdateInterp
    if not repo.has_cls("CsvReader"):
        raise AnalysisError("CsvReader not found")
    c = repo.cls("CsvReader")
    up = repo.resolve(c, "_update", "method")
    n_rows = 3

    class _T(_UpdateInterp):
        def ext_call(self, name, args, kwargs, node):
            short = name.split(".")[-1]
            if short == "read_csv":
                return Obj(label="table")
            if short in ("fromisoformat", "strptime", "to_datetime"):
                return Sym("T0", args[0])
            return super().ext_call(name, args, kwargs, node)

        def get_attr(self, obj, attr, node, mod):
            if isinstance(obj, Obj) and obj.label == "table":
                if attr in ("iloc", "loc"):
                    return Sym("rows")
                if attr == "shape":
                    return (n_rows, 2)
                if attr == "index":
                    return list(range(n_rows))
            return super().get_attr(obj, attr, node, mod)

        def builtin(self, name, args, kwargs, node):
            if name == "len" and args and isinstance(args[0], Obj) and args[0].label == "table":
                return n_rows
            return super().builtin(name, args, kwargs, node)

        def sym_item(self, cont, k, node):
            if isinstance(cont, Sym) and cont.op == "rows":
                if not isinstance(k, int):
                    raise AnalysisError(f"table row selected by {k!r}")
                if k >= n_rows or k < -n_rows:
                    self.on_raise(Sym("exc", "IndexError", "single positional indexer is out-of-bounds"), node)
                return Sym("row", k)
            if isinstance(cont, Sym) and cont.op == "row":
                return Sym("cell", cont.args[0], k)
            return super().sym_item(cont, k, node)

        def call_hook(self, fv, args, kwargs, node, mod):
            if isinstance(fv, Closure) and getattr(fv.func, "name", "") == "try_connect":
                return None
            return super().call_hook(fv, args, kwargs, node, mod)

    it = _T(repo)
    me = Obj(cls=c, label="CsvReader")
    try:
        seed_from_init(it, c, me, {"path": Sym("X", "path"), "time_column": "time", "outputs": {"A": "m"}, "date_format": None, "separator": ";"})
        me.fields["logger"] = Logger(label="logger")
        set_backed(repo, me, "inputs", _Slots())
        set_backed(repo, me, "outputs", _Slots({"A": Obj(label="A", markers={"slot"})}))
        set_backed(repo, me, "connector", Obj(label="connector", fields={"out_infos": {"A": Obj(label="info")}, "in_infos": {}, "data_pushed": {"A": False}}))
        it.store_attr(me, "status", Sym("enum", "ComponentStatus", "CONNECTING"), None)
        it.run(repo.resolve(c, "_connect", "method"), [None], self_obj=me)
        it.store_attr(me, "status", Sym("enum", "ComponentStatus", "VALIDATED"), None)
        sg = repo.resolve(c, "status", "getter")
        emitted = [t for (_n, _d, t) in it.pushes]
        clocks = [it.attr(me, "time", None, None)]
        why, k = None, 0
        while k < n_rows + 2:
            if it.run(sg, [], self_obj=me) == Sym("enum", "ComponentStatus", "FINISHED"):
                break
            k += 1
            it.pushes = []
            try:
                it.run(up, [], self_obj=me)
            except Raised as r:
                why = (f"update {k} raises {r.name}: after the last row was emitted the reader did not declare itself FINISHED, the driver updates it "
                       "again (end time beyond the last row) and the run dies before anything is finalized")
                break
            emitted += [t for (_n, _d, t) in it.pushes]
            clocks.append(it.attr(me, "time", None, None))
        else:
            why = f"the reader is still not FINISHED after {k} updates of a {n_rows}-row table"
        if why is None and k != n_rows - 1:
            why = f"the reader finishes after {k} updates of a {n_rows}-row table whose first row is the initial data; {n_rows - 1} rows remain to be emitted"
    except (AnalysisError, Undecided, Raised) as exc:
        sink.unknown("R08", "reader-finishes-with-last-row", up, f"outside vocabulary: {exc}")
        return
    sink.check(why is None, "R08", "reader-finishes-with-last-row", up,
               ok="every row is emitted once and the update that emits the last one leaves the reader FINISHED", bad=why or "")
    # the clock of a table-driven component: after connect the first row's time, after the k-th update the time of row k
    def rows_in(v, acc):
        if isinstance(v, Sym):
            if v.op in ("cell", "row"):
                acc.add(v.args[0])
            for a in v.args:
                rows_in(a, acc)
        return acc

    why_c = None
    for k2, t in enumerate(clocks):
        got = rows_in(t, set())
        if got != {k2}:
            why_c = why_c or (f"after {'connect' if k2 == 0 else f'update {k2}'} the public clock is {t!r}: "
                              + (f"the time of row(s) {sorted(got)}" if got else "not a row's time") + f", expected the time of row {k2}"
                              + (" (the clock does not move: run() cannot end)" if k2 and t == clocks[k2 - 1] else ""))
    sink.check(why_c is None, "R08", "reader-clock-follows-rows", up,
               ok="the clock is the time of the row emitted last: the first row after connect, row k after the k-th update", bad=why_c or "")
    repo.__dict__.setdefault("_r08_table_clock", {})[c.name] = why_c is None


def _advances(s):
    if isinstance(s, ast.AugAssign):
        return isinstance(s.op, ast.Add)
    v = s.value
    if isinstance(v, ast.BinOp) and isinstance(v.op, ast.Add) and any(self_attr(x) in ("time", "_time") for x in (v.left, v.right)):
        return True
    if isinstance(v, ast.Call):
        return True  # next data row (ordering of rows is a run-time premise)
    return False


# ====================================================================== R10 / R10b
class _ConnInterp(SchedInterp):
    """Components whose connect() follows a script of statuses."""

    def __init__(self, repo):
        super().__init__(repo)
        self.connect_calls = []

    def get_attr(self, obj, attr, node, mod):
        if isinstance(obj, Obj) and attr == "connect" and "component" in obj.markers:
            return Sym("connect", Ref(obj))
        return super().get_attr(obj, attr, node, mod)

    def call_hook(self, fv, args, kwargs, node, mod):
        if isinstance(fv, Sym) and fv.op == "connect":
            o = fv.args[0].obj
            script = o.fields["_script"]
            i = o.fields["_i"]
            o.fields["_i"] = i + 1
            o.fields["status"] = Sym("enum", "ComponentStatus", script[min(i, len(script) - 1)])
            self.connect_calls.append((o.label, i))
            if o.fields["_i"] > 30:
                raise AnalysisError("connect loop does not terminate on a stalled script")
            return None
        if isinstance(fv, Sym) and fv.op == "builtin" and fv.args[0] == "map":
            return list(args[1]) if isinstance(args[1], (list, tuple)) else []
        return super().call_hook(fv, args, kwargs, node, mod)


def _names_in(v, acc):
    if isinstance(v, str):
        acc.add(v)
    elif isinstance(v, Sym):
        for a in v.args:
            _names_in(a, acc)
    elif isinstance(v, (list, tuple)):
        for a in v:
            _names_in(a, acc)


def r10_stall(repo, sink):
    comp_cls = repo.cls("Composition")
    f = repo.resolve(comp_cls, "_connect_components")
    if f is None:
        raise AnalysisError("Composition._connect_components not found")
    I, G, D, F = "CONNECTING_IDLE", "CONNECTING", "CONNECTED", "FAILED"
    scenarios = {
        "all-connect-at-once": ({"A": [D], "B": [D]}, None),
        "two-rounds": ({"A": [G, D], "B": [D]}, None),
        "idle-then-progress-elsewhere": ({"A": [I, I, D], "B": [G, G, D]}, None),
        "one-stalls": ({"A": [I], "B": [D]}, {"A"}),
        "both-stall": ({"A": [I], "B": [I]}, {"A", "B"}),
        "progress-then-stall": ({"A": [G, G, I], "B": [I]}, {"A", "B"}),
        "three-one-stalls-late": ({"A": [D], "B": [G, D], "C": [G, I]}, {"C"}),
        "failed-status": ({"A": [F], "B": [D]}, "FinamStatusError"),
        # a long acyclic chain listed in reverse: every sweep makes progress somewhere, far more sweeps than components are needed
        # (the number of sweeps is bounded by the exchanges, not by the number of components)
        "many-sweeps-each-with-progress": ({"A": [G] * 9 + [D], "B": [I, G, I, G, I, G, I, G, D]}, None),
        "three-slow-components": ({"A": [G] * 12 + [D], "B": [G] * 7 + [D], "C": [I] * 6 + [G, D]}, None),
    }
    for name, (scripts, expect) in scenarios.items():
        comps = []
        for cn, sc in scripts.items():
            o = Obj(label=cn, markers={"component", "IComponent"})
            o.fields.update(name=cn, status=Sym("enum", "ComponentStatus", "INITIALIZED"), _script=sc, _i=0,
                            logger=Logger(label="logger"))
            comps.append(o)
        from ..absbase import seed_from_init
        me = Obj(cls=comp_cls, label="composition")
        it = _ConnInterp(repo)
        seed_from_init(it, comp_cls, me, {"components": comps})
        me.fields["logger"] = Logger(label="logger")
        why = None
        try:
            it.run(f, [Sym("start")], self_obj=me)
            final = {o.label: o.fields["status"].args[1] for o in comps}
            if expect is not None:
                why = f"returns normally although {sorted(expect) if isinstance(expect, set) else expect} expected (final statuses {final})"
            elif any(s != D for s in final.values()):
                why = f"returns with unconnected components {final}"
            for o in comps:
                n_after = [i for (l, i) in it.connect_calls if l == o.label]
                first_d = next((i for i, s in enumerate(o.fields["_script"]) if s == D), None)
                if first_d is not None and n_after and max(n_after) > first_d:
                    why = f"{o.label}.connect() called again after it reported CONNECTED"
        except Raised as r:
            if expect is None:
                why = f"raises {r.name} although every component eventually connects"
            elif isinstance(expect, str):
                if r.name != expect:
                    why = f"raises {r.name}, expected {expect}"
            else:
                if r.name != "FinamCircularCouplingError":
                    why = f"raises {r.name}, expected FinamCircularCouplingError"
                else:
                    listed = set()
                    _names_in(r.exc, listed)
                    listed = {x for x in listed if x in scripts}
                    if listed != expect:
                        why = f"error lists {sorted(listed)}, the components that could not complete are {sorted(expect)}"
        except AnalysisError as e:
            if "does not terminate" in str(e):
                why = "connect loop keeps iterating although no component makes progress (hang)"
            else:
                raise
        sink.check(why is None, "R10", f"connect-loop:{name}", f,
                   ok="connect loop ends as specified (all connected / circular-coupling error listing the stuck components)",
                   bad=why or "")


def r10b_mustconnect(repo, sink):
    n = 0
    for c in repo.subclasses(repo.cls("IComponent"), strict=True):
        h = c.methods.get("_connect")
        if h is None or c.name in ("Component",):
            continue
        n += 1
        cfg = CFG(h.node)
        tcs = [x for x in calls(h.node, "try_connect") if isinstance(x.func, ast.Attribute) and self_attr(x.func)]
        nodes = [cfg.node_of(x) for x in tcs]
        ok = bool(nodes) and not cfg.reachable(cfg.entry, cfg.exit, avoid=nodes)
        sink.check(ok, "R10b", f"must-connect:{c.name}", h,
                   ok="every non-raising path of _connect reaches self.try_connect(...)",
                   bad="a path through _connect never calls try_connect: status stays CONNECTING, the stall test sees progress forever (hang)")
        for x in tcs:
            a0 = x.args[0] if x.args else next((k.value for k in x.keywords if k.arg == "start_time"), None)
            p0 = h.params[0] if h.params else None
            sink.check(isinstance(a0, ast.Name) and a0.id == p0, "R10b", f"start-time-forwarded:{c.name}", h,
                       ok="try_connect receives the composition start time", bad="try_connect does not receive _connect's start_time")
    sink.floor("R10b", "_connect hooks", n, 14)


# ========================================================================== R06s
def r06s_start_time(repo, sink):
    """The composition start time is the earliest start of its time components (initial data
    is published for it, initial pulls ask for it)."""
    from ..absbase import FinamInterp, Order
    f = repo.func("src/finam/schedule.py", "_get_start_time")
    import itertools
    worst = None
    n = 0
    for ranks in itertools.permutations((1, 2, 3)):
        for none_at in (None, 0, 1, 2):
            n += 1
            od = Order()
            comps = []
            times = []
            for i, r in enumerate(ranks):
                t = None if none_at == i else Sym("start", i)
                if t is not None:
                    od.name(t, f"s{i}", r)
                    times.append((r, t))
                o = Obj(label=f"C{i}", markers={"component"})
                o.fields.update(time=t, name=f"C{i}")
                comps.append(o)
            it = FinamInterp(repo, od)
            try:
                got = it.run(f, [comps])
            except Raised as r:
                got = ("raise", r.name)
            want = min(times)[1] if times else ("raise", "ValueError")
            if got != want:
                worst = worst or f"component start times ranked {ranks} ({'one unset' if none_at is not None else 'all set'}): returns {got!r}, the earliest is {want!r}"
    it = FinamInterp(repo, Order())
    o = Obj(label="C", markers={"component"})
    o.fields.update(time=None, name="C")
    try:
        it.run(f, [[o]])
        worst = worst or "no component has a start time and no error is raised"
    except Raised as r:
        if r.name != "ValueError":
            worst = worst or f"raises {r.name}"
    sink.check(worst is None, "R06", "composition-start-time", f, ok=f"{n} cases: the earliest component start is taken, unset times are skipped", bad=worst or "")
