"""R35x - the regridding adapters end to end: constructor (partial evaluation), linking through the
real `source` setter, the public get_info() with the real metadata exchange, grid set-up and the
data path (_get_data, the SDK's documented hook), all run abstractly.  Only externals (numpy, scipy,
pyproj) and the public finam.data.tools functions are modelled; no private method or attribute of
the adapters is named, so the rule follows any re-organisation of their bodies.

Every array-valued ingredient carries its provenance (which grid's points / order / shape, which
mask).  Decided on the resulting terms:
  * the upstream request carries the adapter's own input grid and no mask;
  * a user-given output grid that differs from the requested one is refused, missing grid / mask
    specifications are refused, a CRS on one side only is refused;
  * the delivered info is the source's info with output grid and output mask;
  * the search tree / interpolator is built over the points of the *delivered* source grid (minus
    the cells of the source mask, flattened in that grid's order) and queried at the points of the
    output grid (minus the output mask, in its order, CRS-transformed output->input);
  * pulled data is flattened in the delivered source grid's order and the result expanded with the
    output grid's shape / order and the announced output mask."""
from __future__ import annotations

import ast

from ..absbase import FinamInterp, Logger
from ..interp import Closure, Obj, Raised, Sym, Undecided
from ..loader import AnalysisError, Class
from .exchange import ExchMixin, XInfo, _adapter, xinfo

NOMASK = Sym("nomask")


def grid(name, crs=None, dim=2):
    g = Obj(label="grid", markers={"grid"})
    g.fields.update(gname=name, data_points=Sym("PTS", name), order=Sym("ORDER", name), data_shape=Sym("SHAPE", name),
                    data_axes=Sym("AXES", name), dim=dim, crs=crs)
    return g


class _Interp(Obj):
    pass


class RX(ExchMixin, FinamInterp):
    def __init__(self, repo, structured=False, different=(), masks_compatible=True, outliers=False, sub_mask=True, masked_data=True):
        super().__init__(repo)
        self._exch_state()
        self.structured = structured
        self.different = [frozenset(map(id, p)) for p in different]  # pairs of grids that compare unequal although compatible
        self.masks_ok, self.outliers, self.sub_mask, self.masked_data = masks_compatible, outliers, sub_mask, masked_data
        self.trees, self.queries, self.interps, self.evals, self.fills, self.pulls, self.mask_checks = [], [], [], [], [], [], []
        self.grid_writes = []

    # ----- values
    def get_attr(self, obj, attr, node, mod):
        if isinstance(obj, Obj) and "grid" in obj.markers:
            if attr in obj.fields:
                return obj.fields[attr]
            raise AnalysisError(f"grid attribute .{attr} not in vocabulary")
        if isinstance(obj, _Interp):
            if attr in obj.fields:
                return obj.fields[attr]
            return Sym("interp_attr", obj.fields["points"], attr)  # (triangulation, grid ... of the scipy object: an uninterpreted term)
        if isinstance(obj, Sym) and obj.op == "ext":
            if obj.args[0] in ("np.ma", "numpy.ma") and attr == "nomask":
                return NOMASK
            return super().get_attr(obj, attr, node, mod)
        if isinstance(obj, Sym) and obj.op == "CRS" and attr in ("to_epsg", "to_authority"):
            return Sym("method", obj, attr)
        if isinstance(obj, Sym) and obj.op not in ("enum",):
            if attr in ("ravel", "query", "flatten", "reshape", "itransform", "transform"):
                return Sym("method", obj, attr)
            if attr == "magnitude":
                return Sym("magnitude", obj)
            if obj.op == "interp_attr":
                return Sym("interp_attr", obj, attr)
        return super().get_attr(obj, attr, node, mod)

    def attr(self, base, attr, node, mod):
        if isinstance(base, Class) and base.name == "Mask" and attr in ("FLEX", "NONE"):
            return Sym("enum", "Mask", attr)
        return super().attr(base, attr, node, mod)

    def set_attr(self, obj, attr, value, node):
        if isinstance(obj, _Interp):
            obj.fields[attr] = value
            return None
        return super().set_attr(obj, attr, value, node)

    def e_Slice(self, e, env, mod):
        return Sym("slice", *(self.eval(x, env, mod) if x is not None else None for x in (e.lower, e.upper, e.step)))

    def set_item(self, c, k, v, node):
        if isinstance(c, Sym):
            self.fills.append((c, k, v))
            if c.op in ("PTS", "AXES"):
                self.grid_writes.append((c, k, v))  # the array IS the grid's own (np.asarray does not copy)
            return None
        return super().set_item(c, k, v, node)

    def sym_item(self, c, k, node):
        if isinstance(c, Sym):
            return Sym("select", c, k)
        return super().sym_item(c, k, node)

    def unpack(self, v, n, node):
        if isinstance(v, Sym) and v.op == "query" and n == 2:
            return [Sym("select", v, 0), Sym("select", v, 1)]  # (distances, ids) of a tree query
        return super().unpack(v, n, node)

    def decide(self, cond, node):
        if isinstance(cond, Sym) and cond.op in ("M", "CRSDEF", "CRS", "transformer", "PTS"):
            return True
        return super().decide(cond, node)

    def obj_truth(self, v, node):
        if isinstance(v, Obj) and "grid" in v.markers:
            return True
        return super().obj_truth(v, node)

    def compare(self, op, left, right, node):
        if isinstance(op, (ast.Is, ast.IsNot)):
            same = left is right or (isinstance(left, Sym) and isinstance(right, Sym) and left == right) or (left is None and right is None)
            return same if isinstance(op, ast.Is) else not same
        if isinstance(op, (ast.Eq, ast.NotEq)):
            lg, rg = (isinstance(x, Obj) and "grid" in x.markers for x in (left, right))
            if lg and rg:
                eq = left is right or (left.fields["gname"] == right.fields["gname"] and frozenset((id(left), id(right))) not in self.different)
                return eq if isinstance(op, ast.Eq) else not eq
            if lg or rg:
                return isinstance(op, ast.NotEq)
            if all(isinstance(x, Sym) and x.op in ("CRS", "M", "nomask") for x in (left, right)):
                return (left == right) if isinstance(op, ast.Eq) else (left != right)
        return super().compare(op, left, right, node)

    def isinstance(self, v, klass, node):
        if isinstance(klass, Class) and klass.name in ("StructuredGrid", "Grid", "GridBase") and isinstance(v, Obj) and "grid" in v.markers:
            return self.structured if klass.name == "StructuredGrid" else True
        return super().isinstance(v, klass, node)

    def builtin(self, name, args, kwargs, node):
        if name == "len" and args and isinstance(args[0], Sym):
            return Sym("len", args[0])
        if name == "list" and args and isinstance(args[0], Sym):
            return args[0]
        if name == "bool" and args and isinstance(args[0], bool):
            return args[0]
        return super().builtin(name, args, kwargs, node)

    # ----- externals
    def ext_call(self, name, args, kwargs, node):
        short = name.split(".")[-1]
        if short == "logical_not":
            return Sym("logical_not", args[0])
        if short == "KDTree":
            t = Sym("tree", args[0])
            self.trees.append(args[0])
            return t
        if short in ("asarray", "ascontiguousarray", "array") and args and isinstance(args[0], Sym):
            return args[0]
        if short in ("zeros", "isnan"):
            return Sym(short, *args)
        if short == "make_mask":
            return Sym("make_mask", args[0])
        if short == "any":
            return self.outliers
        if short == "CRS":
            return Sym("CRS", args[0])
        if short == "from_crs":
            return Sym("transformer", args[0], args[1])
        if short in ("RegularGridInterpolator", "LinearNDInterpolator"):
            o = _Interp(label="interp")
            pts = kwargs.get("points", args[0] if args else None)
            o.fields.update(points=pts, values=kwargs.get("values", args[1] if len(args) > 1 else None), kind=short)
            self.interps.append(o)
            return o
        if name.split(".")[0] in ("np", "numpy") and any(isinstance(a, Sym) for a in args):
            # any other numpy function of array terms: an uninterpreted term (the rule compares terms, so arithmetic on
            # coordinates or data shows up as a different term)
            return Sym(short, *args, *[Sym("kw", k, v) for k, v in sorted(kwargs.items())])
        return super().ext_call(name, args, kwargs, node)

    def binop(self, op, left, right, node):
        if any(isinstance(x, Sym) and x.op not in ("enum",) for x in (left, right)) and not isinstance(left, (str, list, tuple, dict)):
            return Sym(type(op).__name__.lower(), left, right)
        return super().binop(op, left, right, node)

    def call_hook(self, fv, args, kwargs, node, mod):
        if isinstance(fv, _Interp):
            self.evals.append((fv, fv.fields["values"], args[0]))
            return Sym("interp", fv.fields["points"], fv.fields["values"], args[0])
        if isinstance(fv, Sym) and fv.op == "method":
            recv, meth = fv.args
            kw = tuple(sorted(kwargs.items()))
            if meth in ("to_epsg", "to_authority"):
                return None  # a custom system (proj4 / WKT definition) has no EPSG code
            if meth == "query":
                self.queries.append((recv, args[0]))
                return Sym("query", recv, args[0])
            if meth == "itransform":
                return Sym("crs", recv, args[0])
            if meth == "transform":
                return tuple(Sym("crs_coord", recv, i, *args) for i in range(len(args)))  # one transformed array per coordinate
            return Sym(meth, recv, *args, *[Sym("kw", k, v) for k, v in kw])
        if isinstance(fv, Closure):
            n = getattr(fv.func, "name", "")
            # the public API of finam.data.tools (decided by R33c / R37) and of the SDK
            if n == "to_compressed":
                return Sym("tc", args[0], kwargs.get("order", args[1] if len(args) > 1 else "C"), kwargs.get("mask"))
            if n == "from_compressed":
                return Sym("fc", args[0], kwargs.get("shape", args[1] if len(args) > 1 else None),
                           kwargs.get("order", args[2] if len(args) > 2 else "C"), kwargs.get("mask", args[3] if len(args) > 3 else None))
            if n == "masks_compatible":
                self.mask_checks.append(tuple(args))
                return self.masks_ok
            if n == "mask_specified":
                return not (args[0] is None or (isinstance(args[0], Sym) and args[0].op == "enum"))
            if n == "is_masked_array":
                return self.masked_data
            if n == "is_sub_mask":
                return self.sub_mask
            if n == "pull_data" and fv.self_obj is not None:
                v = Sym("pulled", args[0], args[1] if len(args) > 1 else kwargs.get("target"))
                self.pulls.append(v)
                return v
        return super().call_hook(fv, args, kwargs, node, mod)


def has(v, pred):
    if pred(v):
        return True
    if isinstance(v, Sym):
        return any(has(a, pred) for a in v.args)
    if isinstance(v, (tuple, list)):
        return any(has(a, pred) for a in v)
    return False


def of(op, name):
    return lambda v: isinstance(v, Sym) and v.op == op and v.args and v.args[0] == name


def find_all(v, op, acc=None):
    acc = [] if acc is None else acc
    if isinstance(v, Sym):
        if v.op == op:
            acc.append(v)
        for a in v.args:
            find_all(a, op, acc)
    elif isinstance(v, (tuple, list)):
        for a in v:
            find_all(a, op, acc)
    return acc


def exchange(repo, cname, ctor, req, delivered, it=None, **script):
    """Constructor, link, public get_info.  Returns (interp, adapter, outcome) with outcome ('ret', info) | ('raise', name).
    With `it` given the adapter lives in the same process as earlier ones (module-level state is shared)."""
    cls = repo.cls(cname)
    if it is None:
        it = RX(repo, **script)
    else:
        it.trees, it.queries, it.interps, it.evals, it.fills, it.pulls, it.mask_checks, it.grid_writes = [], [], [], [], [], [], [], []
        it.requests = []
    ad = _adapter(repo, cls, linked=True, ctor=ctor)
    it.delivered = delivered
    f = repo.resolve(cls, "get_info", "method")
    try:
        got = ("ret", it.run(f, [req], self_obj=ad))
    except Raised as r:
        got = ("raise", r.name)
    return it, ad, got


def _coords_ok(term, gname, mask, transformed):
    """term = points of grid `gname`, optionally minus `mask` flattened in that grid's order, optionally CRS-transformed."""
    want = Sym("PTS", gname)
    if mask is not None:
        want = Sym("select", want, Sym("logical_not", Sym("ravel", mask, Sym("kw", "order", Sym("ORDER", gname)))))
    if transformed is not None:
        want = Sym("crs", transformed, want)
    return term == want, want


def r35x(repo, sink):
    for cname in ("RegridNearest", "RegridLinear"):
        if not repo.has_cls(cname):
            raise AnalysisError(f"{cname} not found")
    base = repo.cls("ARegridding")
    gi = repo.resolve(base, "_get_info", "method")
    M_src, M_req, M_user = Sym("M", "src"), Sym("M", "req"), Sym("M", "user")

    def infos(req_grid="req", src_grid="src", req_mask=M_req, src_mask=M_src, req_crs=None, src_crs=None):
        gq = grid(req_grid, req_crs) if req_grid else None
        gs = grid(src_grid, src_crs) if src_grid else None
        return (xinfo("req", gq, Sym("T", "req"), Sym("U", "req"), mask=req_mask),
                xinfo("src", gs, Sym("T", "src"), Sym("U", "src"), mask=src_mask, extra={"extra": Sym("X", "src")}), gq, gs)

    for cname in ("RegridNearest", "RegridLinear"):
        cls = repo.cls(cname)
        gd = repo.resolve(cls, "_get_data", "method")
        key = lambda k: f"{k}:{cname}"  # noqa: E731
        try:
            # ---------------------------------------------------------------- refusals
            table = []
            req, src, gq, gs = infos()
            g_user = grid("user-out")
            table.append(("user-given output grid differs from the requested grid", {"out_grid": g_user}, req, src, {}, "FinamMetaDataError"))
            req, src, gq, gs = infos(req_grid=None)
            table.append(("no output grid anywhere", {}, req, src, {}, "FinamMetaDataError"))
            req, src, gq, gs = infos(src_grid=None)
            table.append(("no source grid anywhere", {}, req, src, {}, "FinamMetaDataError"))
            req, src, gq, gs = infos(req_mask=None)
            table.append(("no output mask anywhere", {}, req, src, {}, "FinamMetaDataError"))
            req, src, gq, gs = infos(src_mask=None)
            table.append(("no source mask anywhere", {}, req, src, {}, "FinamMetaDataError"))
            req, src, gq, gs = infos(req_crs=Sym("CRSDEF", "req"))
            table.append(("CRS on the output grid only", {}, req, src, {}, "FinamMetaDataError"))
            req, src, gq, gs = infos(src_crs=Sym("CRSDEF", "src"))
            table.append(("CRS on the source grid only", {}, req, src, {}, "FinamMetaDataError"))
            req, src, gq, gs = infos()
            table.append(("user-given output mask incompatible with the requested mask", {"out_mask": M_user}, req, src, {"masks_compatible": False}, "FinamMetaDataError"))
            worst = None
            for name, ctor, req, src, script, want in table:
                it, ad, got = exchange(repo, cname, ctor, req, src, **script)
                if got != ("raise", want):
                    worst = worst or f"{name}: get_info " + ("succeeds" if got[0] == "ret" else f"raises {got[1]}") + f", must raise {want}"
            sink.check(worst is None, "R35", key("refusals"), gi,
                       ok="differing output grid, missing grid / mask specifications, one-sided CRS and incompatible output masks are refused",
                       bad=worst or "")
            # ---------------------------------------------------------------- the regular exchange, all specs from the neighbours
            for masked in (True, False):
                for crs in (False, True):
                    for structured in ((False, True) if cname == "RegridLinear" and not masked else (False,)):
                        _regular(repo, sink, cname, gi, gd, key, infos, masked, crs, structured)
            # ---------------------------------------------------------------- linear with nearest filling outside the hull
            if cname == "RegridLinear":
                for masked, structured in ((True, False), (False, True), (False, False)):
                    _regular(repo, sink, cname, gi, gd, key, infos, masked, False, structured, fill=True)
            # ---------------------------------------------------------------- own input grid: compatible but laid out differently
            req, src, gq, gs = infos(src_grid="src")
            g_own = grid("src")  # same geometry (compatible), another layout: compares unequal
            g_own.fields.update(data_points=Sym("PTS", "own-in"), order=Sym("ORDER", "own-in"), data_shape=Sym("SHAPE", "own-in"), data_axes=Sym("AXES", "own-in"))
            it, ad, got = exchange(repo, cname, {"in_grid": g_own}, req, src, different=[(g_own, gs)])
            up = it.requests[0] if it.requests else None
            if got[0] == "raise":
                sink.check(got[1] == "FinamMetaDataError", "R35", key("own-input-grid"), gi, ok="a user-given input grid in another layout than the delivered one is refused",
                           bad=f"user-given input grid: get_info raises {got[1]}")
            elif not isinstance(up, XInfo) or up.fields["grid"] is not g_own:
                sink.bad("R35", key("own-input-grid"), gi, f"the upstream request carries grid {getattr(up, 'fields', {}).get('grid')!r} instead of the user-given input grid")
            else:
                sink.ok("R35", key("own-input-grid"), gi, "the user-given input grid is requested upstream")
                _data_path(repo, sink, cname, it, ad, gd, key, "own-input-grid", "src", M_src, "req", got[1].fields["mask"], None, own="own-in")
            # ---------------------------------------------------------------- own output grid / mask, request leaves them open or agrees
            req, src, gq, gs = infos(req_grid=None, req_mask=None)
            g_user = grid("user-out")
            it, ad, got = exchange(repo, cname, {"out_grid": g_user, "out_mask": M_user}, req, src)
            ok = got[0] == "ret" and isinstance(got[1], XInfo) and got[1].fields["grid"] is g_user and (got[1].fields["mask"] == M_user or cname == "RegridLinear")
            sink.check(ok, "R35", key("own-output-spec"), gi, ok="user-given output grid and mask are announced when the consumer leaves them open",
                       bad=f"user-given output grid / mask with an open request: get_info gives {got!r} with grid "
                           f"{got[1].fields['grid'] if got[0] == 'ret' and isinstance(got[1], XInfo) else None!r}")
            if ok:
                _data_path(repo, sink, cname, it, ad, gd, key, "own-output-spec", "src", M_src, "user-out", got[1].fields["mask"], None)
            # ---------------------------------------------------------------- two regridders in one process, custom systems (no EPSG codes)
            req, src, gq, gs = infos(req_mask=NOMASK, src_mask=NOMASK, req_crs=Sym("CRSDEF", "req"), src_crs=Sym("CRSDEF", "src"))
            it, ad, got = exchange(repo, cname, {}, req, src)
            req, src, gq, gs = infos(req_mask=NOMASK, src_mask=NOMASK, req_crs=Sym("CRSDEF", "req"), src_crs=Sym("CRSDEF", "src-b"))
            it, ad2, got2 = exchange(repo, cname, {}, req, src, it=it)
            if got[0] == "ret" and got2[0] == "ret":
                tr_b = Sym("transformer", Sym("CRS", Sym("CRSDEF", "req")), Sym("CRS", Sym("CRSDEF", "src-b")))
                _data_path(repo, sink, cname, it, ad2, gd, key, "second-regridder-other-custom-crs", "src", None, "req", None, tr_b)
            # ---------------------------------------------------------------- a second target whose equal grid is laid out differently
            req, src, gq, gs = infos(req_mask=NOMASK, src_mask=NOMASK)
            it, ad, got = exchange(repo, cname, {}, req, src)
            if got[0] == "ret" and isinstance(got[1], XInfo):
                g2 = grid("req")  # compares equal to the first target's grid (equality ignores the flattening order)
                g2.fields.update(data_points=Sym("PTS", "req-2"), order=Sym("ORDER", "req-2"), data_shape=Sym("SHAPE", "req-2"), data_axes=Sym("AXES", "req-2"))
                req2 = xinfo("req2", g2, Sym("T", "req"), Sym("U", "req"), mask=NOMASK)
                f_gi = repo.resolve(cls, "get_info", "method")
                try:
                    got2 = ("ret", it.run(f_gi, [req2], self_obj=ad))
                except Raised as r:
                    got2 = ("raise", r.name)
                if got2[0] == "raise":
                    sink.check(got2[1] == "FinamMetaDataError", "R35", key("second-target"), gi, ok="a second target with an equal grid in another layout is refused",
                               bad=f"second target: get_info raises {got2[1]}")
                else:
                    g_ann = got2[1].fields.get("grid") if isinstance(got2[1], XInfo) else None
                    lay = lambda g: g.fields.get("order") if isinstance(g, Obj) else None  # noqa: E731
                    if lay(g_ann) != lay(got[1].fields["grid"]):
                        sink.bad("R35", key("second-target"), gi, f"one adapter serves both targets with one array, but the first target is told a grid flattened in "
                                 f"{lay(got[1].fields['grid'])!r} and the second one in {lay(g_ann)!r} (equal grids may differ in their order): one of them reads the values at wrong locations")
                    else:
                        sink.ok("R35", key("second-target"), gi, "a second target with an equal grid in another layout is told the layout the set-up was made for")
                        _data_path(repo, sink, cname, it, ad, gd, key, "second-target", "src", None, "req", None, None)
            # ---------------------------------------------------------------- same grid on both sides, masked source, unmasked target
            NONE_ = Sym("enum", "Mask", "NONE")
            req, src, gq, gs = infos(req_mask=NONE_)
            req.fields["grid"] = gs
            it, ad, got = exchange(repo, cname, {}, req, src)
            if cname == "RegridNearest":
                if got[0] != "ret":
                    sink.bad("R35", key("same-grid-masked-source"), gi, f"same grid on both sides, masked source, unmasked target: get_info ends in {got!r}")
                else:
                    # the nearest unmasked source cell must still be looked up: tree over the unmasked source cells, queried at all cells
                    _data_path(repo, sink, cname, it, ad, gd, key, "same-grid-masked-source", "src", M_src, "src", None, None, announced=NONE_)
            # ---------------------------------------------------------------- masked payload although the source declared no mask
            FLEX = Sym("enum", "Mask", "FLEX")
            req, src, gq, gs = infos(src_mask=FLEX, req_mask=NONE_ if cname == "RegridNearest" else FLEX)
            it, ad, got = exchange(repo, cname, {}, req, src, masked_data=True)
            if got[0] != "ret":
                sink.unknown("R35", key("undeclared-mask"), gd, f"exchange with a flexible source mask ends in {got!r}")
            else:
                try:
                    it.run(gd, [Sym("t"), Sym("target")], self_obj=ad)
                    sink.bad("R35", key("undeclared-mask"), gd, "masked data from a source that declared no mask is regridded: the masked cells take part "
                             "in the interpolation (their coordinates were never removed)")
                except Raised as r:
                    sink.check(r.name == "FinamDataError", "R35", key("undeclared-mask"), gd, ok="masked data without a declared source mask is refused",
                               bad=f"masked data without a declared mask: _get_data raises {r.name}")
            # ---------------------------------------------------------------- the same, but the first delivery was plain data
            it, ad, got = exchange(repo, cname, {}, req, src, masked_data=False)
            if got[0] == "ret":
                try:
                    it.run(gd, [Sym("t"), Sym("target")], self_obj=ad)
                    it.masked_data = True
                    it.pulls, it.fills, it.evals = [], [], []
                    try:
                        it.run(gd, [Sym("t2"), Sym("target")], self_obj=ad)
                        sink.bad("R35", key("undeclared-mask-later"), gd, "a source that declared no mask delivers plain data first and a masked array later: the later "
                                 "delivery is regridded although the masked cells were never removed from the set-up (compressed values shift against the stored indices)")
                    except Raised as r:
                        sink.check(r.name == "FinamDataError", "R35", key("undeclared-mask-later"), gd, ok="masked data without a declared source mask is refused at every delivery",
                                   bad=f"a later masked delivery: _get_data raises {r.name}")
                except Raised as r:
                    sink.bad("R35", key("undeclared-mask-later"), gd, f"plain data from a source with a flexible mask: _get_data raises {r.name}")
        except (Undecided, AnalysisError) as exc:
            sink.unknown("R35", key("end-to-end"), gi, f"outside vocabulary: {exc}")


def _data_path(repo, sink, cname, it, ad, gd, key, tag, src, src_mask, out, out_mask, transformer, own=None, announced=None, fill=False):
    """Set-up terms recorded during get_info, then one abstract _get_data."""
    why = None
    announced = out_mask if announced is None else announced
    if it.grid_writes:
        c, k, v = it.grid_writes[0]
        why = (f"the set-up writes into the coordinates of a grid ({c!r}[{k!r}] = {v!r}): the array belongs to the grid object (np.asarray does not "
               "copy), which afterwards describes other locations - a second use of the same grid (another adapter, a second call) regrids to wrong places")
    # where the source coordinates come from
    def src_side(term):
        if own is not None and has(term, lambda v: isinstance(v, Sym) and v.op in ("PTS", "ORDER", "SHAPE", "AXES") and v.args[0] == own):
            return (f"is built from the user-given input grid ({term!r}) although the data arrives in the layout of the delivered grid: "
                    "same geometry in another layout silently misplaces values")
        return None

    for t in it.trees:
        ok, want = _coords_ok(t, src, src_mask, None)
        why = why or src_side(t)
        if not ok and why is None:
            why = f"the search tree is built over {t!r}, expected {want!r}"
    for o in it.interps:
        pts = o.fields["points"]
        why = why or src_side(pts)
        if why is None and o.fields["kind"] == "LinearNDInterpolator":
            ok, want = _coords_ok(pts, src, src_mask, None)
            if not ok:
                why = f"the interpolator is built over {pts!r}, expected {want!r}"
        if why is None and o.fields["kind"] == "RegularGridInterpolator" and pts != Sym("AXES", src):
            why = f"the structured interpolator is built over {pts!r}, expected the data axes of the delivered grid"
    if cname == "RegridNearest" and len(it.trees) != 1:
        why = why or f"{len(it.trees)} search trees are built during the exchange"
    if cname == "RegridLinear" and not it.interps:
        why = why or "no interpolator is built during the exchange"
    outc_ok = lambda term: _coords_ok(term, out, out_mask, transformer)  # noqa: E731
    for tree, q in it.queries:
        if cname == "RegridNearest":
            ok, want = outc_ok(q)
            if not ok:
                why = why or f"the tree is queried at {q!r}, expected {want!r}"
    if cname == "RegridNearest" and len(it.queries) != 1:
        why = why or f"the tree is queried {len(it.queries)} times"
    if fill and why is None:
        # the targets the interpolation cannot reach are filled from the nearest of ALL (unmasked) source locations
        oc_ok, oc_want = outc_ok(it.evals[0][2]) if it.evals else (False, None)
        if len(it.trees) != 1 or len(it.queries) != 1:
            why = f"nearest filling: {len(it.trees)} search trees built, {len(it.queries)} queries (one of each expected)"
        elif not it.evals or not oc_ok:
            why = f"nearest filling: the interpolator is probed at {it.evals[0][2] if it.evals else None!r}, expected the output coordinates {oc_want!r}"
        else:
            q = it.queries[0][1]
            probe = Sym("interp", it.evals[0][0].fields["points"], it.evals[0][1], it.evals[0][2])
            want_q = Sym("select", oc_want, Sym("isnan", probe))
            if q != want_q:
                why = f"nearest filling: the tree is queried at {q!r}, expected the output coordinates the interpolation leaves undefined, {want_q!r}"
    sink.check(why is None, "R35", key(f"setup:{tag}"), gd,
               ok="tree / interpolator over the delivered source grid's points (source mask and order applied), queried at the output grid's points",
               bad=why or "")
    if why is not None:
        return
    it.fills, it.evals = [], []
    try:
        got = it.run(gd, [Sym("t"), Sym("target")], self_obj=ad)
    except Raised as r:
        sink.bad("R35", key(f"data:{tag}"), gd, f"_get_data raises {r.name} after a successful exchange")
        return
    why = None
    if not (isinstance(got, Sym) and got.op == "fc"):
        why = f"_get_data returns {got!r}: not an expansion by from_compressed"
    else:
        _res, shape, order, mask = got.args
        if shape != Sym("SHAPE", out) or order != Sym("ORDER", out):
            why = f"the result is expanded with shape {shape!r} / order {order!r}, the output grid has SHAPE({out}) / ORDER({out})"
        elif announced is not None and mask != announced:
            why = f"the result is expanded with mask {mask!r}, the announced output mask is {announced!r}"
        elif len(it.pulls) != 1 or it.pulls[0] != Sym("pulled", Sym("t"), Sym("target")):
            why = f"the source is pulled {it.pulls!r}, expected once with the request time and the target"
    everything = [got] + [x for f in it.fills for x in f] + [x for e in it.evals for x in e[1:]]
    if why is None:
        for tc in find_all(everything, "tc") + find_all(everything, "flatten"):
            o = tc.args[1] if tc.op == "tc" else next((a.args[1] for a in tc.args[1:] if isinstance(a, Sym) and a.op == "kw" and a.args[0] == "order"), None)
            if o != Sym("ORDER", src):
                why = f"pulled data is flattened in order {o!r}; it arrives in the delivered grid's layout, ORDER({src})"
                break
    if why is None and not has(everything, lambda v: isinstance(v, Sym) and v.op == "pulled"):
        why = "the result does not depend on the pulled data"
    if why is None and cname == "RegridNearest":
        res = got.args[0]
        want_ids = Sym("select", Sym("query", Sym("tree", it.trees[0]), it.queries[0][1]), 1)
        want = Sym("select", Sym("tc", it.pulls[0], Sym("ORDER", src), None), want_ids)
        if res != want:
            why = f"nearest: the compressed result is {res!r}, expected {want!r}"
    sink.check(why is None, "R35", key(f"data:{tag}"), gd,
               ok="pulled data flattened in the delivered grid's order, result expanded with the output grid's shape / order and the announced mask",
               bad=why or "")


def _regular(repo, sink, cname, gi, gd, key, infos, masked, crs, structured, fill=False):
    """The regular exchange with all specifications taken from the neighbours, then the data path."""
    M_src, M_req = Sym("M", "src"), Sym("M", "req")
    ms, mq = (M_src, M_req) if masked else (NOMASK, NOMASK)
    req, src, gq, gs = infos(req_mask=mq, src_mask=ms, req_crs=Sym("CRSDEF", "req") if crs else None, src_crs=Sym("CRSDEF", "src") if crs else None)
    it, ad, got = exchange(repo, cname, {"fill_with_nearest": True} if fill else {}, req, src, structured=structured)
    tag2 = ("masked" if masked else "unmasked") + ("+crs" if crs else "") + ("+structured" if structured else "") + ("+fill" if fill else "")
    if got[0] != "ret" or not isinstance(got[1], XInfo):
        sink.bad("R35", key(f"exchange:{tag2}"), gi, f"regular exchange ({tag2}) ends in {got!r}")
        return
    out = got[1]
    why = None
    up = it.requests[0] if it.requests else None
    if len(it.requests) != 1 or not isinstance(up, XInfo):
        why = f"{len(it.requests)} requests reach the source"
    elif up.fields["grid"] is not None or up.fields["mask"] is not None:
        why = f"the upstream request carries grid {up.fields['grid']!r} and mask {up.fields['mask']!r}: without own input specification both must be left open"
    elif out.fields["grid"] is not gq:
        why = f"the delivered info has grid {out.fields['grid']!r}, not the output grid"
    elif cname == "RegridNearest" and out.fields["mask"] != mq:  # (the linear regridder's own choice of mask: decision table `linear-output-mask`)
        why = f"the delivered info has mask {out.fields['mask']!r}, the output mask is {mq!r}"
    elif out.fields["time"] != Sym("T", "src") or out.fields["meta"].get("units") != Sym("U", "src") or out.fields["meta"].get("extra") != Sym("X", "src"):
        why = "the delivered info does not carry the source's time / units / meta data"
    sink.check(why is None, "R35", key(f"exchange:{tag2}"), gi,
               ok="request without grid / mask upstream; delivers the source info with output grid and output mask", bad=why or "")
    if why is not None:
        return
    transformer = Sym("transformer", Sym("CRS", Sym("CRSDEF", "req")), Sym("CRS", Sym("CRSDEF", "src"))) if crs else None
    _data_path(repo, sink, cname, it, ad, gd, key, tag2, "src", ms if masked else None, "req", out.fields["mask"] if masked else None, transformer, fill=fill)


def r35x_linear_mask(repo, sink):
    """Decision table of the output mask announced by RegridLinear without nearest filling, end to end through get_info."""
    if not repo.has_cls("RegridLinear"):
        raise AnalysisError("RegridLinear not found")
    cls = repo.cls("RegridLinear")
    ug = repo.resolve(cls, "_update_grid_specs", "method")
    FLEX, NONE_, GIVEN = Sym("enum", "Mask", "FLEX"), Sym("enum", "Mask", "NONE"), Sym("M", "given")
    table = [
        ("no mask given, flexible mask requested", None, FLEX, True, True, "outliers"),
        ("flexible mask given and requested", FLEX, FLEX, True, True, "outliers"),
        ("unmasked result requested, hull covers the domain", NONE_, NONE_, False, True, NONE_),
        ("unmasked result requested, targets outside the hull", NONE_, NONE_, True, True, "FinamDataError"),
        ("explicit mask covering everything outside the hull", GIVEN, GIVEN, True, True, GIVEN),
        ("explicit mask leaving cells outside the hull unmasked", GIVEN, GIVEN, True, False, "FinamDataError"),
    ]
    worst = None
    try:
        for name, given, requested, outliers, sub, want in table:
            req = xinfo("req", grid("req"), Sym("T", "req"), Sym("U", "req"), mask=requested)
            src = xinfo("src", grid("src"), Sym("T", "src"), Sym("U", "src"), mask=Sym("M", "src"))
            it, ad, got = exchange(repo, "RegridLinear", {"out_mask": given, "fill_with_nearest": False}, req, src, outliers=outliers, sub_mask=sub)
            if got[0] == "raise":
                res = got[1]
            else:
                m = got[1].fields["mask"] if isinstance(got[1], XInfo) else got[1]
                res = "outliers" if isinstance(m, Sym) and m.op == "make_mask" and has(m, lambda v: isinstance(v, Sym) and v.op == "isnan") else m
            if res != want:
                worst = worst or f"{name}: the announced output mask is {res!r}, must be {want!r}"
    except (Undecided, AnalysisError) as exc:
        sink.unknown("R35", "linear-output-mask", ug, f"outside vocabulary: {exc}")
        return
    sink.check(worst is None, "R35", "linear-output-mask", ug,
               ok="linear regridding without filling: outliers are masked, an explicit / NONE mask is honoured or refused if it cannot be",
               bad=(worst or "") + ": masked target cells must stay masked / the announced mask must be the requested one")
