"""Spill rules: R22 PACK (typestate), R23 SPILLFREE (pairing), R24 SPILLFMT (writer/reader
agreement), R25 SPILLWIRE (wiring of limit/location, file naming)."""
from __future__ import annotations

import ast

from ..astq import U, call_name, calls, fn_walk, self_attr, stmt_key, walk
from ..cfg import CFG
from ..loader import AnalysisError, body_of

CONT, ELEM, PACKED, TIME, UNP = "CONT", "ELEM", "PACKED", "TIME", "UNPACKED"
NORET = "NORET"


# ------------------------------------------------------------------ containers
def spill_containers(repo):
    """{class name: {container attr}} for classes that append (t, self._pack(..))."""
    out = {}
    for c in repo.all_classes():
        for f in c.methods.values():
            packed_names, entry_names = set(), set()
            for n in fn_walk(f.node):
                if isinstance(n, ast.Assign) and _is_pack_call(n.value):
                    for t in n.targets:
                        if isinstance(t, ast.Name):
                            packed_names.add(t.id)

            def is_packed(x):
                return _is_pack_call(x) or (isinstance(x, ast.Name) and x.id in packed_names)

            def is_entry(e):
                if isinstance(e, ast.Tuple) and len(e.elts) == 2 and is_packed(e.elts[1]):
                    return True
                # a record type for the entries (`_Entry(time, self._pack(x))`): a named tuple / dataclass of the repository
                if isinstance(e, ast.Call) and isinstance(e.func, ast.Name) and len(e.args) + len(e.keywords) == 2 \
                        and any(is_packed(a) for a in list(e.args) + [k.value for k in e.keywords]):
                    names = _record_fields(repo, f, e.func.id)
                    if names is not None:
                        idx = next(i for i, a in enumerate(list(e.args) + [k.value for k in e.keywords]) if is_packed(a))
                        kw = [k.arg for k in e.keywords]
                        payload = names[idx] if idx < len(e.args) else kw[idx - len(e.args)]
                        PAYLOAD_FIELDS.setdefault(repo, set()).add(payload)
                        TIME_FIELDS.setdefault(repo, set()).update(n for n in names if n != payload)
                        return True
                return False

            for n in fn_walk(f.node):
                if isinstance(n, ast.Assign) and is_entry(n.value):  # entry = (time, self._pack(x))
                    entry_names |= {t.id for t in n.targets if isinstance(t, ast.Name)}
            for n in fn_walk(f.node):
                if (isinstance(n, ast.Call) and isinstance(n.func, ast.Attribute) and n.func.attr == "append"
                        and self_attr(n.func.value) and n.args):
                    a = n.args[0]
                    if is_entry(a) or (isinstance(a, ast.Name) and a.id in entry_names):
                        out.setdefault(c.name, {})[self_attr(n.func.value)] = (f, n)
    return out


import weakref  # noqa: E402

PAYLOAD_FIELDS = weakref.WeakKeyDictionary()  # repo -> names of the payload field of record-typed buffer entries
TIME_FIELDS = weakref.WeakKeyDictionary()


def _record_fields(repo, f, name):
    """Field names of a named tuple / dataclass of the repository called `name` in f's module (None if it is none)."""
    mod = f.module
    v = mod.consts.get(name)
    if isinstance(v, ast.Call) and call_name(v) == "namedtuple" and len(v.args) >= 2:
        a = v.args[1]
        if isinstance(a, (ast.List, ast.Tuple)) and all(isinstance(x, ast.Constant) and isinstance(x.value, str) for x in a.elts):
            return [x.value for x in a.elts]
        if isinstance(a, ast.Constant) and isinstance(a.value, str):
            return a.value.replace(",", " ").split()
    ent = repo.lookup(mod, name)
    if hasattr(ent, "ann_fields") and ent.ann_fields:
        return [n for n, _d in ent.ann_fields]
    return None


def _is_pack_call(e):
    return (isinstance(e, ast.Call) and isinstance(e.func, ast.Attribute)
            and self_attr(e.func) == "_pack")


def owners(repo):
    """[(class, container attr)] for every class that owns (directly or by inheritance) a
    spill container."""
    conts = spill_containers(repo)
    res = []
    for c in repo.all_classes():
        for k in repo.mro(c):
            if k.name in conts:
                for attr, (f, _n) in conts[k.name].items():
                    # the filling method must be the one this class really resolves to
                    # (adapters override Output.push_data and never fill Output's history)
                    if _entry_reaches(repo, c, f) and (c, attr) not in res:
                        res.append((c, attr))
    return conts, res


def _entry_reaches(repo, c, f):
    """f is executed for instances of class c: some public method c resolves to is f or reaches it through self. / super().
    calls (a helper inherited from a base class whose public caller is overridden is dead code for c)."""
    cache = repo.__dict__.setdefault("_entry_reaches", {})
    key = (c.name, f.qualname)
    if key not in cache:
        names = {n for k in repo.mro(c) for n in k.methods if not n.startswith("_")}
        cache[key] = any(_reaches(repo, c, repo.resolve(c, n, "method"), f) for n in sorted(names))
    return cache[key]


def _reaches(repo, c, g, f, depth=0):
    """Method g of concrete class c is f or calls it through self. / super(). calls."""
    from ..lek import _callee_of
    if g is None or depth > 3:
        return False
    if g is f:
        return True
    for n in fn_walk(g.node):
        if isinstance(n, ast.Call):
            _name, callee = _callee_of(repo, c, g, n)
            if callee is not None and callee is not g and _reaches(repo, c, callee, f, depth + 1):
                return True
    return False


def selector_summaries(repo):
    """Functions all of whose returns are parameters or conditional expressions over
    parameters: they hand one of their arguments through unchanged."""
    sel = {}
    for m in repo.modules.values():
        for f in m.funcs.values():
            params = set(f.params)
            rets = [r.value for r in fn_walk(f.node) if isinstance(r, ast.Return)]

            def is_sel(e):
                if isinstance(e, ast.Name):
                    return e.id in params
                if isinstance(e, ast.IfExp):
                    return is_sel(e.body) and is_sel(e.orelse)
                return False

            if rets and all(r is not None and is_sel(r) for r in rets):
                picked = set()
                for r in rets:
                    for n in ast.walk(r):
                        if isinstance(n, ast.Name) and n.id in params and not _only_in_test(n, r):
                            picked.add(n.id)
                sel[f.name] = [i for i, p in enumerate(f.params) if p in picked]
    return sel


def _only_in_test(name, root):
    cur = name
    while cur is not root:
        p = getattr(cur, "_parent", None)
        if isinstance(p, ast.IfExp) and p.test is cur:
            return True
        if p is None:
            break
        cur = p
    return False


# ------------------------------------------------------------------------- R22
class _Pack:
    def __init__(self, repo, cls, cont, sink, selectors):
        self.repo, self.cls, self.cont, self.sink, self.sel = repo, cls, cont, sink, selectors
        self.reads = 0
        self.viol = []

    def ev(self, e, env, f, depth):
        if e is None:
            return None
        if isinstance(e, ast.Attribute) and self_attr(e) == self.cont:
            return CONT
        if isinstance(e, ast.Name):
            return env.get(e.id)
        if isinstance(e, ast.Attribute) and not self_attr(e):
            b = self.ev(e.value, env, f, depth)
            if b == ELEM:
                if e.attr in PAYLOAD_FIELDS.get(self.repo, ()):
                    self.reads += 1
                    return PACKED
                if e.attr in TIME_FIELDS.get(self.repo, ()):
                    return TIME
            return None
        if isinstance(e, ast.Subscript):
            b = self.ev(e.value, env, f, depth)
            if b == CONT:
                if isinstance(e.slice, ast.Slice):
                    return CONT
                self.ev(e.slice, env, f, depth)
                return ELEM
            if b == ELEM:
                idx = e.slice.value if isinstance(e.slice, ast.Constant) else None
                if idx == 1:
                    self.reads += 1
                    return PACKED
                if idx == 0:
                    return TIME
            return None
        if isinstance(e, ast.Call):
            fn = e.func
            name = call_name(e)
            if isinstance(fn, ast.Attribute) and self_attr(fn) == "_unpack":
                for a in e.args:
                    self.ev(a, env, f, depth)
                return UNP
            if isinstance(fn, ast.Attribute) and fn.attr == "pop" and self.ev(fn.value, env, f, depth) == CONT:
                return ELEM
            if isinstance(fn, ast.Name) and fn.id in ("enumerate",) and e.args and self.ev(e.args[0], env, f, depth) == CONT:
                return ("ENUM", ELEM)
            if isinstance(fn, ast.Name) and fn.id in ("reversed", "list", "iter", "sorted", "tuple") and e.args and self.ev(e.args[0], env, f, depth) == CONT:
                return CONT
            if isinstance(fn, ast.Name) and fn.id in ("isinstance", "len", "id", "type"):
                return None
            if U(fn) in ("os.remove", "os.unlink"):
                return None
            tags = [self.ev(a, env, f, depth) for a in e.args]
            ktags = [self.ev(k.value, env, f, depth) for k in e.keywords]
            if name in self.sel and isinstance(fn, (ast.Name, ast.Attribute)) and not (isinstance(fn, ast.Attribute) and self_attr(fn)):
                picked = [tags[i] for i in self.sel[name] if i < len(tags)]
                return PACKED if PACKED in picked else None
            callee = None
            if isinstance(fn, ast.Attribute) and self_attr(fn):
                callee = self.repo.resolve(self.cls, self_attr(fn), "method")
            elif isinstance(fn, ast.Attribute) and isinstance(fn.value, (ast.Attribute, ast.Name)):
                # a method of a private helper object (`self._memory.release(x)`, or `memory = self._memory; memory.release(x)`)
                helper = self._helper_class(fn.value, f)
                if helper is not None:
                    callee = self.repo.resolve(helper, fn.attr, "method")
            elif isinstance(fn, ast.Name):
                # a helper function of the repository: its body is analysed with the tags bound to its parameters
                callee = self._module_func(f, fn.id)
            if callee is not None and depth < 5 and (PACKED in tags + ktags or self._touches(callee)):
                env2 = dict(zip(callee.params, tags))
                for k, tg in zip(e.keywords, ktags):
                    if k.arg:
                        env2[k.arg] = tg
                before = len(self.viol)
                reads = self.reads
                ret = self.run(body_of(callee.node), env2, callee, depth + 1)
                self.reads = reads  # reads inside a helper are counted where the helper itself is analysed
                return (None if ret is NORET else ret) if len(self.viol) == before else None
            if isinstance(fn, ast.Name) and fn.id.startswith("_") and self.repo.has_cls(fn.id):
                # wrapping an entry in a private helper class of the repository (`_SpillFile(d)`) does not open it:
                # the wrapper is still the packed entry (its own methods are outside this typestate; the abstract
                # runs of R21 / R23 / R24 decide, or fail to recognise, what they do with the file)
                return PACKED if PACKED in tags + ktags else None
            for a, tg in zip(list(e.args) + [k.value for k in e.keywords], tags + ktags):
                if tg == PACKED:
                    self.viol.append((f, e, f"packed buffer entry (possibly a spill-file name) passed to {U(fn)}()"))
            return None
        if isinstance(e, ast.BinOp):
            for side in (e.left, e.right):
                if self.ev(side, env, f, depth) == PACKED:
                    self.viol.append((f, e, "packed buffer entry used in arithmetic"))
            return None
        if isinstance(e, ast.IfExp):
            self.ev(e.test, env, f, depth)
            a, b = self.ev(e.body, env, f, depth), self.ev(e.orelse, env, f, depth)
            return a if a == b else (PACKED if PACKED in (a, b) and UNP not in (a, b) and None not in (a, b) else None)
        if isinstance(e, ast.Tuple):
            return ("TUP", [self.ev(x, env, f, depth) for x in e.elts])
        if isinstance(e, (ast.ListComp, ast.GeneratorExp, ast.SetComp)):
            env2 = dict(env)
            for g in e.generators:
                it = self.ev(g.iter, env2, f, depth)
                self.bind(g.target, ELEM if it == CONT else it, env2)
            self.ev(e.elt, env2, f, depth)
            return None
        for c in ast.iter_child_nodes(e):
            if isinstance(c, ast.expr):
                self.ev(c, env, f, depth)
        return None

    def _helper_class(self, recv, f):
        """Class of `self.<field>` (or of a local name bound to it) when the constructors assign it a private repo class."""
        field = self_attr(recv) if isinstance(recv, ast.Attribute) else None
        if field is None and isinstance(recv, ast.Name):
            for n in fn_walk(f.node):
                if isinstance(n, ast.Assign) and any(isinstance(t, ast.Name) and t.id == recv.id for t in n.targets) and self_attr(n.value):
                    field = self_attr(n.value)
        if field is None:
            return None
        for k in self.repo.mro(self.cls):
            init = k.methods.get("__init__")
            if init is None:
                continue
            for n in fn_walk(init.node):
                if isinstance(n, ast.Assign) and any(self_attr(t) == field for t in n.targets) and isinstance(n.value, ast.Call) and isinstance(n.value.func, ast.Name):
                    name = n.value.func.id
                    if name.startswith("_") and self.repo.has_cls(name):
                        return self.repo.cls(name)
        return None

    def _touches(self, callee):
        """The callee mentions the container (directly): its result may carry entries."""
        cache = self.repo.__dict__.setdefault("_r22_touches", {})
        key = (callee.qualname, self.cont)
        if key not in cache:
            cache[key] = any(isinstance(n, ast.Attribute) and self_attr(n) == self.cont for n in fn_walk(callee.node))
        return cache[key]

    def _sink(self, f):
        """Results of public methods and of hook methods (declared abstract somewhere above) leave the class."""
        name = getattr(f, "name", "") or ""
        if not name.startswith("_") or name == "probe":
            return True
        cls = getattr(f, "cls", None)
        if cls is None:
            return True
        for k in self.repo.mro(cls):
            g = k.methods.get(name)
            if g is not None and any("abstractmethod" in U(d) for d in g.node.decorator_list):
                return True
        return False

    def _merge(self, a, b):
        if b is NORET:
            return a
        if a is NORET:
            return b
        return self._join(a, b)

    @staticmethod
    def _join(a, b):
        if a == b:
            return a
        if isinstance(a, tuple) and isinstance(b, tuple) and a[0] == b[0] == "TUP" and len(a[1]) == len(b[1]):
            return ("TUP", [_Pack._join(x, y) for x, y in zip(a[1], b[1])])
        return None

    def _module_func(self, f, name):
        mod = getattr(f, "module", None)
        if mod is not None and name in getattr(mod, "funcs", {}):
            return mod.funcs[name]
        found = [m.funcs[name] for m in self.repo.modules.values() if name in m.funcs]
        return found[0] if len(found) == 1 else None

    def bind(self, target, tag, env):
        if isinstance(target, ast.Name):
            env[target.id] = tag
        elif isinstance(target, (ast.Tuple, ast.List)):
            if tag == ELEM and len(target.elts) == 2:
                self.bind(target.elts[0], TIME, env)
                self.reads += 1
                self.bind(target.elts[1], PACKED, env)
            elif isinstance(tag, tuple) and tag[0] == "ENUM" and len(target.elts) == 2:
                self.bind(target.elts[0], None, env)
                self.bind(target.elts[1], tag[1], env)
            elif isinstance(tag, tuple) and tag[0] == "TUP" and len(tag[1]) == len(target.elts):
                for t, g in zip(target.elts, tag[1]):
                    self.bind(t, g, env)
            else:
                for t in target.elts:
                    self.bind(t, None, env)

    def run(self, stmts, env, f, depth=0):
        ret = NORET
        for s in stmts:
            if isinstance(s, ast.Assign):
                tag = self.ev(s.value, env, f, depth)
                for t in s.targets:
                    self.bind(t, tag, env)
            elif isinstance(s, ast.AugAssign):
                if self.ev(s.value, env, f, depth) == PACKED:
                    self.viol.append((f, s, "packed buffer entry used in arithmetic"))
            elif isinstance(s, ast.For):
                it = self.ev(s.iter, env, f, depth)
                self.bind(s.target, ELEM if it == CONT else it, env)
                r = self.run(s.body, env, f, depth)
                ret = self._merge(ret, r)
                self.run(s.orelse, env, f, depth)
            elif isinstance(s, ast.Return):
                tag = self.ev(s.value, env, f, depth)
                if tag == PACKED and depth == 0 and self._sink(f):
                    self.viol.append((f, s, "packed buffer entry (possibly a spill-file name) returned without _unpack"))
                ret = self._merge(ret, tag)
            elif isinstance(s, (ast.If, ast.While)):
                self.ev(s.test, env, f, depth)
                e1, e2 = dict(env), dict(env)
                r1 = self.run(s.body, e1, f, depth)
                r2 = self.run(s.orelse, e2, f, depth)
                ret = self._merge(self._merge(ret, r1), r2)
                for k in set(e1) | set(e2):
                    a, b = e1.get(k), e2.get(k)
                    env[k] = a if a == b else None
            elif isinstance(s, ast.With):
                r = self.run(s.body, env, f, depth)
                ret = self._merge(ret, r)
            elif isinstance(s, ast.Expr):
                self.ev(s.value, env, f, depth)
            elif isinstance(s, ast.Try):
                for blk in [s.body] + [h.body for h in s.handlers] + [s.orelse, s.finalbody]:
                    r = self.run(blk, env, f, depth)
                    ret = self._merge(ret, r)
        return ret


def r22_pack(repo, sink):
    conts, own = owners(repo)
    if not conts:
        sink.floor("R22", "spill containers", 0, 1)
        return
    sel = selector_summaries(repo)
    sink.note("R22.selector_summaries", sorted(sel))
    sink.note("R22.containers", sorted(f"{c}.{a}" for c, d in conts.items() for a in d))
    total_reads = 0
    seen = set()
    for c, attr in own:
        for f in list(c.methods.values()):
            if (f.qualname, attr) in seen or f.name in ("_pack", "_unpack"):
                continue
            seen.add((f.qualname, attr))
            an = _Pack(repo, c, attr, sink, sel)
            an.run(body_of(f.node), {}, f)
            total_reads += an.reads
            if an.viol:
                for (vf, node, msg) in an.viol:
                    sink.bad("R22", f"pack:{vf.qualname}:{stmt_key(node)}", (vf.file, node.lineno), msg, func=vf.qualname)
            elif an.reads:
                sink.ok("R22", f"pack:{f.qualname}", f, f"{an.reads} payload read(s), each unpacked before use")
    sink.floor("R22", "payload reads", total_reads, 20)
    # positive example: the rule must flag a synthetic stale read on every run
    probe = ast.parse("def _interpolate(self, time):\n    return self.data[0][1]\n").body[0]
    an = _Pack(repo, own[0][0], "data", sink, sel)
    an.run(probe.body, {}, type("F", (), {"qualname": "probe", "file": "", "node": probe})())
    if not an.viol:
        sink.unknown("R22", "positive-example", None, "rule failed to flag the embedded stale read")


# ------------------------------------------------------------------------- R23
def r23_spillfree(repo, sink):
    conts, own = owners(repo)
    pops = 0
    done = set()
    for c, attr in own:
        for f in c.methods.values():
            if f.qualname in done:
                continue
            for n in fn_walk(f.node):
                if (isinstance(n, ast.Call) and isinstance(n.func, ast.Attribute) and n.func.attr == "pop"
                        and self_attr(n.func.value) == attr):
                    done.add(f.qualname)
                    pops += 1
                    _check_pop(sink, f, n)
    sink.floor("R23", "evictions (pop from a spill container)", pops, 2)
    # (b) finalize removes every remaining FILE entry
    comp = repo.cls("Composition")
    fin = repo.resolve(comp, "_finalize_components")
    if fin is None:
        raise AnalysisError("Composition._finalize_components not found")
    fin_calls = [n for n in calls(fin.node, "finalize")]
    sink.check(len(fin_calls) >= 2, "R23", "finalize-entry", fin,
               ok="Composition finalizes components and adapters",
               bad="Composition._finalize_components does not finalize both components and adapters")
    iad = repo.cls("IAdapter")
    for c, attr in own:
        if repo.is_abstract(c):
            continue
        if repo.is_subclass(c, iad):
            entry = repo.resolve(c, "finalize", "method")
            path = "Composition._finalize_components -> ada.finalize()"
        else:
            entry = repo.resolve(c, "finalize", "method")
            path = "Composition._finalize_components -> comp.finalize() -> out.finalize()"
        hit = _removes_all_files(repo, c, entry, attr, 0, set()) if entry is not None else None
        sink.check(bool(hit), "R23", f"finalize-removes-spill-files:{c.name}.{attr}", entry or (c.file, c.node.lineno),
                   ok=f"{path} reaches {hit} which removes every remaining spill file of self.{attr}",
                   bad=f"{path} -> {entry.qualname if entry else '?'} never removes the spill files still held in self.{attr}")
    if not any(not repo.is_abstract(c) for c, _ in own):
        sink.floor("R23", "concrete owners", 0, 1)
    # Component.finalize must finalize every output
    cf = repo.method("Component", "finalize")
    loops = [n for n in fn_walk(cf.node) if isinstance(n, ast.For) and "outputs" in U(n.iter)
             and any(call_name(x) == "finalize" for x in ast.walk(n) if isinstance(x, ast.Call))]
    sink.check(bool(loops), "R23", "component-finalizes-outputs", cf,
               ok="Component.finalize finalizes every output", bad="Component.finalize does not finalize its outputs")


def _check_pop(sink, f, pop):
    """After `d = cont.pop(..)`: FILE branch removes the file, RAM branch decrements the counter."""
    st = pop
    while not isinstance(st, ast.stmt):
        st = st._parent
    var = None
    if isinstance(st, ast.Assign) and len(st.targets) == 1 and isinstance(st.targets[0], ast.Name):
        var = st.targets[0].id
    block = _block_of(st)
    after = block[block.index(st) + 1:] if st in block else []
    removed = decremented = False
    for s in after:
        for n in walk(s):
            if isinstance(n, ast.Call) and U(n.func) in ("os.remove", "os.unlink") and var and var in U(n):
                removed = True
            if isinstance(n, ast.AugAssign) and isinstance(n.op, ast.Sub) and "_total_mem" in U(n.target) and var and var in U(n.value):
                decremented = True
    key = f"evict:{f.qualname}"
    sink.check(removed, "R23", key + ":remove-file", f,
               ok="evicted entry's spill file is removed", bad="an evicted entry's spill file is never removed")
    sink.check(decremented, "R23", key + ":ram-counter", f,
               ok="evicted RAM entry is subtracted from the memory counter",
               bad="an evicted RAM entry is not subtracted from the memory counter (limit reached too early)")
    # branch polarity: os.remove under isinstance(.., str); decrement in the other branch
    for s in after:
        for n in walk(s):
            if isinstance(n, ast.If) and "isinstance" in U(n.test) and "str" in U(n.test):
                neg = isinstance(n.test, ast.UnaryOp)
                file_branch, ram_branch = (n.orelse, n.body) if neg else (n.body, n.orelse)
                fb = any("os.remove" in U(x) or "os.unlink" in U(x) for x in file_branch)
                rb = any("_total_mem" in U(x) for x in ram_branch)
                sink.check(fb and rb, "R23", key + ":branch-polarity", f,
                           ok="file branch removes, RAM branch decrements",
                           bad="os.remove / counter decrement are in the wrong isinstance(.., str) branch")


def _block_of(st):
    p = st._parent
    for field in ("body", "orelse", "finalbody"):
        blk = getattr(p, field, None)
        if isinstance(blk, list) and st in blk:
            return blk
    return []


def _removes_all_files(repo, c, f, attr, depth, seen):
    """Name of the function (reachable from f through self-calls / super()) that iterates
    self.<attr> and removes FILE entries; None if there is none."""
    if f is None or f.qualname in seen or depth > 4:
        return None
    seen.add(f.qualname)
    for n in fn_walk(f.node):
        if isinstance(n, (ast.For, ast.While)):
            txt_iter = U(n.iter) if isinstance(n, ast.For) else U(n.test)
            if f"self.{attr}" in txt_iter:
                if any(isinstance(x, ast.Call) and U(x.func) in ("os.remove", "os.unlink") for x in ast.walk(n)):
                    return f.qualname
    for n in fn_walk(f.node):
        if isinstance(n, ast.Call) and isinstance(n.func, ast.Attribute):
            name = None
            if self_attr(n.func):
                name = self_attr(n.func)
                callee = repo.resolve(c, name, "method")
            elif U(n.func.value) == "super()":
                name = n.func.attr
                callee = None
                mro = repo.mro(c)
                own_cls = f.cls
                if own_cls in mro:
                    for k in mro[mro.index(own_cls) + 1:]:
                        if name in k.methods:
                            callee = k.methods[name]
                            break
            elif isinstance(n.func.value, ast.Name) and repo.has_cls(n.func.value.id):
                k = repo.cls(n.func.value.id)
                callee = repo.resolve(k, n.func.attr, "method")
            else:
                continue
            r = _removes_all_files(repo, c, callee, attr, depth + 1, seen)
            if r:
                return r
    return None


# ------------------------------------------------------------------------- R24
MASK_AWARE = ("np.ma.", "numpy.ma.", ".mask", "is_masked_array", "getmaskarray", "filled(", ".dump(",
              "pickle.dump", "savez")
MASK_REBUILD = ("np.ma.array", "np.ma.masked_array", "to_masked", "pickle.load", "allow_pickle=True",
                "np.ma.MaskedArray")


def r24_spillfmt(repo, sink):
    conts, own = owners(repo)
    # axiom check: prepare() can hand masked arrays to _pack
    prep = repo.func("src/finam/data/tools/core.py", "prepare")
    makes_masked = any("np.ma.array" in U(n) for n in fn_walk(prep.node) if isinstance(n, ast.Call))
    sink.note("R24.prepare_constructs_masked_arrays", makes_masked)
    seen = set()
    for c, attr in own:
        if repo.is_abstract(c):
            continue
        pk = repo.resolve(c, "_pack", "method")
        up = repo.resolve(c, "_unpack", "method")
        if pk is None or up is None:
            sink.unknown("R24", f"spillfmt:{c.name}", (c.file, c.node.lineno), "no _pack/_unpack")
            continue
        key = (pk.qualname, up.qualname)
        if key not in seen:
            seen.add(key)
            wsrc = _closure_src(repo, c, pk)
            rsrc = _closure_src(repo, c, up)
            saves = [n for n in fn_walk(pk.node) if isinstance(n, ast.Call) and call_name(n) in ("save", "savez", "dump", "savez_compressed")]
            if not saves:
                sink.unknown("R24", f"mask:{pk.qualname}", pk, "writer has no np.save / dump call")
            else:
                w = any(t in wsrc for t in MASK_AWARE)
                r = any(t in rsrc for t in MASK_REBUILD)
                if makes_masked and not w:
                    sink.bad("R24", f"mask:{pk.qualname}", pk,
                             "prepare() hands masked arrays to _pack, but the writer persists only "
                             "`.magnitude` with np.save, which cannot store a mask (NotImplementedError / mask lost)")
                elif w and not r:
                    sink.bad("R24", f"mask:{up.qualname}", up, "writer persists the mask but the reader never rebuilds a masked array")
                else:
                    # the plain np.save path must exclude *every* masked array: the guard has to be a
                    # type test, not a test for currently masked cells
                    plain = [n for n in saves if call_name(n) == "save"]
                    guard_bad = None
                    for sv in plain:
                        cur = sv
                        guard = None
                        while cur is not pk.node:
                            par = cur._parent
                            if isinstance(par, ast.If) and (cur in par.body or cur in par.orelse):
                                guard = par
                                break
                            cur = par
                        if guard is None:
                            guard_bad = "np.save of the magnitude is not guarded by a masked-array type test"
                            continue
                        t = U(guard.test)
                        type_test = any(k in t for k in ("isMaskedArray", "isMA(", "ma.isarray", "is_masked_array", "MaskedArray"))
                        value_test = any(k in t for k in ("ma.is_masked(", "has_masked_values", ".mask.any", "np.any("))
                        if value_test or not type_test:
                            guard_bad = (f"the branch to np.save is chosen by `{t}`, a test for currently masked cells / not a "
                                         "type test: a masked array without masked cells still reaches np.save (NotImplementedError)")
                    if guard_bad and makes_masked:
                        sink.bad("R24", f"mask-guard:{pk.qualname}", pk, guard_bad)
                    else:
                        sink.ok("R24", f"mask:{pk.qualname}", pk, "writer and reader agree on masked payloads")
        # (b) units: domain at the pack site == domain of the label applied by _unpack
        label = _label_domain(repo, c, up)
        for site_f, dom in _pack_sites(repo, c):
            k2 = f"units:{c.name}:{site_f.qualname}"
            if label is None or dom is None:
                sink.unknown("R24", k2, site_f, f"cannot determine unit domain (pack {dom}, label {label})")
                continue
            if dom == label:
                sink.ok("R24", k2, site_f, f"spilled data is labelled with the units it was packed with ({dom})")
                continue
            changes = _get_info_changes_units(repo, c)
            sink.check(not changes, "R24", k2, site_f,
                       ok=f"packed in {dom} units, labelled with {label} units; {c.name}._get_info leaves units unchanged",
                       bad=f"data is packed in {dom} units but a spilled entry is re-labelled with the {label} units, "
                           f"and {c.name}._get_info rewrites the units ({changes})")


def _closure_src(repo, c, f, depth=0):
    txt = U(f.node)
    if depth < 2:
        for n in fn_walk(f.node):
            if isinstance(n, ast.Call) and isinstance(n.func, ast.Attribute) and U(n.func.value) == "super()":
                mro = repo.mro(c)
                if f.cls in mro:
                    for k in mro[mro.index(f.cls) + 1:]:
                        if n.func.attr in k.methods:
                            txt += "\n" + _closure_src(repo, c, k.methods[n.func.attr], depth + 1)
                            break
    return txt


def _info_domain(repo, c, expr, f=None):
    """Which info (the slot's own / outgoing one or the incoming one) an expression denotes: evaluated abstractly on an
    object whose public `info` and `in_info` properties read two distinct markers."""
    from ..absbase import FinamInterp, set_backed
    from ..interp import AnalysisError, Obj, Raised, Undecided
    if isinstance(expr, str):
        try:
            expr = ast.parse(expr, mode="eval").body
        except SyntaxError:
            return None
    o = Obj(cls=c, label=c.name)
    outi, ini = Obj(label="out_info"), Obj(label="in_info")
    set_backed(repo, o, "in_info", ini)
    set_backed(repo, o, "info", outi)
    try:
        v = FinamInterp(repo).eval(expr, {"self": o}, f.module if f is not None else None)
    except (Raised, Undecided, AnalysisError, KeyError):
        return None
    return "OUT" if v is outi else "IN" if v is ini else None


def _label_domain(repo, c, up):
    """Unit domain of the Quantity built for FILE entries by the resolved _unpack."""
    labels = []
    for n in fn_walk(up.node):
        if isinstance(n, ast.Call) and call_name(n) in ("Quantity", "quantify") and len(n.args) >= 2:
            labels.append((n.lineno, _info_domain(repo, c, n.args[1], up)))
    if not labels:
        for n in fn_walk(up.node):
            if isinstance(n, ast.Call) and isinstance(n.func, ast.Attribute) and U(n.func.value) == "super()":
                mro = repo.mro(c)
                for k in mro[mro.index(up.cls) + 1:]:
                    if "_unpack" in k.methods:
                        return _label_domain(repo, c, k.methods["_unpack"])
        return None
    return sorted(labels)[-1][1]


def _pack_sites(repo, c):
    out = []
    seen = set()
    for k in repo.mro(c):
        for f in k.methods.values():
            if repo.resolve(c, f.name, "method") is not f or f.qualname in seen or not _entry_reaches(repo, c, f):
                continue
            for n in fn_walk(f.node):
                if _is_pack_call(n) and n.args:
                    seen.add(f.qualname)
                    out.append((f, _value_domain(repo, c, f, n.args[0])))
    return out


def _value_domain(repo, c, f, e, depth=0):
    if depth > 4:
        return None
    if isinstance(e, ast.Name):
        defs = [n for n in fn_walk(f.node) if isinstance(n, ast.Assign) and n.lineno < e.lineno
                and any((isinstance(t, ast.Name) and t.id == e.id)
                        or (isinstance(t, ast.Tuple) and any(isinstance(x, ast.Name) and x.id == e.id for x in t.elts))
                        for t in n.targets)]
        if not defs:
            # a parameter of a helper method: the domain of what the class's own callers pass for it (all call sites must agree)
            params = [a.arg for a in f.node.args.args]
            if e.id in params and params and params[0] == "self":
                pos = params.index(e.id) - 1
                doms = set()
                for k in repo.mro(c):
                    for g in k.methods.values():
                        if g is f or repo.resolve(c, g.name, "method") is not g:
                            continue
                        for n in fn_walk(g.node):
                            if isinstance(n, ast.Call) and isinstance(n.func, ast.Attribute) and self_attr(n.func) == f.name:
                                arg = n.args[pos] if pos < len(n.args) else next((kw.value for kw in n.keywords if kw.arg == e.id), None)
                                if arg is not None:
                                    doms.add(_value_domain(repo, c, g, arg, depth + 1))
                if len(doms) == 1:
                    return doms.pop()
            return None
        return _value_domain(repo, c, f, defs[-1].value, depth + 1)
    if isinstance(e, ast.Call):
        name = call_name(e)
        if name == "pull_data" and isinstance(e.func, ast.Attribute) and self_attr(e.func):
            return "IN"
        if name == "prepare" and len(e.args) >= 2:
            return _info_domain(repo, c, e.args[1], f)
        if name in ("strip_time", "copy", "asarray", "array") and e.args:
            return _value_domain(repo, c, f, e.args[0], depth + 1)
        if isinstance(e.func, ast.Attribute) and self_attr(e.func):
            # a helper method of the class: the domain of what it returns (all returns must agree)
            callee = repo.resolve(c, self_attr(e.func), "method")
            if callee is not None and callee is not f:
                doms = {_value_domain(repo, c, callee, r.value, depth + 1) for r in fn_walk(callee.node) if isinstance(r, ast.Return) and r.value is not None}
                if len(doms) == 1:
                    return doms.pop()
    return None


def _get_info_changes_units(repo, c):
    gi = repo.resolve(c, "_get_info", "method")
    if gi is None:
        return None
    for n in fn_walk(gi.node):
        if isinstance(n, ast.Call) and call_name(n) == "copy_with":
            for k in n.keywords:
                if k.arg == "units" and not (isinstance(k.value, ast.Constant) and k.value.value is None and _is_request(gi, n)):
                    return f"{gi.qualname}: {U(n)[:70]}"
        if isinstance(n, ast.Assign) and any("units" in U(t) and not isinstance(t, ast.Name) for t in n.targets):
            return f"{gi.qualname}: {U(n)[:70]}"
    return None


def _is_request(gi, call):
    """copy_with(units=None) on the *incoming* request (forwarded upstream) does not change
    the delivered units."""
    recv = call.func.value if isinstance(call.func, ast.Attribute) else None
    return isinstance(recv, ast.Name) and gi.params and recv.id == gi.params[0]


# ------------------------------------------------------------------------- R25
def r25_spillwire(repo, sink):
    conts, own = owners(repo)
    seen = set()
    for c, attr in own:
        pk = repo.resolve(c, "_pack", "method")
        if pk is None or pk.qualname in seen:
            continue
        seen.add(pk.qualname)
        saves = [n for n in fn_walk(pk.node) if isinstance(n, ast.Call) and call_name(n) in ("save", "savez", "dump", "savez_compressed")]
        if not saves:
            sink.unknown("R25", f"filename:{pk.qualname}", pk, "no save call in _pack")
            continue
        joins = [n for n in fn_walk(pk.node) if isinstance(n, ast.Call) and U(n.func) == "os.path.join"]
        ok_loc = any(n.args and ("memory_location" in U(n.args[0]) or "_mem_location" in U(n.args[0])) for n in joins)
        fname_vars = {t.id for n in fn_walk(pk.node) if isinstance(n, ast.Assign) and any(j is n.value or j in list(ast.walk(n.value)) for j in joins)
                      for t in n.targets if isinstance(t, ast.Name)}
        uses = all(any(isinstance(x, ast.Name) and x.id in fname_vars for a in list(s.args) + [s.func] for x in ast.walk(a)) for s in saves)
        sink.check(ok_loc and uses and bool(joins), "R25", f"filename-below-location:{pk.qualname}", pk,
                   ok="spill file name = os.path.join(self.memory_location, ...) and every save uses it",
                   bad="spill files are not (all) created below self.memory_location")
        # uniqueness: name mentions id(self) and a counter incremented on the spill path
        name_txt = " ".join(U(j) for j in joins)
        counter = None
        for n in fn_walk(pk.node):
            if isinstance(n, ast.AugAssign) and isinstance(n.op, ast.Add) and self_attr(n.target) and self_attr(n.target) in name_txt:
                counter = n
        cfg = CFG(pk.node)
        inc_ok = counter is not None and all(
            cfg.dominates(cfg.node_of(counter), cfg.node_of(s)) or cfg.postdominates(cfg.node_of(counter), cfg.node_of(s))
            for s in saves)
        sink.check("id(self)" in name_txt and inc_ok, "R25", f"filename-unique:{pk.qualname}", pk,
                   ok="file name contains id(self) and a per-spill counter that is incremented with every save",
                   bad="spill file names are not unique per slot and per spill (id(self) / incremented counter missing): "
                       "a later spill overwrites an earlier one")
        # threshold: spill iff limit is not None and total + size exceeds it; RAM path accounts the size
        acc = [n for n in fn_walk(pk.node) if isinstance(n, ast.AugAssign) and isinstance(n.op, ast.Add) and "_total_mem" in U(n.target)]
        sink.check(bool(acc), "R25", f"ram-accounting:{pk.qualname}", pk,
                   ok="entries kept in RAM are added to the memory counter",
                   bad="entries kept in RAM are not added to the memory counter: the limit never triggers")
        for a in acc:
            na = cfg.node_of(a)
            sink.check(not any(cfg.reachable(cfg.node_of(s), na) or cfg.reachable(na, cfg.node_of(s)) for s in saves),
                       "R25", f"ram-accounting-exclusive:{pk.qualname}", pk,
                       ok="an entry is either spilled or accounted as RAM, never both",
                       bad="a spilled entry is also accounted as RAM (or vice versa)")
    # wiring in Composition
    comp = repo.cls("Composition")
    init = repo.resolve(comp, "__init__")
    conn = repo.resolve(comp, "connect")
    for f, what, recv_hint in ((init, "outputs", "outputs"), (conn, "adapters", "_adapters")):
        stores = {"memory_limit": None, "memory_location": None}
        for n in fn_walk(f.node):
            if isinstance(n, ast.Assign):
                for t in n.targets:
                    if isinstance(t, ast.Attribute) and t.attr in stores:
                        loop = _enclosing_for(n)
                        if loop is not None and recv_hint in U(loop.iter) and f"_slot_{t.attr}" in U(n.value):
                            stores[t.attr] = n
        sink.check(all(stores.values()), "R25", f"composition-hands-limit-to:{what}", f,
                   ok=f"slot_memory_limit and slot_memory_location are assigned to all {what}",
                   bad=f"Composition does not hand {[k for k, v in stores.items() if not v]} to its {what}")
        if f is conn and all(stores.values()):
            cfg = CFG(f.node)
            cc = [n for n in calls(f.node, "_connect_components")]
            col = [n for n in calls(f.node, "_collect_adapters")]
            if cc and col:
                s0 = cfg.node_of(stores["memory_limit"])
                sink.check(cfg.dominates(cfg.node_of(_enclosing_for(stores["memory_limit"])), cfg.node_of(cc[0]))
                           and cfg.dominates(cfg.node_of(col[0]), s0), "R25", "limit-before-connect", f,
                           ok="adapters are collected, then given the limit, then components connect",
                           bad="memory limit is not handed to the collected adapters before data is exchanged")
            else:
                sink.unknown("R25", "limit-before-connect", f, "connect() lacks _collect_adapters/_connect_components")


def _enclosing_for(n):
    cur = getattr(n, "_parent", None)
    while cur is not None and not isinstance(cur, ast.For):
        if isinstance(cur, ast.FunctionDef):
            return None
        cur = getattr(cur, "_parent", None)
    return cur
