"""Grid rules: R31 MEMO (invalidation), R19 TAXIS (time-axis discipline), R32 GRIDSIB,
R33 MIRROR, R34 TRANSDIR."""
from __future__ import annotations

import ast

from ..astq import U, call_name, calls, fn_walk, self_attr, stmt_key, walk
from ..loader import AnalysisError, Func, body_of


# =========================================================================== R31
def _memo_getters(repo):
    """[(class, function, memo field, value expr)] for getters and methods that memoise lazily: some `self._x` is compared
    with None, assigned a computed value and returned - `if self._x is None: self._x = E; return self._x` as well as
    `if self._x is not None: return self._x; self._x = E; return self._x` and their variations."""
    out = []
    for c in repo.all_classes():
        for table in (c.getters, c.methods):
            for name, g in table.items():
                if name == "__init__":
                    continue
                tested, assigned, returned = set(), {}, set()
                for n in fn_walk(g.node):
                    if isinstance(n, ast.Compare) and len(n.ops) == 1 and isinstance(n.ops[0], (ast.Is, ast.IsNot)) \
                            and isinstance(n.comparators[0], ast.Constant) and n.comparators[0].value is None and self_attr(n.left):
                        tested.add(self_attr(n.left))
                    if isinstance(n, ast.Assign) and not (isinstance(n.value, ast.Constant) and n.value.value is None):
                        for t in n.targets:
                            if self_attr(t):
                                assigned.setdefault(self_attr(t), n.value)
                    if isinstance(n, ast.Return) and n.value is not None and self_attr(n.value):
                        returned.add(self_attr(n.value))
                for m in sorted(tested & set(assigned) & returned):
                    out.append((c, g, m, assigned[m]))
    return out


def _read_fields(repo, c, start_cls, expr, seen):
    """Private fields read by `expr` (evaluated on an instance of class c), closed over
    property getters; `super().p` resolves after start_cls in c's MRO."""
    fields = set()
    for n in ast.walk(expr):
        if not isinstance(n, ast.Attribute):
            continue
        base = n.value
        getter = None
        if isinstance(base, ast.Name) and base.id == "self":
            getter = repo.resolve(c, n.attr, "getter")
            if getter is None and repo.resolve(c, n.attr, "method") is None:
                fields.add(n.attr)
        elif isinstance(base, ast.Call) and U(base) == "super()":
            mro = repo.mro(c)
            if start_cls in mro:
                for k in mro[mro.index(start_cls) + 1:]:
                    if n.attr in k.getters:
                        getter = k.getters[n.attr]
                        break
        if getter is not None and getter.qualname not in seen:
            seen.add(getter.qualname)
            for s in body_of(getter.node):
                fields |= _read_fields(repo, c, getter.cls, s, seen)
    return fields


def _resets_memo(repo, k, f, memo, depth=0):
    """Function f, executed on an instance of concrete class k, sets self.<memo> = None - itself or in a
    method it calls on self (hooks overridden in k are resolved through k's MRO)."""
    if f is None or depth > 2:
        return False
    for n in fn_walk(f.node):
        if isinstance(n, ast.Assign) and any(self_attr(t) == memo for t in n.targets) and isinstance(n.value, ast.Constant) and n.value.value is None:
            return True
    for n in fn_walk(f.node):
        if isinstance(n, ast.Call) and isinstance(n.func, ast.Attribute) and self_attr(n.func):
            callee = repo.resolve(k, self_attr(n.func), "method")
            if callee is not None and callee is not f and _resets_memo(repo, k, callee, memo, depth + 1):
                return True
    return False


def r31_memo(repo, sink):
    # scope: grid specifications (the property is about data_shape / data_size / data_points)
    gb = repo.cls("GridBase")
    memos = [m for m in _memo_getters(repo) if repo.is_subclass(m[0], gb)]
    sink.note("R31.memoised_getters", [f"{c.name}.{g.name} -> self.{m}" for c, g, m, _ in memos])
    for c, g, memo, expr in memos:
        concrete = [k for k in repo.subclasses(c) if not repo.is_abstract(k)] or [c]
        deps = set()
        for k in concrete:
            deps |= _read_fields(repo, k, c, expr, {g.qualname})
        deps.discard(memo)
        sink.note(f"R31.deps.{c.name}.{g.name}", sorted(deps))
        writers = []
        related = set(repo.mro(c)) | set(repo.subclasses(c))
        for k in related:
            for table in (k.methods, k.setters):
                for f in table.values():
                    if f.name == "__init__":
                        continue
                    stores = {self_attr(t) for n in fn_walk(f.node) if isinstance(n, (ast.Assign, ast.AugAssign))
                              for t in (n.targets if isinstance(n, ast.Assign) else [n.target])
                              if self_attr(t)}
                    hit = stores & deps
                    if hit:
                        writers.append((f, hit, stores))
        for f, hit, stores in writers:
            # only writers that an instance holding the memo can execute
            if not any(repo.resolve(k, f.name, "setter" if f.name in f.cls.setters and f.cls.setters[f.name] is f else "method") is f
                       for k in concrete):
                continue
            holders = [k for k in concrete if repo.resolve(k, f.name, "setter" if f.name in f.cls.setters and f.cls.setters[f.name] is f else "method") is f]
            resets = all(_resets_memo(repo, k, f, memo) for k in holders)
            sink.check(resets, "R31", f"memo-reset:{c.name}.{g.name}:{f.qualname}", f,
                       ok=f"{f.qualname} writes {sorted(hit)} and resets the memo self.{memo}",
                       bad=f"{f.qualname} writes {sorted(hit)}, which {c.name}.{g.name} is computed from, "
                           f"without resetting the memo self.{memo}: the cached value stays stale")
        # foreign writes (`other._f = ...`) to a dependency
        for m in repo.modules.values():
            for n in ast.walk(m.tree):
                if isinstance(n, ast.Assign):
                    for t in n.targets:
                        if isinstance(t, ast.Attribute) and t.attr in deps and not self_attr(t) and isinstance(t.value, ast.Name):
                            fn = _enclosing_fn(n)
                            ref = t.value.id
                            fresh = fn is not None and any(
                                isinstance(x, ast.Assign) and any(isinstance(y, ast.Name) and y.id == ref for y in x.targets)
                                and isinstance(x.value, ast.Call) for x in ast.walk(fn))
                            reset = fn is not None and any(
                                isinstance(x, ast.Assign) and any(isinstance(y, ast.Attribute) and y.attr == memo and U(y.value) == ref for y in x.targets)
                                for x in ast.walk(fn))
                            sink.check(fresh or reset, "R31", f"memo-foreign-write:{c.name}.{g.name}:{t.attr}", (m.relpath, n.lineno),
                                       ok=f"{ref}.{t.attr} written on a freshly constructed object / memo reset",
                                       bad=f"{ref}.{t.attr} is written from outside without resetting {memo}")
    _keyed_memos(repo, sink, gb)
    # positive example (no floor: a repair may remove the memo altogether)
    probe_src = (
        "class P:\n"
        "    @property\n"
        "    def shape(self):\n"
        "        if self._shape is None:\n"
        "            self._shape = self._loc + 1\n"
        "        return self._shape\n"
        "    @property\n"
        "    def loc(self):\n"
        "        return self._loc\n"
        "    @loc.setter\n"
        "    def loc(self, v):\n"
        "        self._loc = v\n"
    )
    if not _probe_flags(probe_src):
        sink.unknown("R31", "positive-example", None, "rule failed to flag the embedded stale memo")
    if not memos:
        sink.ok("R31", "no-memoised-getters", None, "no lazily memoised property left in src/finam")


def _keyed_memos(repo, sink, gb):
    """Process-wide memo tables (`CACHE[key] = E` with CACHE a module-level dict) in grid classes: every attribute of the
    instance that the memoised value is computed from must take part in the key, otherwise two grids that differ only in
    that attribute share one entry."""
    for c in repo.all_classes():
        if not repo.is_subclass(c, gb):
            continue
        for table in (c.getters, c.methods):
            for g in table.values():
                mod = g.module
                for n in fn_walk(g.node):
                    if not (isinstance(n, ast.Assign) and len(n.targets) == 1 and isinstance(n.targets[0], ast.Subscript)
                            and isinstance(n.targets[0].value, ast.Name)):
                        continue
                    cache = n.targets[0].value.id
                    init = mod.consts.get(cache)
                    if not (isinstance(init, ast.Dict) or (isinstance(init, ast.Call) and call_name(init) in ("dict", "OrderedDict", "WeakValueDictionary"))):
                        continue
                    key = n.targets[0].slice
                    if isinstance(key, ast.Name):
                        defs = [d for d in fn_walk(g.node) if isinstance(d, ast.Assign) and any(isinstance(t, ast.Name) and t.id == key.id for t in d.targets)]
                        key = defs[-1].value if defs else key
                    concrete = [k for k in repo.subclasses(c) if not repo.is_abstract(k)] or [c]
                    missing = set()
                    for k in concrete:
                        dv = _read_fields(repo, k, c, n.value, {g.qualname}) | _direct_reads(n.value)
                        dk = _read_fields(repo, k, c, key, {g.qualname}) | _direct_reads(key)
                        missing |= {x for x in dv - dk if not x.startswith("__")}
                    # a public property read in the value but not in the key (its private fields are then missing too)
                    pub = sorted(x for x in _direct_reads(n.value) - _direct_reads(key))
                    sink.check(not pub and not missing, "R31", f"keyed-memo:{c.name}.{g.name}:{cache}", g,
                               ok=f"the key of the process-wide memo {cache} covers everything the memoised value is computed from",
                               bad=f"{c.name}.{g.name} keeps its result in the process-wide table {cache} under a key that leaves out {pub or sorted(missing)}, "
                                   "which the value is computed from: two grids that differ only there share one entry (the second gets the first one's value)")


C14_READERS = ("points", "cells", "cell_centers", "data_points", "data_shape", "data_axes", "data_size", "cell_axes", "dims", "dim",
               "point_count", "cell_count", "axes", "order", "data_location", "cell_types", "cell_node_counts", "mesh_dim")
C15_READERS = ("to_canonical", "from_canonical", "get_transform_to", "compatible_with", "axes_increase", "axes_reversed")


def r31d_c14(repo, sink):
    _eager_derived(repo, sink, repo.cls("GridBase"), C14_READERS)


def r31d_c15(repo, sink):
    _eager_derived(repo, sink, repo.cls("GridBase"), C15_READERS)


def _eager_derived(repo, sink, gb, readers):
    """State a grid constructor derives from other attributes (`self._x = f(self._y)`): whoever assigns `_y` later - a method of
    the class or foreign code patching a freshly built grid (`grid._y = ...`) - has to bring `_x` up to date in the same
    function, otherwise the derived value describes the grid as it was constructed."""
    for c in repo.all_classes():
        if not repo.is_subclass(c, gb):
            continue
        init = c.methods.get("__init__")
        if init is None:
            continue
        assigned = []
        for st in fn_walk(init.node):
            if isinstance(st, ast.Assign) and len(st.targets) == 1 and self_attr(st.targets[0]):
                assigned.append((self_attr(st.targets[0]), st))
        names = {a for a, _ in assigned}
        used = set()
        for r in readers:
            f = repo.resolve(c, r, "getter") or repo.resolve(c, r, "method")
            if f is not None:
                for s_ in body_of(f.node):
                    used |= _read_fields(repo, c, f.cls, s_, {f.qualname})
        sink.check(True, "R31d", f"derived-state:scanned:{c.name}", (c.file, init.node.lineno),
                   ok=f"{len(used & names)} constructor-assigned fields of {c.name} reach the readers {readers[:4]}...; each derived one is checked against later writers of its sources")
        for x, st in assigned:
            if x not in used:
                continue
            deps = (_read_fields(repo, c, c, st.value, set()) & names) - {x}
            if not deps:
                continue
            # later writers of a dependency
            for m in repo.modules.values():
                for fn in [n for n in ast.walk(m.tree) if isinstance(n, ast.FunctionDef)]:
                    if fn is init.node:
                        continue
                    writes = {}
                    for n in ast.walk(fn):
                        if isinstance(n, ast.Assign):
                            for t in n.targets:
                                if isinstance(t, ast.Attribute) and isinstance(t.value, ast.Name) and t.attr in deps | {x}:
                                    writes.setdefault(t.value.id, set()).add(t.attr)
                    for recv, attrs in writes.items():
                        hit = attrs & deps
                        if not hit:
                            continue
                        if recv == "self":
                            owner = getattr(fn, "_parent", None)
                            if not (isinstance(owner, ast.ClassDef) and repo.has_cls(owner.name) and (repo.is_subclass(repo.cls(owner.name), c) or repo.is_subclass(c, repo.cls(owner.name)))):
                                continue
                            if fn.name == "__init__":
                                continue  # (a subclass constructor assigns before / through the base constructor)
                        else:
                            # foreign write: only where the object is a freshly built instance of this class (or a subclass)
                            built = [n2 for n2 in ast.walk(fn) if isinstance(n2, ast.Assign) and any(isinstance(t2, ast.Name) and t2.id == recv for t2 in n2.targets)
                                     and isinstance(n2.value, ast.Call) and isinstance(n2.value.func, ast.Name) and repo.has_cls(n2.value.func.id)
                                     and repo.is_subclass(repo.cls(n2.value.func.id), c)]
                            if not built:
                                continue
                        sink.check(x in attrs, "R31d", f"derived-state:{c.name}.{x}:{fn.name}", (m.relpath, fn.lineno),
                                   ok=f"{fn.name} assigns {sorted(hit)} and brings {x} (derived from it in {c.name}.__init__) up to date",
                                   bad=f"{fn.name} assigns {sorted(hit)} of a {c.name} after construction, but {c.name}.__init__ derived self.{x} from it "
                                       f"(`{U(st)[:90]}`) and nothing recomputes it: the grid keeps the value of its construction (stale layout information)")


def _direct_reads(expr):
    return {n.attr for n in ast.walk(expr) if isinstance(n, ast.Attribute) and isinstance(n.value, ast.Name) and n.value.id == "self"}


def _probe_flags(src):
    t = ast.parse(src)
    cls = t.body[0]
    setter = [f for f in cls.body if isinstance(f, ast.FunctionDef) and any(isinstance(d, ast.Attribute) and d.attr == "setter" for d in f.decorator_list)][0]
    stores = {x.attr for n in ast.walk(setter) if isinstance(n, ast.Assign) for x in n.targets if isinstance(x, ast.Attribute)}
    return "_loc" in stores and "_shape" not in stores


def _enclosing_fn(n):
    cur = getattr(n, "_parent", None)
    while cur is not None and not isinstance(cur, ast.FunctionDef):
        cur = getattr(cur, "_parent", None)
    return cur


# =========================================================================== R19
TL, SP = "TIME_LEADING", "SPATIAL"
TL_SOURCES = ("get_data", "pull_data", "prepare")


def _all_funcs(repo):
    out = []
    for m in repo.modules.values():
        for f in m.funcs.values():
            out.append(f)
            out.extend(repo.nested_funcs(f))
        for c in m.classes.values():
            for table in (c.methods, c.getters, c.setters):
                for f in table.values():
                    out.append(f)
                    out.extend(repo.nested_funcs(f))
    return out


def _rank_sensitive_params(f):
    """Parameters to which an axis-less transpose / .T is applied (through same-name
    re-assignment chains)."""
    params = set(f.params)
    hit = set()
    for n in fn_walk(f.node):
        if isinstance(n, ast.Call) and U(n.func) in ("np.transpose", "numpy.transpose") and len(n.args) == 1 and not n.keywords:
            a = n.args[0]
            if isinstance(a, ast.Name) and a.id in params:
                hit.add(a.id)
        if isinstance(n, ast.Attribute) and n.attr == "T" and isinstance(n.value, ast.Name) and n.value.id in params:
            hit.add(n.value.id)
        if isinstance(n, ast.Call) and isinstance(n.func, ast.Attribute) and n.func.attr == "transpose" and not n.args and not n.keywords:
            if isinstance(n.func.value, ast.Name) and n.func.value.id in params:
                hit.add(n.func.value.id)
    return hit


def r19_taxis(repo, sink):
    funcs = _all_funcs(repo)
    by_name = {}
    for f in funcs:
        by_name.setdefault(f.name, []).append(f)
    sinks = {}
    for f in funcs:
        s = _rank_sensitive_params(f)
        if s:
            sinks[f.qualname] = (f, set(s))
    base = sorted(sinks)
    # propagate: a parameter handed unchanged to a sink parameter of a callee is a sink
    changed = True
    rounds = 0
    while changed and rounds < 6:
        changed = False
        rounds += 1
        for f in funcs:
            params = set(f.params)
            for c in calls(f.node):
                name = call_name(c)
                for qn, (g, gs) in list(sinks.items()):
                    if g.name != name or g is f:
                        continue
                    gparams = g.params
                    for i, a in enumerate(c.args):
                        if isinstance(a, ast.Name) and a.id in params and i < len(gparams) and gparams[i] in gs:
                            if not _reassigned_before(f, a):
                                cur = sinks.setdefault(f.qualname, (f, set()))[1]
                                if a.id not in cur:
                                    cur.add(a.id)
                                    changed = True
    sink.note("R19.rank_sensitive", {q: sorted(p) for q, (_f, p) in sorted(sinks.items())})
    # closures returned by a function and fields assigned from such a function
    ret_closure = {}
    for f in funcs:
        for r in fn_walk(f.node):
            if isinstance(r, ast.Return) and r.value is not None:
                for n in ast.walk(r.value):
                    if isinstance(n, ast.Name) and f"{f.qualname}.<locals>.{n.id}" in sinks:
                        ret_closure[f.name] = sinks[f"{f.qualname}.<locals>.{n.id}"]
    sink_fields = {}
    for f in funcs:
        for n in fn_walk(f.node):
            if isinstance(n, ast.Assign) and isinstance(n.value, ast.Call) and call_name(n.value) in ret_closure:
                for t in n.targets:
                    if self_attr(t) and f.cls is not None:
                        sink_fields[(f.cls.name, self_attr(t))] = ret_closure[call_name(n.value)]
    sink.note("R19.fields_holding_rank_sensitive_closures", [f"{c}.{a}" for c, a in sorted(sink_fields)])
    # forward tags inside classes
    n_flows = 0
    for c in repo.all_classes():
        ptags = {}  # (method, param) -> tag, from call sites within the class (definite only)
        for _round in range(3):
            for f in c.methods.values():
                for call in calls(f.node):
                    if isinstance(call.func, ast.Attribute) and self_attr(call.func):
                        callee = repo.resolve(c, self_attr(call.func), "method")
                        if callee is not None:
                            env = _tl_env(f, {p: ptags.get((f.name, p)) for p in f.params}, call)
                            for p, a in zip(callee.params, call.args):
                                tg = _tag_of(a, env)
                                key = (callee.name, p)
                                if tg is not None:
                                    prev = ptags.get(key, tg)
                                    ptags[key] = tg if prev == tg else "MIXED"
        for f in c.methods.values():
            for call in calls(f.node):
                target = None
                if isinstance(call.func, ast.Attribute) and self_attr(call.func):
                    for k in repo.mro(c):
                        if (k.name, self_attr(call.func)) in sink_fields:
                            target = sink_fields[(k.name, self_attr(call.func))]
                if target is None:
                    name = call_name(call)
                    cands = [(g, gs) for (g, gs) in sinks.values() if g.name == name and g.cls is not None
                             and isinstance(call.func, ast.Attribute)]
                    if len(cands) >= 1 and name in ("to_canonical", "from_canonical"):
                        target = cands[0]
                if target is None:
                    continue
                g, gs = target
                env = _tl_env(f, {p: ptags.get((f.name, p)) for p in f.params}, call)
                for i, a in enumerate(call.args):
                    if i < len(g.params) and g.params[i] in gs:
                        n_flows += 1
                        tg = _tag_of(a, env)
                        key = f"taxis:{f.qualname}:{stmt_key(call)}"
                        if tg == TL:
                            sink.bad("R19", key, (f.file, call.lineno),
                                     f"data with a leading time axis (from {'/'.join(TL_SOURCES)}) reaches the rank-sensitive "
                                     f"parameter `{g.params[i]}` of {g.qualname} (axis-less transpose / flips counted from axis 0): "
                                     "values end up at other locations or the shape check fails", func=f.qualname,
                                     path=f"{f.qualname} -> {U(call.func)} -> {g.qualname}")
                        elif tg == SP:
                            sink.ok("R19", key, (f.file, call.lineno), "spatial (time-stripped) data reaches the rank-sensitive parameter", func=f.qualname)
    sink.note("R19.flows_into_rank_sensitive_parameters", n_flows)
    # positive example
    probe = ast.parse("def f(self, time):\n    d = self.pull_data(time)\n    return self._transform(d)\n").body[0]
    pf = type("F", (), {"node": probe, "params": ["time"]})()
    env = _tl_env(pf, {})
    if _tag_of(probe.body[1].value.args[0], env) != TL:
        sink.unknown("R19", "positive-example", None, "tag propagation failed on the embedded example")


def _reassigned_before(f, name_node):
    for n in fn_walk(f.node):
        if isinstance(n, ast.Name) and n.id == name_node.id and isinstance(n.ctx, ast.Store) and n.lineno < name_node.lineno:
            return True
    return False


def _tl_env(f, param_tags, before=None):
    """Tags of locals just before AST node `before` (assignments in source order)."""
    env = {k: v for k, v in param_tags.items() if v in (TL, SP)}
    for s in _ordered_assigns(f.node):
        if before is not None and ((s.lineno, s.col_offset) >= (before.lineno, before.col_offset)
                                   or any(before is x for x in ast.walk(s))):
            continue
        tg = _tag_of(s.value, env)
        for t in s.targets:
            if isinstance(t, ast.Name):
                if tg is None:
                    env.pop(t.id, None)
                else:
                    env[t.id] = tg
            elif isinstance(t, ast.Tuple) and t.elts and isinstance(t.elts[0], ast.Name):
                # xdata, conv = prepare(..., report_conversion=True)
                if tg is not None:
                    env[t.elts[0].id] = tg
    return env


def _ordered_assigns(fn):
    return sorted([n for n in fn_walk(fn) if isinstance(n, ast.Assign)], key=lambda n: (n.lineno, n.col_offset))


def _tag_of(e, env):
    if isinstance(e, ast.Name):
        return env.get(e.id)
    if isinstance(e, ast.Call):
        name = call_name(e)
        if name in TL_SOURCES:
            return TL
        if name == "strip_time":
            return SP
        if name in ("to_units", "copy", "filled", "to_masked") and e.args:
            return _tag_of(e.args[0], env)
        if name == "_convert_and_check" and e.args:
            return _tag_of(e.args[0], env)
        return None
    if isinstance(e, ast.Subscript):
        base = _tag_of(e.value, env)
        sl = e.slice
        if base == TL and isinstance(sl, ast.Tuple) and sl.elts and not isinstance(sl.elts[0], ast.Slice):
            return SP
        if base == TL and not isinstance(sl, (ast.Tuple, ast.Slice)):
            return SP
        return None
    if isinstance(e, ast.IfExp):
        a, b = _tag_of(e.body, env), _tag_of(e.orelse, env)
        return a if a == b else None
    return None


# ====================================================================== R33 / R34
# Layout algebra: a symbolic array is described by, for every array axis k, which grid
# axis it holds and whether its coordinates increase along it.  `np.transpose(x)` (no axes)
# reverses the axis order, `np.flip(x, axis=i)` toggles the direction of the grid axis that
# currently sits at array position i.  This decides to_canonical / from_canonical for every
# layout (1-3 D, both axis orders, every combination of axis directions) without numbers.
from ..absbase import FinamInterp, Logger, Order, Ref  # noqa: E402
from ..interp import Closure, Obj, Raised, Sym, Undecided  # noqa: E402


class Layout:
    def __init__(self, axes):
        self.axes = tuple(axes)  # ((grid_axis, increasing), ...)

    def __eq__(self, o):
        return isinstance(o, Layout) and self.axes == o.axes

    def __hash__(self):
        return hash(self.axes)

    def __repr__(self):
        return "[" + ",".join(f"{'xyz'[g]}{'+' if inc else '-'}" for g, inc in self.axes) + "]"


class _LayoutInterp(FinamInterp):
    sizes = {0: 5, 1: 4, 2: 3}  # extents per grid axis: configuration values, not program data

    def ext_call(self, name, args, kwargs, node):
        short = name.split(".")[-1]
        if short == "transpose" and len(args) == 1 and not kwargs and isinstance(args[0], Layout):
            return Layout(reversed(args[0].axes))
        if short == "transpose" and isinstance(args[0], Layout):
            ax = kwargs.get("axes", args[1] if len(args) > 1 else None)
            if isinstance(ax, (list, tuple)) and all(isinstance(i, int) for i in ax):
                return Layout(args[0].axes[i] for i in ax)
        if short == "swapaxes" and isinstance(args[0], Layout) and len(args) == 3 and all(isinstance(i, int) for i in args[1:]):
            a = list(args[0].axes)
            try:
                a[args[1]], a[args[2]] = a[args[2]], a[args[1]]
            except IndexError:
                self.on_raise(Sym("exc", "AxisError", "axis out of bounds"), node)
            return Layout(a)
        if short == "moveaxis" and isinstance(args[0], Layout) and len(args) == 3 and all(isinstance(i, int) for i in args[1:]):
            a = list(args[0].axes)
            try:
                x = a.pop(args[1])
                a.insert(args[2] if args[2] >= 0 else len(a) + 1 + args[2], x)
            except IndexError:
                self.on_raise(Sym("exc", "AxisError", "axis out of bounds"), node)
            return Layout(a)
        if short == "flip" and isinstance(args[0], Layout):
            ax = kwargs.get("axis", args[1] if len(args) > 1 else None)
            if isinstance(ax, int):
                ax = (ax,)
            if isinstance(ax, (tuple, list)) and all(isinstance(i, int) for i in ax):
                a = list(args[0].axes)
                for i in ax:
                    g, inc = a[i]
                    a[i] = (g, not inc)
                return Layout(a)
            raise AnalysisError(f"np.flip with symbolic axis {ax!r}")
        if short == "ndim" and isinstance(args[0], Layout):
            return len(args[0].axes)
        if short == "shape" and isinstance(args[0], Layout):
            return tuple(self.sizes[g] for g, _ in args[0].axes)
        if short == "array_equal":
            a, b = args
            return list(a) == list(b)
        # boolean configuration vectors (axis directions): concrete values
        if short in ("logical_not", "invert") and isinstance(args[0], (list, tuple)) and all(isinstance(x, bool) for x in args[0]):
            return [not x for x in args[0]]
        if short in ("flatnonzero", "nonzero", "where") and len(args) == 1 and isinstance(args[0], (list, tuple)) and all(isinstance(x, bool) for x in args[0]):
            idx = [i for i, x in enumerate(args[0]) if x]
            return idx if short == "flatnonzero" else (idx,)
        if short in ("asarray", "array") and isinstance(args[0], (list, tuple)) and all(isinstance(x, bool) for x in args[0]):
            return list(args[0])
        return super().ext_call(name, args, kwargs, node)


def _grid_obj(repo, dim, rev, inc, sizes=None):
    c = repo.cls("StructuredGrid")
    g = Obj(cls=c, label=f"grid{dim}{'r' if rev else ''}")
    sizes = sizes or _LayoutInterp.sizes
    shape = tuple(sizes[gax] for gax in (range(dim)[::-1] if rev else range(dim)))
    g.fields.update(axes_reversed=rev, axes_increase=list(inc), data_shape=shape, dim=dim)
    return g


def _data_layout(dim, rev, inc):
    order = list(range(dim))[::-1] if rev else list(range(dim))
    return Layout((gax, inc[gax]) for gax in order)


def r33_mirror(repo, sink):
    import itertools
    c = repo.cls("StructuredGrid")
    tc = repo.resolve(c, "to_canonical", "method")
    fc = repo.resolve(c, "from_canonical", "method")
    if tc is None or fc is None:
        raise AnalysisError("StructuredGrid.to_canonical/from_canonical not found")
    cases, w_to, w_from, w_rt = 0, None, None, None
    for dim in (1, 2, 3):
        for rev in (False, True):
            for inc in itertools.product((True, False), repeat=dim):
                cases += 1
                g = _grid_obj(repo, dim, rev, inc)
                canon = Layout((gax, True) for gax in range(dim))
                data = _data_layout(dim, rev, inc)
                it = _LayoutInterp(repo)
                tag = f"{dim}D, axes_reversed={rev}, axes_increase={list(inc)}"
                try:
                    got = it.run(tc, [data], self_obj=g)
                    if got != canon:
                        w_to = w_to or f"{tag}: to_canonical turns data layout {data} into {got}, canonical is {canon}"
                    back = it.run(fc, [canon], self_obj=g)
                    if back != data:
                        w_from = w_from or f"{tag}: from_canonical turns {canon} into {back}, the grid's data layout is {data}"
                    rt = it.run(fc, [got], self_obj=g) if isinstance(got, Layout) else None
                    if rt != data:
                        w_rt = w_rt or f"{tag}: from_canonical(to_canonical(x)) has layout {rt}, not the original {data}"
                except Raised as r:
                    w_to = w_to or f"{tag}: raises {r.name} on correctly shaped data"
                except Undecided as u:
                    raise AnalysisError(f"to/from_canonical: undecidable {u}") from u
    sink.check(w_to is None, "R33", "canonical:to", tc, ok=f"{cases} layouts: canonical data is indexed x,y,z along increasing coordinates", bad=w_to or "")
    sink.check(w_from is None, "R33", "canonical:from", fc, ok=f"{cases} layouts: from_canonical restores the grid's own layout", bad=w_from or "")
    sink.check(w_rt is None, "R33", "canonical:round-trip", fc, ok="from_canonical o to_canonical is the identity for every layout", bad=w_rt or "")
    sink.floor("R33", "layouts", cases, 28)
    # wrong shape is refused
    g = _grid_obj(repo, 2, False, (True, True))
    it = _LayoutInterp(repo)
    bad_data = Layout(((1, True), (0, True)))
    try:
        it.run(tc, [bad_data], self_obj=g)
        sink.bad("R33", "canonical:shape-check", tc, "to_canonical accepts data whose shape is that of the transposed layout")
    except Raised as r:
        sink.check(r.name == "ValueError", "R33", "canonical:shape-check", tc, ok="wrongly shaped data raises ValueError", bad=f"raises {r.name}")
    # GridBase defaults are the identity
    gb = repo.cls("GridBase")
    for nm in ("to_canonical", "from_canonical"):
        f = repo.resolve(gb, nm, "method")
        rets = [r for r in fn_walk(f.node) if isinstance(r, ast.Return)]
        sink.check(len(rets) == 1 and isinstance(rets[0].value, ast.Name) and rets[0].value.id == f.params[0], "R33", f"identity:GridBase.{nm}", f,
                   ok="unstructured / no-grid data is passed through", bad=f"GridBase.{nm} is not the identity")


def r34_transdir(repo, sink):
    """get_transform_to: None only for equal layouts, else other.from_canonical(self.to_canonical(.));
    Input.exchange_info asks the *source* grid for the transform to the *merged input* grid."""
    import itertools
    c = repo.cls("StructuredGrid")
    gt = repo.resolve(c, "get_transform_to", "method")
    worst, cases = None, 0
    for dim in (1, 2, 3):
        size_sets = [dict(_LayoutInterp.sizes)] + [{**_LayoutInterp.sizes, k: 1} for k in range(dim)]
        for sizes in size_sets:
            for (r1, r2) in itertools.product((False, True), repeat=2):
                incs = list(itertools.product((True, False), repeat=dim))
                if dim == 3:
                    incs = [i for i in incs if sum(not x for x in i) <= 1] + [(False, False, False)]
                for inc1 in incs:
                    for inc2 in incs:
                        cases += 1
                        g1, g2 = _grid_obj(repo, dim, r1, inc1, sizes), _grid_obj(repo, dim, r2, inc2, sizes)
                        it = _TransInterp(repo, same=(r1 == r2 and inc1 == inc2))
                        it.sizes = sizes
                        tag = f"{dim}D extents {[sizes[k] for k in range(dim)]}"
                        try:
                            tr = it.run(gt, [g2], self_obj=g1)
                        except Raised as exc:
                            worst = worst or f"{tag}: get_transform_to raises {exc.name} for compatible grids"
                            continue
                        except Undecided as u:
                            raise AnalysisError(f"get_transform_to: undecidable {u}") from u
                        d1, d2 = _data_layout(dim, r1, inc1), _data_layout(dim, r2, inc2)

                        def norm(lay):
                            # the direction of an axis with a single entry is physically irrelevant
                            return Layout((g, True if sizes[g] == 1 else inc) for g, inc in lay.axes)

                        if tr is None:
                            if norm(d1) != norm(d2):
                                worst = worst or f"{tag}: no transform between different layouts {d1} -> {d2} (data is passed through unchanged)"
                            continue
                        try:
                            got = it.call(tr, [d1], {}, None, None)
                        except Raised as r:
                            worst = worst or f"{tag}: transform {d1} -> {d2} raises {r.name}"
                            continue
                        except Undecided as u:
                            raise AnalysisError(f"transform closure: undecidable {u}") from u
                        if not isinstance(got, Layout) or norm(got) != norm(d2):
                            worst = worst or f"{tag}: transform of source layout {d1} yields {got}, the target grid's layout is {d2}"
    sink.check(worst is None, "R34", "transform:layouts", gt, ok=f"{cases} layout pairs: transform maps the source layout onto the target layout; equal layouts pass through", bad=worst or "")
    # incompatible grids are refused
    it = _TransInterp(repo, same=False, compatible=False)
    try:
        it.run(gt, [_grid_obj(repo, 1, False, (True,))], self_obj=_grid_obj(repo, 1, False, (True,)))
        sink.bad("R34", "transform:incompatible", gt, "get_transform_to returns a transform for incompatible grids")
    except Raised as r:
        sink.check(r.name == "ValueError", "R34", "transform:incompatible", gt, ok="incompatible grids raise ValueError", bad=f"raises {r.name}")
    # direction and merge at the call site: the abstract exchange table (rules/exchange.py) decides that the transform goes from the
    # delivered grid to the input's merged grid and that requested fields win where set
    from . import exchange
    exchange.run(repo, sink, (exchange.r16x_input_exchange,))


class _TransInterp(_LayoutInterp):
    def __init__(self, repo, same, compatible=True):
        super().__init__(repo)
        self.same, self.compatible = same, compatible

    def call_hook(self, fv, args, kwargs, node, mod):
        if isinstance(fv, Closure) and getattr(fv.func, "name", "") == "compatible_with":
            return self.compatible
        return super().call_hook(fv, args, kwargs, node, mod)

    def compare(self, op, left, right, node):
        if isinstance(left, Obj) and isinstance(right, Obj) and left.label.startswith("grid") and right.label.startswith("grid") \
                and isinstance(op, (ast.Eq, ast.NotEq)):
            # the class's own __eq__ decides (layout-sensitive equality)
            eqm = self.repo.resolve(left.cls, "__eq__", "method")
            if eqm is None:
                raise AnalysisError("StructuredGrid.__eq__ not found")
            r = self.truth(self.call_func(Closure(eqm, self_obj=left), [right], {}, node), node)
            return r if isinstance(op, ast.Eq) else not r
        return super().compare(op, left, right, node)

    def ext_call(self, name, args, kwargs, node):
        short = name.split(".")[-1]
        if short == "all" and isinstance(args[0], (list, tuple)):
            return all(self.truth(x, node) for x in args[0])
        if short == "any" and isinstance(args[0], (list, tuple)):
            return any(self.truth(x, node) for x in args[0])
        return super().ext_call(name, args, kwargs, node)


# =========================================================================== R32
class _SibInterp(FinamInterp):
    def __init__(self, repo):
        super().__init__(repo)
        self.gen = []

    def call_hook(self, fv, args, kwargs, node, mod):
        if isinstance(fv, Closure) and getattr(fv.func, "name", "") in ("gen_points", "gen_cells"):
            f = fv.func
            bound = dict(zip(f.params, args))
            bound.update(kwargs)
            self.gen.append((f.name, bound))
            return Sym(f.name, len(self.gen))
        if isinstance(fv, Closure) and getattr(fv.func, "name", "") == "gen_node_centers":
            return Sym("node_centers")
        if isinstance(fv, Sym) and fv.op == "copy_of":
            return fv.args[0]  # a copy of generated points / cells is the same table
        return super().call_hook(fv, args, kwargs, node, mod)

    def get_attr(self, obj, attr, node, mod):
        if isinstance(obj, Sym) and obj.op in ("gen_points", "gen_cells", "node_centers") and attr == "copy":
            return Sym("copy_of", obj)
        return super().get_attr(obj, attr, node, mod)

    def sym_item(self, c, k, node):
        if isinstance(c, Sym) and isinstance(k, Sym) and k.op == "slice" and k.args == (None, None, -1):
            return Sym("rev", c)
        if isinstance(c, Sym) and isinstance(k, Sym) and k.op == "slice":
            return Sym("sl", c, k)
        if isinstance(c, Sym) and c.op in ("ax", "cax", "rev", "sl") and isinstance(k, int) and not isinstance(k, bool):
            return Sym("el", c, k)  # a single node / cell coordinate
        return super().sym_item(c, k, node)

    def builtin(self, name, args, kwargs, node):
        if name == "len" and isinstance(args[0], Sym):
            return 7
        return super().builtin(name, args, kwargs, node)

    def call(self, fv, args, kwargs, node, mod):
        if isinstance(fv, Sym) and fv.op == "ext" and fv.args[0] == "int" and args and isinstance(args[0], int):
            return int(args[0])
        return super().call(fv, args, kwargs, node, mod)


class _MeshDimInterp(_SibInterp):
    """Concrete node counts: arrays of them are lists, comparisons with a number are element-wise, sums count."""

    def ext_call(self, name, args, kwargs, node):
        short = name.split(".")[-1]
        if short in ("array", "asarray", "atleast_1d") and args and isinstance(args[0], (tuple, list)):
            return list(args[0])
        if short in ("sum", "count_nonzero") and args and isinstance(args[0], list):
            return sum(int(x) for x in args[0]) if short == "sum" else sum(1 for x in args[0] if x)
        if short in ("min", "amin", "max", "amax") and args and isinstance(args[0], (list, tuple)):
            return (min if "min" in short else max)(args[0])
        return super().ext_call(name, args, kwargs, node)

    def sym_compare(self, op, left, right, node):
        if isinstance(left, list) and isinstance(right, int):
            import operator
            table = {ast.Gt: operator.gt, ast.GtE: operator.ge, ast.Lt: operator.lt, ast.LtE: operator.le, ast.Eq: operator.eq, ast.NotEq: operator.ne}
            if type(op) in table:
                return [table[type(op)](x, right) for x in left]
        return super().sym_compare(op, left, right, node)


def r32_gridsib(repo, sink):
    """Sibling agreement by abstract evaluation of the StructuredGrid getters for every
    layout: data_shape / data_axes / points / cells / cell_centers / data_points."""
    import itertools
    from ..absbase import Vec
    c = repo.cls("StructuredGrid")
    getters = {}
    for n in ("points", "cells", "cell_centers", "data_shape", "data_axes"):
        g = repo.resolve(c, n, "getter")
        if g is None:
            raise AnalysisError(f"StructuredGrid.{n} not found")
        getters[n] = g
    dp = repo.resolve(repo.cls("Grid"), "data_points", "getter")
    flip = {"C": "F", "F": "C"}
    worst = {}
    cases = 0
    for dim in (1, 2, 3):
        for rev, order, loc in itertools.product((False, True), ("C", "F"), ("CELLS", "POINTS")):
            for inc in itertools.product((True, False), repeat=dim):
                cases += 1
                dims = (5, 4, 1)[:dim] if dim == 3 else (5, 4)[:dim]
                g = Obj(cls=c, label="grid")
                ax = [Sym("ax", i) for i in range(dim)]
                cax = [Sym("cax", i) for i in range(dim)]
                g.fields.update(dims=dims, dim=dim, axes_reversed=rev, axes_increase=list(inc), order=order,
                                data_location=Sym("enum", "Location", loc), axes=ax, cell_axes=cax)
                tag = f"{dim}D order={order} axes_reversed={rev} axes_increase={list(inc)} location={loc}"
                it = _SibInterp(repo)
                try:
                    shp = it.run(getters["data_shape"], [], self_obj=g)
                    base = dims[::-1] if rev else dims
                    want = tuple(max(d - 1, 1) for d in base) if loc == "CELLS" else tuple(base)
                    if tuple(shp) != want:
                        worst.setdefault("data_shape", f"{tag}: data_shape is {tuple(shp)}, must be {want}")
                    dax = it.run(getters["data_axes"], [], self_obj=g)
                    gs = list(range(dim))[::-1] if rev else list(range(dim))
                    src = cax if loc == "CELLS" else ax
                    want_ax = [src[k] if inc[k] else Sym("rev", src[k]) for k in gs]
                    if list(dax) != want_ax:
                        worst.setdefault("data_axes", f"{tag}: data_axes is {list(dax)!r}, must be {want_ax!r}")
                    app = flip[order] if rev else order
                    it.gen = []
                    pts = it.run(getters["points"], [], self_obj=g)
                    cls_ = it.run(getters["cells"], [], self_obj=g)
                    ctr = it.run(getters["cell_centers"], [], self_obj=g)
                    calls_ = {n: kw for n, kw in [(x[0] + str(i), x[1]) for i, x in enumerate(it.gen)]}
                    gp = [kw for n, kw in it.gen if n == "gen_points"]
                    gc = [kw for n, kw in it.gen if n == "gen_cells"]
                    if len(gp) != 2 or len(gc) != 1:
                        raise AnalysisError("points/cells/cell_centers do not call gen_points/gen_cells as expected")
                    if gp[0].get("axes") != ax or gp[0].get("order") != app or list(gp[0].get("axes_increase") or []) != list(inc):
                        worst.setdefault("points", f"{tag}: points generated with {gp[0]!r}; must use the grid axes, apparent order {app} and the axis directions")
                    if gp[1].get("axes") != cax or gp[1].get("order") != app or list(gp[1].get("axes_increase") or []) != list(inc):
                        worst.setdefault("cell_centers", f"{tag}: cell centres generated with {gp[1]!r}; must use the cell axes, apparent order {app} and the axis directions")
                    if tuple(gc[0].get("dims")) != dims or gc[0].get("order") != app:
                        worst.setdefault("cells", f"{tag}: cells generated with {gc[0]!r}; must use dims and apparent order {app}")
                    g.fields["points"], g.fields["cell_centers"] = Sym("POINTS"), Sym("CENTERS")
                    got = it.run(dp, [], self_obj=g)
                    if got != (Sym("POINTS") if loc == "POINTS" else Sym("CENTERS")):
                        worst.setdefault("data_points", f"{tag}: data_points returns {got!r}")
                except Raised as r:
                    worst.setdefault("raise", f"{tag}: raises {r.name}")
                except Undecided as u:
                    raise AnalysisError(f"StructuredGrid getters: undecidable {u}") from u
    # counts for regular and degenerate extents (extents are configuration values)
    for nm in ("cell_count", "point_count"):
        g = repo.resolve(c, nm, "getter")
        if g is None:
            continue
        getters[nm] = g
        for dims in ((5, 4, 3), (5, 4, 1), (4, 1), (1, 4), (3, 1, 4), (1,), (1, 1), (2, 2)):
            go = Obj(cls=c, label="grid")
            go.fields.update(dims=dims, dim=len(dims))
            try:
                got = _SibInterp(repo).run(g, [], self_obj=go)
            except (Raised, Undecided) as exc:
                raise AnalysisError(f"StructuredGrid.{nm}: {exc}") from exc
            want = 1
            for d in dims:
                want *= (max(d - 1, 1) if nm == "cell_count" else d)
            if got != want:
                worst.setdefault(nm, f"dims {dims}: {nm} is {got!r}, must be {want} (a degenerate axis contributes one layer of cells)")
    for n in ("data_shape", "data_axes", "points", "cell_centers", "cells", "data_points", "cell_count", "point_count"):
        if n not in getters and n != "data_points":
            continue
        sink.check(n not in worst, "R32", f"sibling:{n}", getters.get(n, dp),
                   ok=f"{cases} layouts: {n} follows axis order, axis directions, memory order and data location",
                   bad=worst.get(n, ""))
    if "raise" in worst:
        sink.bad("R32", "sibling:raises", getters["data_shape"], worst["raise"])
    sink.floor("R32", "layouts", cases, 100)
    ca = repo.resolve(c, "cell_axes", "getter")
    it = _SibInterp(repo)
    g = Obj(cls=c, label="grid")
    g.fields.update(axes=[Sym("ax", 0)])
    try:
        got = it.run(ca, [], self_obj=g)
        from ..absbase import same_value
        a0 = Sym("ax", 0)
        lo, hi = Sym("sl", a0, Sym("slice", None, -1, None)), Sym("sl", a0, Sym("slice", 1, None, None))
        ok = isinstance(got, list) and len(got) == 1 and same_value(got[0], Sym("div", Sym("add", lo, hi), 2))
        sink.check(ok, "R32", "cell_axes-midpoints", ca, ok="cell axes are the midpoints of neighbouring nodes", bad=f"cell_axes computes {got!r}, not (ax[:-1] + ax[1:]) / 2")
    except (Raised, Undecided, AnalysisError) as exc:
        sink.unknown("R32", "cell_axes-midpoints", ca, f"cell_axes outside vocabulary: {exc}")
    # the cell dimension (it selects the cell type and so the number of nodes per cell) counts the axes with more than one node:
    # gen_cells drops every flat axis (R32 cell-corners cases), so the two agree only with exactly this count - also for two flat axes
    md = repo.resolve(c, "mesh_dim", "getter")
    if md is not None:
        worst_md = None
        n_md = 0
        try:
            for dims in ((5,), (1,), (5, 4), (5, 1), (1, 4), (1, 1), (5, 4, 3), (5, 4, 1), (5, 1, 3), (1, 4, 3), (1, 1, 4), (1, 4, 1), (4, 1, 1), (1, 1, 1)):
                g = Obj(cls=c, label="grid")
                g.fields.update(dims=dims, dim=len(dims))
                got = _MeshDimInterp(repo).run(md, [], self_obj=g)
                n_md += 1
                want = sum(1 for d in dims if d > 1)
                if not (isinstance(got, int) and not isinstance(got, bool) and got == want):
                    worst_md = worst_md or (f"node counts {dims}: mesh_dim is {got!r}, the cells generated for these extents are {want}-dimensional "
                                            "(every flat axis is dropped): cell_types / cell_node_counts disagree with the connectivity")
            sink.check(worst_md is None, "R32", "mesh_dim:flat-axes", md,
                       ok=f"{n_md} extents (1-3D, zero to three flat axes): the cell dimension is the number of axes with more than one node",
                       bad=worst_md or "")
        except (Raised, Undecided, AnalysisError, TypeError, KeyError) as exc:
            sink.unknown("R32", "mesh_dim:flat-axes", md, f"mesh_dim outside vocabulary: {exc}")
    # data-location validation, casts, gen_points and order_map: abstract runs in rules/grid2.py
    from . import grid2
    grid2.r32p(repo, sink)


# ========================================================================== R32b
# Index-space typing: an index array has a type (space, order of the positions it is
# indexed by, numbering of the ids it holds).  order_map(shape, of=A, to=B) is
# arange.reshape(shape, A).reshape(-1, B): indexed by B-positions, holding A-ids.
# table[map] re-orders rows (the map's ids must use the table's row numbering),
# map[table] re-labels ids (the map must be indexed by the table's id numbering).
class _IdxMap:
    def __init__(self, space, index_order, value_order):
        self.space, self.index_order, self.value_order = space, index_order, value_order

    def __repr__(self):
        return f"map<{self.space}: {self.index_order}-positions -> {self.value_order}-ids>"


class _IdxTable:
    def __init__(self, row_order, id_order):
        self.row_order, self.id_order = row_order, id_order

    def __repr__(self):
        return f"cells<rows in {self.row_order} order, node ids in {self.id_order} numbering>"


class _IdxTypeError(Exception):
    pass


class _IdxInterp(FinamInterp):
    def call_hook(self, fv, args, kwargs, node, mod):
        if isinstance(fv, Closure) and getattr(fv.func, "name", "") == "order_map":
            shape = args[0]
            of = kwargs.get("of", args[1] if len(args) > 1 else "F")
            to = kwargs.get("to", args[2] if len(args) > 2 else "C")
            space = shape.args[0] if isinstance(shape, Sym) and shape.op == "space" else "?"
            return _IdxMap(space, to, of)
        return super().call_hook(fv, args, kwargs, node, mod)

    def get_item(self, c, k, node):
        if isinstance(c, _IdxMap) and isinstance(k, _IdxTable):
            if c.space != "points":
                raise _IdxTypeError(f"node ids are re-labelled with a map over the {c.space} index space")
            if c.index_order != k.id_order:
                raise _IdxTypeError(f"{c!r} is indexed by {c.index_order}-positions but the cell table holds {k.id_order}-numbered node ids")
            return _IdxTable(k.row_order, c.value_order)
        if isinstance(c, _IdxTable) and isinstance(k, _IdxMap):
            if k.space != "cells":
                raise _IdxTypeError(f"cell rows are re-ordered with a map over the {k.space} index space")
            if k.value_order != c.row_order:
                raise _IdxTypeError(f"{k!r} holds {k.value_order}-ids but the rows of the cell table are in {c.row_order} order")
            return _IdxTable(k.index_order, c.id_order)
        return super().get_item(c, k, node)


def r32b_indexspace(repo, sink):
    """Index-space typing of the C-order re-indexing in gen_cells: decided on the whole function (r32e_gen_cells)."""
    r32e_gen_cells(repo, sink)


# ========================================================================== R32c
class _CentInterp(FinamInterp):
    """Selection algebra for gen_node_centers: a boolean selector of one cell type and the
    indices of its true entries select the same rows; rows(CELLS, sel) restricted to the first n
    columns is cols(rows(CELLS, sel), n) however the two subscripts are written."""

    def __init__(self, repo):
        super().__init__(repo)
        self.stores = []

    def global_name(self, name, mod):
        if name == "NODE_COUNT":
            return Sym("NODE_COUNT")
        return super().global_name(name, mod)

    def ext_call(self, name, args, kwargs, node):
        short = name.split(".")[-1]
        if short == "unique":
            return [Sym("ctype")]
        if short in ("flatnonzero",) or (short in ("nonzero", "where") and len(args) == 1):
            a = args[0]
            return a if short == "flatnonzero" else (a,)
        if short == "empty":
            return Obj(label="result")
        if short in ("mean", "average", "nanmean"):
            ax = kwargs.get("axis", args[1] if len(args) > 1 else None)
            return Sym("mean", args[0], ax)
        if short in ("asarray", "array"):
            return args[0]
        return super().ext_call(name, args, kwargs, node)

    def get_attr(self, obj, attr, node, mod):
        if isinstance(obj, Sym) and obj.op != "ext" and attr == "mean":
            return Sym("meanmethod", obj)
        return super().get_attr(obj, attr, node, mod)

    def call_hook(self, fv, args, kwargs, node, mod):
        if isinstance(fv, Sym) and fv.op == "meanmethod":
            return Sym("mean", fv.args[0], kwargs.get("axis", args[0] if args else None))
        return super().call_hook(fv, args, kwargs, node, mod)

    def sym_compare(self, op, left, right, node):
        if isinstance(op, ast.Eq) and {repr(left), repr(right)} == {repr(Sym("CT")), repr(Sym("ctype"))}:
            return Sym("sel")
        return super().sym_compare(op, left, right, node)

    def truth(self, v, node):
        return super().truth(v, node)

    def e_Slice(self, e, env, mod):
        return Sym("slice", *(self.eval(x, env, mod) if x is not None else None for x in (e.lower, e.upper, e.step)))

    def sym_item(self, c, k, node):
        full = Sym("slice", None, None, None)
        if isinstance(c, Sym) and c.op == "NODE_COUNT":
            return Sym("node_count", k)
        if isinstance(k, tuple) and len(k) == 1:
            k = k[0]
        if isinstance(c, Sym) and c.op == "CELLS":
            if k == Sym("sel"):
                return Sym("rows", c, k)
            if isinstance(k, tuple) and len(k) == 2 and k[0] == Sym("sel") and isinstance(k[1], Sym) and k[1].op == "slice" and k[1].args[0] is None and k[1].args[2] is None:
                return Sym("cols", Sym("rows", c, Sym("sel")), k[1].args[1])
        if isinstance(c, Sym) and c.op == "rows" and isinstance(k, tuple) and len(k) == 2 and k[0] == full and isinstance(k[1], Sym) and k[1].op == "slice" \
                and k[1].args[0] is None and k[1].args[2] is None:
            return Sym("cols", c, k[1].args[1])
        if isinstance(c, Sym) and c.op == "PTS" and isinstance(k, Sym) and k.op in ("cols", "rows"):
            return Sym("take", c, k)
        return super().sym_item(c, k, node)

    def get_item(self, c, k, node):
        if isinstance(c, Sym) and c.op in ("CELLS", "PTS", "rows", "NODE_COUNT"):
            return self.sym_item(c, k, node)
        return super().get_item(c, k, node)

    def set_item(self, c, k, v, node):
        if isinstance(c, Obj) and c.label == "result":
            self.stores.append((k, v))
            return
        super().set_item(c, k, v, node)


def r32c_cellcenters(repo, sink):
    """Cell rows are padded with -1 for meshes mixing cell types (flatten_cells documents the
    convention): the centroid of a cell is the mean over exactly NODE_COUNT[type] node ids.
    Decided by an abstract run of gen_node_centers with a selection algebra."""
    f = repo.func("src/finam/data/grid_tools.py", "gen_node_centers")
    grid = Obj(label="grid")
    grid.fields.update(cell_types=Sym("CT"), points=Sym("PTS"), cells=Sym("CELLS"), cell_count=Sym("ncells"), dim=Sym("dim"))

    class _I(_CentInterp):
        def get_attr(self, obj, attr, node, mod):
            if isinstance(obj, Obj) and obj.label == "grid" and attr in obj.fields:
                return obj.fields[attr]
            return super().get_attr(obj, attr, node, mod)

    it = _I(repo)
    try:
        ret = it.run(f, [grid])
    except (AnalysisError, Undecided, Raised) as exc:
        sink.unknown("R32", "cell-centres", f, f"gen_node_centers outside vocabulary: {exc}")
        return
    want_nodes = Sym("cols", Sym("rows", Sym("CELLS"), Sym("sel")), Sym("node_count", Sym("ctype")))
    why = None
    if not (isinstance(ret, Obj) and ret.label == "result"):
        why = f"returns {ret!r}, not the table of centroids it filled"
    elif len(it.stores) != 1:
        why = f"{len(it.stores)} stores into the centroid table per cell type"
    else:
        key, val = it.stores[0]
        if key != Sym("sel"):
            why = f"centroids are written to rows {key!r}, not to the rows of the selected cell type"
        elif not (isinstance(val, Sym) and val.op == "mean"):
            why = f"the stored value {val!r} is not a mean"
        elif val.args[1] != 1:
            why = f"centroid is the mean over axis {val.args[1]!r}, not over the node axis (axis=1)"
        elif val.args[0] != Sym("take", Sym("PTS"), want_nodes):
            got = val.args[0]
            if "node_count" not in repr(got):
                why = ("the node ids of a cell are not restricted to the first NODE_COUNT[type] columns: in meshes mixing cell types the "
                       "-1 padding (= last point) is averaged into the centroid, cell centres and everything built on them (data points of "
                       "cell data, regridding) move")
            else:
                why = f"centroid is the mean of {got!r}; expected the points at the first NODE_COUNT[type] node ids of the cells of that type"
    sink.check(why is None, "R32", "cell-centres", f, ok="centroid = mean over exactly the nodes of the cell (padding excluded), per cell type", bad=why or "")


# ========================================================================== R32d
# Mixed-radix index algebra for gen_cells: the running cell index r of cell (i, j, k) in
# Fortran order is r = i + N0*j + N0*N1*k with 0 <= i < N0, 0 <= j < N1.  Floor division and
# modulo by the weights 1, N0, N0*N1 are exact digit operations; with them every corner
# column of gen_cells reduces to a polynomial in (i, j, k, N0, N1) that must be the
# Fortran-order id of one corner of that cell in the point grid (N0+1) x (N1+1) x (N2+1).
from ..poly import Poly as _Poly  # noqa: E402


class _Opaque(Exception):
    pass


def _mono_div(mono, div):
    """Divide monomial (tuple of (atom, pow)) by monomial div; None if not divisible."""
    m = dict(mono)
    for a, p in div:
        if m.get(a, 0) < p:
            return None
        m[a] -= p
        if m[a] == 0:
            del m[a]
    return tuple(sorted(m.items()))


def _idx_reduce(v, weights, digits_below):
    """Sym tree with add/sub/mul/floordiv/mod -> Poly. weights: list of Poly weights
    (W1=N0, W2=N0*N1); digits_below[w] = Poly of the digits strictly below that weight."""
    from ..interp import Sym as _S
    if isinstance(v, bool):
        raise _Opaque("bool")
    if isinstance(v, int):
        return _Poly.const(v)
    if isinstance(v, _S):
        if v.op in ("add", "sub", "mul"):
            a, b = _idx_reduce(v.args[0], weights, digits_below), _idx_reduce(v.args[1], weights, digits_below)
            return a + b if v.op == "add" else a - b if v.op == "sub" else a * b
        if v.op in ("floordiv", "mod"):
            a, b = _idx_reduce(v.args[0], weights, digits_below), _idx_reduce(v.args[1], weights, digits_below)
            w = next((w for w in weights if w == b), None)
            if w is None:
                raise _Opaque(f"{v.op} by {b!r}, which is not a mixed-radix weight of the cell index")
            (dmono, dcoef), = w.terms.items()
            high, low = {}, {}
            for mono, coef in a.terms.items():
                q = _mono_div(mono, dmono)
                if q is not None:
                    high[q] = high.get(q, 0) + coef / dcoef
                else:
                    low[mono] = coef
            lowp = _Poly(low)
            # the remainder must consist of digits below this weight only (then 0 <= low < weight)
            allowed = digits_below[repr(w)]
            for mono, coef in lowp.terms.items():
                if mono not in allowed.terms or allowed.terms[mono] != coef:
                    raise _Opaque(f"remainder {lowp!r} is not a sum of lower digits")
            return _Poly(high) if v.op == "floordiv" else lowp
        return _Poly.atom(v)
    raise _Opaque(repr(v))


class _CellTable:
    def __init__(self, ncols):
        self.cols = {}
        self.ncols = ncols


class _CellInterp(FinamInterp):
    def binop(self, op, left, right, node):
        if isinstance(op, ast.FloorDiv):
            return Sym("floordiv", left, right)
        if isinstance(op, ast.Mod):
            return Sym("mod", left, right)
        if isinstance(left, int) and isinstance(right, int):
            return super().binop(op, left, right, node)
        name = {ast.Add: "add", ast.Sub: "sub", ast.Mult: "mul"}.get(type(op))
        if name:
            return Sym(name, left, right)
        return super().binop(op, left, right, node)

    def ext_call(self, name, args, kwargs, node):
        short = name.split(".")[-1]
        if short == "empty":
            shape = args[0]
            return _CellTable(shape[1] if isinstance(shape, (tuple, list)) and len(shape) > 1 else 1)
        return super().ext_call(name, args, kwargs, node)

    def get_item(self, c, k, node):
        if isinstance(c, _CellTable) and isinstance(k, tuple) and len(k) == 2 and isinstance(k[1], int):
            if k[1] not in c.cols:
                raise AnalysisError(f"cell column {k[1]} read before it is written")
            return c.cols[k[1]]
        return super().get_item(c, k, node)

    def set_item(self, c, k, v, node):
        if isinstance(c, _CellTable) and isinstance(k, tuple) and len(k) == 2 and isinstance(k[1], int):
            c.cols[k[1]] = v
            return
        super().set_item(c, k, v, node)

    def e_Subscript(self, e, env, mod):
        cval = self.eval(e.value, env, mod)
        if isinstance(cval, _CellTable) and isinstance(e.slice, ast.Tuple):
            idx = e.slice.elts[1]
            return self.get_item(cval, (None, self.eval(idx, env, mod)), e)
        return super().e_Subscript(e, env, mod)

    def assign(self, t, v, env, mod):
        if isinstance(t, ast.Subscript) and isinstance(t.slice, ast.Tuple):
            cval = self.eval(t.value, env, mod)
            if isinstance(cval, _CellTable):
                self.set_item(cval, (None, self.eval(t.slice.elts[1], env, mod)), v, t)
                return
        super().assign(t, v, env, mod)


def r32d_cellcorners(repo, sink):
    """Corner formulas of gen_cells: decided on the whole function (r32e_gen_cells, run once per repo)."""
    r32e_gen_cells(repo, sink)


def _subst(v, mapping):
    if isinstance(v, Sym):
        if v in mapping:
            return mapping[v]
        return Sym(v.op, *[_subst(a, mapping) for a in v.args])
    return v


# ========================================================================== R32e
# gen_cells as a whole: one abstract run per mesh dimension and order.  The node table is a
# list of column formulas in the cell index R (mixed-radix algebra, as in R32d); for order 'C'
# the table additionally carries its index-space type (rows in F/C order, ids in F/C numbering,
# as in R32b) through the two order_map re-indexings.
class _WCells(_CellTable):
    def __init__(self, ncols):
        super().__init__(ncols)
        self.row_order, self.id_order = "F", "F"

    def clone(self):
        n = _WCells(self.ncols)
        n.cols = dict(self.cols)
        n.row_order, n.id_order = self.row_order, self.id_order
        return n

    def __repr__(self):
        return f"cells<rows in {self.row_order} order, node ids in {self.id_order} numbering>"


class _IdGrid:
    """Point ids arranged on the point grid: np.arange(n_points).reshape(point dims, order): id = sum idx_k * stride_k."""

    def __init__(self, dims, order, offsets=None, sliced=False):
        self.dims, self.order, self.offsets, self.sliced = list(dims), order, list(offsets or [0] * len(dims)), sliced

    def __repr__(self):
        return f"point-id grid {self.dims} ({self.order}), offsets {self.offsets}"


class _WholeCells(_CellInterp):
    def __init__(self, repo, n_syms):
        super().__init__(repo)
        self.n_syms = n_syms

    def _pk(self, v):
        """(k, c) if v denotes P_k + c."""
        if isinstance(v, Sym) and v.op == "P":
            return v.args[0], 0
        if isinstance(v, Sym) and v.op == "Pc":
            return v.args[0], v.args[1]
        return None

    def _pk_stop(self, v):
        if v in self.n_syms:
            return self.n_syms.index(v), -1  # N_k = P_k - 1
        return self._pk(v)

    def _id_column(self, g, order):
        """Flattening the corner slice of a point-id grid in `order`: the node id of cell (i, j, k) as a polynomial term, tagged
        with the order in which the cells are enumerated."""
        I = [Sym("i"), Sym("j"), Sym("k")]
        nd = len(g.dims)
        strides, acc = [], 1
        for k in (range(nd) if g.order == "F" else reversed(range(nd))):
            strides.append((k, acc))
            nk = self.n_syms[self._pk(g.dims[k])[0]]
            acc = Sym("mul", acc, Sym("add", nk, 1)) if acc != 1 else Sym("add", nk, 1)
        term = None
        for k, st in sorted(strides):
            idx = I[k] if g.offsets[k] == 0 else Sym("add", I[k], g.offsets[k])
            t = idx if st == 1 else Sym("mul", st, idx)
            term = t if term is None else Sym("add", term, t)
        return Sym("cellcol", term, order, g.order)

    # dims are the point counts P_k = N_k + 1 > 1
    def compare(self, op, left, right, node):
        if left in self.n_syms and isinstance(right, int) and not isinstance(right, bool) and type(op) in (ast.Gt, ast.GtE, ast.Lt, ast.LtE, ast.Eq, ast.NotEq):
            # N_k >= 1
            decided = {ast.Gt: True if right <= 0 else None, ast.GtE: True if right <= 1 else None, ast.Lt: False if right <= 1 else None,
                       ast.LtE: False if right <= 0 else None, ast.Eq: False if right <= 0 else None, ast.NotEq: True if right <= 0 else None}[type(op)]
            if decided is not None:
                return decided
        if isinstance(left, int) and not isinstance(left, bool) and right in self.n_syms and type(op) in (ast.Gt, ast.GtE, ast.Lt, ast.LtE):
            flip = {ast.Gt: ast.Lt, ast.GtE: ast.LtE, ast.Lt: ast.Gt, ast.LtE: ast.GtE}[type(op)]
            return self.compare(flip(), right, left, node)
        if isinstance(left, Sym) and left.op == "P" and isinstance(right, int) and isinstance(op, (ast.Gt, ast.GtE, ast.Lt, ast.LtE, ast.Eq, ast.NotEq)):
            return {ast.Gt: right <= 1, ast.GtE: right <= 2, ast.Lt: False, ast.LtE: False, ast.Eq: False, ast.NotEq: True}[type(op)] \
                if right <= 2 or isinstance(op, (ast.Lt, ast.LtE, ast.Eq, ast.NotEq)) else super().compare(op, left, right, node)
        return super().compare(op, left, right, node)

    def binop(self, op, left, right, node):
        if isinstance(op, ast.FloorDiv) and right == 1 and isinstance(left, Sym):
            return left
        if isinstance(op, ast.Mod) and right == 1 and isinstance(left, Sym):
            return 0
        if isinstance(op, ast.Mult) and (right == 1 or left == 1) and isinstance(left if right == 1 else right, Sym):
            return left if right == 1 else right
        if isinstance(op, ast.Sub) and isinstance(left, Sym) and left.op == "P" and right == 1:
            return self.n_syms[left.args[0]]  # P_k - 1 = N_k
        if isinstance(op, (ast.Add, ast.Sub)) and isinstance(right, int) and not isinstance(right, bool) and self._pk(left) is not None:
            k, c = self._pk(left)
            c = c + right if isinstance(op, ast.Add) else c - right
            return Sym("P", k) if c == 0 else Sym("Pc", k, c)  # (P_k + c): slice bounds of corner slices
        if isinstance(op, ast.Add) and isinstance(left, int) and not isinstance(left, bool) and self._pk(right) is not None:
            return self.binop(op, right, left, node)
        if isinstance(left, Sym) and left.op == "colvec":
            cols = right
            if isinstance(cols, (list, tuple)) and isinstance(op, ast.Add):
                t = _WCells(len(cols))
                for i, c in enumerate(cols):
                    t.cols[i] = c if c == 0 else Sym("add", left.args[0], c)
                    if c == 0:
                        t.cols[i] = left.args[0]
                return t
            raise AnalysisError("column vector combined with something else than a row of offsets")
        if isinstance(right, Sym) and right.op == "colvec" and isinstance(op, ast.Add):
            return self.binop(op, right, left, node)
        if isinstance(left, (list, tuple)) and isinstance(right, (list, tuple)) and isinstance(op, ast.Add):
            return list(left) + list(right)
        return super().binop(op, left, right, node)

    def ext_call(self, name, args, kwargs, node):
        short = name.split(".")[-1]
        if short == "prod":
            seq = list(args[0])
            out = seq[0] if seq else 1
            for x in seq[1:]:
                out = Sym("mul", out, x)
            return out
        if short == "arange":
            if args and _mentions_p(args[0]):
                return Sym("RP", args[0])  # running point id
            return Sym("R")
        if short == "empty":
            shape = args[0]
            return _WCells(shape[1] if isinstance(shape, (tuple, list)) and len(shape) > 1 else 1)
        if short in ("column_stack", "stack") and args and isinstance(args[0], (tuple, list)):
            if short == "stack" and kwargs.get("axis", args[1] if len(args) > 1 else 0) not in (1, -1):
                raise AnalysisError("np.stack along another axis than the corner axis")
            t = _WCells(len(args[0]))
            t.cols = dict(enumerate(args[0]))
            return t
        if short == "divmod" and len(args) == 2:
            return (Sym("floordiv", args[0], args[1]), Sym("mod", args[0], args[1]))
        if short in ("array", "asarray"):
            a = args[0]
            if isinstance(a, (list, tuple)) and len(a) == 1 and isinstance(a[0], (list, tuple)):
                t = _WCells(len(a[0]))
                t.cols = dict(enumerate(a[0]))
                return t
            return list(a) if isinstance(a, (list, tuple)) else a
        return super().ext_call(name, args, kwargs, node)

    def builtin(self, name, args, kwargs, node):
        if name == "int":
            return args[0]
        if name == "slice":
            return slice(*args)
        return super().builtin(name, args, kwargs, node)

    def global_name(self, name, mod):
        if name == "slice":
            return Sym("builtin", "slice")
        return super().global_name(name, mod)

    def get_attr(self, obj, attr, node, mod):
        if isinstance(obj, Sym) and obj.op == "ext" and attr == "newaxis":
            return None
        if isinstance(obj, Sym) and obj.op == "RP" and attr == "reshape":
            return Sym("method", obj, "reshape")
        if isinstance(obj, _IdGrid):
            if attr == "shape":
                return tuple(obj.dims)
            if attr in ("reshape", "ravel", "flatten"):
                return Sym("method", Ref(obj), attr)
        return super().get_attr(obj, attr, node, mod)

    def call_hook(self, fv, args, kwargs, node, mod):
        if isinstance(fv, Sym) and fv.op == "builtin" and fv.args[0] == "slice":
            return slice(*args)
        if isinstance(fv, Sym) and fv.op == "method":
            recv, meth = fv.args
            order = kwargs.get("order", "C")
            if isinstance(recv, Sym) and recv.op == "RP" and meth == "reshape":
                dims = args[0] if len(args) == 1 else args
                if not (isinstance(dims, (list, tuple)) and all(self._pk(d) is not None and self._pk(d)[1] == 0 for d in dims)):
                    raise AnalysisError("point ids reshaped to something else than the point grid")
                return _IdGrid(dims, order)
            if isinstance(recv, Ref) and isinstance(recv.obj, _IdGrid):
                g = recv.obj
                if meth == "reshape" and not (args and args[0] in (-1, (-1,), [-1])):
                    raise AnalysisError("corner slice reshaped to something else than a flat column")
                if not g.sliced:
                    raise AnalysisError("the whole point-id grid is flattened (no corner slice)")
                return self._id_column(g, order)
        if isinstance(fv, Closure) and getattr(fv.func, "name", "") == "order_map":
            shape = args[0]
            of = kwargs.get("of", args[1] if len(args) > 1 else "F")
            to = kwargs.get("to", args[2] if len(args) > 2 else "C")
            space = "points" if any(isinstance(x, Sym) and x.op == "P" for x in shape) else "cells"
            return _IdxMap(space, to, of)
        return super().call_hook(fv, args, kwargs, node, mod)

    def get_item(self, c, k, node):
        if isinstance(c, _IdGrid):
            ks = k if isinstance(k, tuple) else (k,)
            if len(ks) != len(c.dims) or not all(isinstance(x, slice) for x in ks):
                raise AnalysisError("point-id grid indexed by something else than one slice per axis")
            offs = []
            for ax, sl in enumerate(ks):
                stop = self._pk_stop(sl.stop)
                if not (isinstance(sl.start, int) and sl.step is None and stop is not None and stop[0] == self._pk(c.dims[ax])[0] and stop[1] == sl.start - 1):
                    raise _IdxTypeError(f"corner slice {sl.start}:{sl.stop!r} of axis {ax} does not select one corner of every cell (offset .. offset + N)")
                offs.append(sl.start)
            return _IdGrid(c.dims, c.order, offs, sliced=True)
        if isinstance(c, Sym) and isinstance(k, tuple) and len(k) == 2 and k[1] is None:
            return Sym("colvec", c)
        if isinstance(c, _IdxMap) and isinstance(k, _WCells):
            if c.space != "points":
                raise _IdxTypeError(f"node ids are re-labelled with a map over the {c.space} index space")
            if c.index_order != k.id_order:
                raise _IdxTypeError(f"{c!r} is indexed by {c.index_order}-positions but the cell table holds {k.id_order}-numbered node ids")
            n = k.clone()
            n.id_order = c.value_order
            return n
        if isinstance(c, _WCells) and isinstance(k, _IdxMap):
            if k.space != "cells":
                raise _IdxTypeError(f"cell rows are re-ordered with a map over the {k.space} index space")
            if k.value_order != c.row_order:
                raise _IdxTypeError(f"{k!r} holds {k.value_order}-ids but the rows of the cell table are in {c.row_order} order")
            n = c.clone()
            n.row_order = k.index_order
            return n
        return super().get_item(c, k, node)

    def set_item(self, c, k, v, node):
        if isinstance(c, _WCells) and isinstance(v, Sym) and v.op == "cellcol":
            term, row_order, id_order = v.args
            others = getattr(c, "_col_orders", set())
            others.add((row_order, id_order))
            c._col_orders = others
            if len(others) > 1:
                raise _IdxTypeError(f"the node columns enumerate the cells / number the nodes in different orders: {sorted(others)}")
            c.row_order, c.id_order = row_order, id_order
            v = term
        super().set_item(c, k, v, node)

    def e_Subscript(self, e, env, mod):
        cval = self.eval(e.value, env, mod)
        if isinstance(cval, _IdGrid):
            return self.get_item(cval, self.eval(e.slice, env, mod), e)
        if isinstance(cval, Sym) and isinstance(e.slice, ast.Tuple) and len(e.slice.elts) == 2 and isinstance(e.slice.elts[0], ast.Slice):
            return self.get_item(cval, (None, self.eval(e.slice.elts[1], env, mod)), e)
        if isinstance(cval, (_WCells, _IdxMap)):
            k = self.eval(e.slice, env, mod) if not isinstance(e.slice, ast.Tuple) else None
            if isinstance(k, (_WCells, _IdxMap)):
                return self.get_item(cval, k, e)
        return super().e_Subscript(e, env, mod)


def _mentions_p(v):
    if isinstance(v, Sym):
        return v.op in ("P", "Pc") or any(_mentions_p(a) for a in v.args)
    if isinstance(v, (list, tuple)):
        return any(_mentions_p(a) for a in v)
    return False


def r32e_gen_cells(repo, sink):
    """gen_cells(dims, order): corners (order 'F', 1-3D) and index-space typing (order 'C')."""
    import itertools
    if id(sink) in getattr(repo, "_r32e_done", set()):
        return
    repo.__dict__.setdefault("_r32e_done", set()).add(id(sink))
    gc = repo.func("src/finam/data/grid_tools.py", "gen_cells")
    N = [Sym("N0"), Sym("N1"), Sym("N2")]
    I = [Sym("i"), Sym("j"), Sym("k")]
    P = [Sym("P", 0), Sym("P", 1), Sym("P", 2)]
    cases = []
    for md in (1, 2, 3):
        cases.append((md, list(P[:md]), f"cell-corners:{md}D", ""))
        # flat axes (a single point) carry no cells: wherever they stand among the extents, the cells are those of the grid without them
        if md < 3:
            for pos in range(md + 1):
                dims = list(P[:md])
                dims.insert(pos, 1)
                cases.append((md, dims, f"cell-corners:{md}D:flat-axis-at-{pos}", f" (extents {['1' if d == 1 else 'n' for d in dims]}, one flat axis)"))
        if md == 1:
            for pos in range(3):
                dims = [1, 1, 1]
                dims[pos] = P[0]
                cases.append((md, dims, f"cell-corners:1D:only-axis-{pos}", f" (extents {['1' if d == 1 else 'n' for d in dims]}, two flat axes)"))
    for md, dims_in, ckey, cdesc in cases:
        r = I[0]
        if md >= 2:
            r = Sym("add", r, Sym("mul", N[0], I[1]))
        if md >= 3:
            r = Sym("add", r, Sym("mul", Sym("mul", N[0], N[1]), I[2]))
        it = _WholeCells(repo, N)
        try:
            table = it.run(gc, [dims_in], {"order": "F"})
        except (AnalysisError, Undecided, Raised) as exc:
            sink.unknown("R32", ckey, gc, f"gen_cells outside vocabulary{cdesc}: {exc}")
            continue
        if not isinstance(table, _CellTable) or len(table.cols) != 2 ** md:
            sink.unknown("R32", ckey, gc, f"expected a table of {2 ** md} corner columns{cdesc}, got {table!r}")
            continue
        n0, n1 = _Poly.atom(N[0]), _Poly.atom(N[1])
        weights = [n0, n0 * n1]
        i_, j_ = _Poly.atom(I[0]), _Poly.atom(I[1])
        digits_below = {repr(n0): i_, repr(n0 * n1): i_ + n0 * j_}

        def red(col):
            return _idx_reduce(_subst(col, {Sym("R"): r}), weights, digits_below)

        p0, p1 = n0 + _Poly.const(1), n1 + _Poly.const(1)
        k_ = _Poly.atom(I[2])
        want = set()
        for d in itertools.product((0, 1), repeat=md):
            pid = i_ + _Poly.const(d[0])
            if md >= 2:
                pid = pid + p0 * (j_ + _Poly.const(d[1]))
            if md >= 3:
                pid = pid + p0 * p1 * (k_ + _Poly.const(d[2]))
            want.add(pid)
        try:
            got = [red(table.cols[m]) for m in sorted(table.cols)]
        except _Opaque as exc:
            sink.bad("R32", ckey, gc,
                     f"{md}D cells{cdesc}: a corner formula does not reduce to a point id of the cell ({exc}): cells reference wrong or "
                     "non-existing points unless the cell counts per direction happen to coincide")
            continue
        ok = set(got) == want and len(set(got)) == 2 ** md
        sink.check(ok, "R32", ckey, gc,
                   ok=f"{md}D cells{cdesc}: the {2 ** md} node columns are exactly the corners of cell (i,j,k) in the Fortran-ordered point grid",
                   bad=f"{md}D cells{cdesc}: node columns reduce to {sorted(map(repr, got))}, the corners of cell (i,j,k) are {sorted(map(repr, want))}")
    # order 'C': node ids re-labelled F->C, rows re-ordered to C; order 'F' untouched
    why, unknown = None, None
    for md in (2, 3):
        for order in ("C", "F"):
            it = _WholeCells(repo, N)
            try:
                t = it.run(gc, [P[:md]], {"order": order})
            except _IdxTypeError as exc:
                why = why or (f"index-space mismatch in gen_cells({md}D, order='{order}'): {exc}: cells no longer describe the k-th cell of the data "
                              "layout (cell centres / cell data permuted for non-square grids)")
                continue
            except (AnalysisError, Undecided, Raised) as exc:
                unknown = unknown or f"gen_cells({md}D, order='{order}') outside vocabulary: {exc}"
                continue
            if not isinstance(t, _WCells):
                unknown = unknown or f"gen_cells({md}D, order='{order}') returns {t!r}"
            elif (t.row_order, t.id_order) != (order, order):
                why = why or f"gen_cells({md}D, order='{order}') yields {t!r}; rows must be in {order} order with {order}-numbered node ids"
    if why is None and unknown is not None:
        sink.unknown("R32", "gen_cells-reorder", gc, unknown)
    else:
        sink.check(why is None, "R32", "gen_cells-reorder", gc, ok="C order: node ids re-labelled F->C numbering, rows re-ordered to C order; F order untouched",
                   bad=why or "")
