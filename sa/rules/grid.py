"""Grid rules: R31 MEMO (invalidation), R19 TAXIS (time-axis discipline), R32 GRIDSIB,
R33 MIRROR, R34 TRANSDIR."""
from __future__ import annotations

import ast

from ..astq import U, call_name, calls, fn_walk, self_attr, stmt_key, walk
from ..loader import AnalysisError, Func, body_of


# =========================================================================== R31
def _memo_getters(repo):
    """[(class, getter, memo field, value expr)] for getters of the lazily-memoised form
    `if self._x is None: self._x = E` ... `return self._x`."""
    out = []
    for c in repo.all_classes():
        for name, g in c.getters.items():
            body = body_of(g.node)
            if len(body) < 2 or not isinstance(body[-1], ast.Return):
                continue
            ret = self_attr(body[-1].value) if body[-1].value is not None else None
            if ret is None:
                continue
            for s in body[:-1]:
                if (isinstance(s, ast.If) and isinstance(s.test, ast.Compare) and len(s.test.ops) == 1
                        and isinstance(s.test.ops[0], ast.Is) and self_attr(s.test.left) == ret
                        and isinstance(s.test.comparators[0], ast.Constant) and s.test.comparators[0].value is None):
                    asg = [x for x in s.body if isinstance(x, ast.Assign) and any(self_attr(t) == ret for t in x.targets)]
                    if asg:
                        out.append((c, g, ret, asg[0].value))
    return out


def _read_fields(repo, c, start_cls, expr, seen):
    """Private fields read by `expr` (evaluated on an instance of class c), closed over
    property getters; `super().p` resolves after start_cls in c's MRO."""
    fields = set()
    for n in ast.walk(expr):
        if not isinstance(n, ast.Attribute):
            continue
        base = n.value
        getter = None
        if isinstance(base, ast.Name) and base.id == "self":
            getter = repo.resolve(c, n.attr, "getter")
            if getter is None and repo.resolve(c, n.attr, "method") is None:
                fields.add(n.attr)
        elif isinstance(base, ast.Call) and U(base) == "super()":
            mro = repo.mro(c)
            if start_cls in mro:
                for k in mro[mro.index(start_cls) + 1:]:
                    if n.attr in k.getters:
                        getter = k.getters[n.attr]
                        break
        if getter is not None and getter.qualname not in seen:
            seen.add(getter.qualname)
            for s in body_of(getter.node):
                fields |= _read_fields(repo, c, getter.cls, s, seen)
    return fields


def r31_memo(repo, sink):
    # scope: grid specifications (the property is about data_shape / data_size / data_points)
    gb = repo.cls("GridBase")
    memos = [m for m in _memo_getters(repo) if repo.is_subclass(m[0], gb)]
    sink.note("R31.memoised_getters", [f"{c.name}.{g.name} -> self.{m}" for c, g, m, _ in memos])
    for c, g, memo, expr in memos:
        concrete = [k for k in repo.subclasses(c) if not repo.is_abstract(k)] or [c]
        deps = set()
        for k in concrete:
            deps |= _read_fields(repo, k, c, expr, {g.qualname})
        deps.discard(memo)
        sink.note(f"R31.deps.{c.name}.{g.name}", sorted(deps))
        writers = []
        related = set(repo.mro(c)) | set(repo.subclasses(c))
        for k in related:
            for table in (k.methods, k.setters):
                for f in table.values():
                    if f.name == "__init__":
                        continue
                    stores = {self_attr(t) for n in fn_walk(f.node) if isinstance(n, (ast.Assign, ast.AugAssign))
                              for t in (n.targets if isinstance(n, ast.Assign) else [n.target])
                              if self_attr(t)}
                    hit = stores & deps
                    if hit:
                        writers.append((f, hit, stores))
        for f, hit, stores in writers:
            # only writers that an instance holding the memo can execute
            if not any(repo.resolve(k, f.name, "setter" if f.name in f.cls.setters and f.cls.setters[f.name] is f else "method") is f
                       for k in concrete):
                continue
            resets = memo in stores and any(
                isinstance(n, ast.Assign) and any(self_attr(t) == memo for t in n.targets)
                and isinstance(n.value, ast.Constant) and n.value.value is None for n in fn_walk(f.node))
            sink.check(resets, "R31", f"memo-reset:{c.name}.{g.name}:{f.qualname}", f,
                       ok=f"{f.qualname} writes {sorted(hit)} and resets the memo self.{memo}",
                       bad=f"{f.qualname} writes {sorted(hit)}, which {c.name}.{g.name} is computed from, "
                           f"without resetting the memo self.{memo}: the cached value stays stale")
        # foreign writes (`other._f = ...`) to a dependency
        for m in repo.modules.values():
            for n in ast.walk(m.tree):
                if isinstance(n, ast.Assign):
                    for t in n.targets:
                        if isinstance(t, ast.Attribute) and t.attr in deps and not self_attr(t) and isinstance(t.value, ast.Name):
                            fn = _enclosing_fn(n)
                            ref = t.value.id
                            fresh = fn is not None and any(
                                isinstance(x, ast.Assign) and any(isinstance(y, ast.Name) and y.id == ref for y in x.targets)
                                and isinstance(x.value, ast.Call) for x in ast.walk(fn))
                            reset = fn is not None and any(
                                isinstance(x, ast.Assign) and any(isinstance(y, ast.Attribute) and y.attr == memo and U(y.value) == ref for y in x.targets)
                                for x in ast.walk(fn))
                            sink.check(fresh or reset, "R31", f"memo-foreign-write:{c.name}.{g.name}:{t.attr}", (m.relpath, n.lineno),
                                       ok=f"{ref}.{t.attr} written on a freshly constructed object / memo reset",
                                       bad=f"{ref}.{t.attr} is written from outside without resetting {memo}")
    # positive example (no floor: a repair may remove the memo altogether)
    probe_src = (
        "class P:\n"
        "    @property\n"
        "    def shape(self):\n"
        "        if self._shape is None:\n"
        "            self._shape = self._loc + 1\n"
        "        return self._shape\n"
        "    @property\n"
        "    def loc(self):\n"
        "        return self._loc\n"
        "    @loc.setter\n"
        "    def loc(self, v):\n"
        "        self._loc = v\n"
    )
    if not _probe_flags(probe_src):
        sink.unknown("R31", "positive-example", None, "rule failed to flag the embedded stale memo")
    if not memos:
        sink.ok("R31", "no-memoised-getters", None, "no lazily memoised property left in src/finam")


def _probe_flags(src):
    t = ast.parse(src)
    cls = t.body[0]
    setter = [f for f in cls.body if isinstance(f, ast.FunctionDef) and any(isinstance(d, ast.Attribute) and d.attr == "setter" for d in f.decorator_list)][0]
    stores = {x.attr for n in ast.walk(setter) if isinstance(n, ast.Assign) for x in n.targets if isinstance(x, ast.Attribute)}
    return "_loc" in stores and "_shape" not in stores


def _enclosing_fn(n):
    cur = getattr(n, "_parent", None)
    while cur is not None and not isinstance(cur, ast.FunctionDef):
        cur = getattr(cur, "_parent", None)
    return cur


# =========================================================================== R19
TL, SP = "TIME_LEADING", "SPATIAL"
TL_SOURCES = ("get_data", "pull_data", "prepare")


def _all_funcs(repo):
    out = []
    for m in repo.modules.values():
        for f in m.funcs.values():
            out.append(f)
            out.extend(repo.nested_funcs(f))
        for c in m.classes.values():
            for table in (c.methods, c.getters, c.setters):
                for f in table.values():
                    out.append(f)
                    out.extend(repo.nested_funcs(f))
    return out


def _rank_sensitive_params(f):
    """Parameters to which an axis-less transpose / .T is applied (through same-name
    re-assignment chains)."""
    params = set(f.params)
    hit = set()
    for n in fn_walk(f.node):
        if isinstance(n, ast.Call) and U(n.func) in ("np.transpose", "numpy.transpose") and len(n.args) == 1 and not n.keywords:
            a = n.args[0]
            if isinstance(a, ast.Name) and a.id in params:
                hit.add(a.id)
        if isinstance(n, ast.Attribute) and n.attr == "T" and isinstance(n.value, ast.Name) and n.value.id in params:
            hit.add(n.value.id)
        if isinstance(n, ast.Call) and isinstance(n.func, ast.Attribute) and n.func.attr == "transpose" and not n.args and not n.keywords:
            if isinstance(n.func.value, ast.Name) and n.func.value.id in params:
                hit.add(n.func.value.id)
    return hit


def r19_taxis(repo, sink):
    funcs = _all_funcs(repo)
    by_name = {}
    for f in funcs:
        by_name.setdefault(f.name, []).append(f)
    sinks = {}
    for f in funcs:
        s = _rank_sensitive_params(f)
        if s:
            sinks[f.qualname] = (f, set(s))
    base = sorted(sinks)
    # propagate: a parameter handed unchanged to a sink parameter of a callee is a sink
    changed = True
    rounds = 0
    while changed and rounds < 6:
        changed = False
        rounds += 1
        for f in funcs:
            params = set(f.params)
            for c in calls(f.node):
                name = call_name(c)
                for qn, (g, gs) in list(sinks.items()):
                    if g.name != name or g is f:
                        continue
                    gparams = g.params
                    for i, a in enumerate(c.args):
                        if isinstance(a, ast.Name) and a.id in params and i < len(gparams) and gparams[i] in gs:
                            if not _reassigned_before(f, a):
                                cur = sinks.setdefault(f.qualname, (f, set()))[1]
                                if a.id not in cur:
                                    cur.add(a.id)
                                    changed = True
    sink.note("R19.rank_sensitive", {q: sorted(p) for q, (_f, p) in sorted(sinks.items())})
    # closures returned by a function and fields assigned from such a function
    ret_closure = {}
    for f in funcs:
        for r in fn_walk(f.node):
            if isinstance(r, ast.Return) and r.value is not None:
                for n in ast.walk(r.value):
                    if isinstance(n, ast.Name) and f"{f.qualname}.<locals>.{n.id}" in sinks:
                        ret_closure[f.name] = sinks[f"{f.qualname}.<locals>.{n.id}"]
    sink_fields = {}
    for f in funcs:
        for n in fn_walk(f.node):
            if isinstance(n, ast.Assign) and isinstance(n.value, ast.Call) and call_name(n.value) in ret_closure:
                for t in n.targets:
                    if self_attr(t) and f.cls is not None:
                        sink_fields[(f.cls.name, self_attr(t))] = ret_closure[call_name(n.value)]
    sink.note("R19.fields_holding_rank_sensitive_closures", [f"{c}.{a}" for c, a in sorted(sink_fields)])
    # forward tags inside classes
    n_flows = 0
    for c in repo.all_classes():
        ptags = {}  # (method, param) -> tag, from call sites within the class (definite only)
        for _round in range(3):
            for f in c.methods.values():
                for call in calls(f.node):
                    if isinstance(call.func, ast.Attribute) and self_attr(call.func):
                        callee = repo.resolve(c, self_attr(call.func), "method")
                        if callee is not None:
                            env = _tl_env(f, {p: ptags.get((f.name, p)) for p in f.params}, call)
                            for p, a in zip(callee.params, call.args):
                                tg = _tag_of(a, env)
                                key = (callee.name, p)
                                if tg is not None:
                                    prev = ptags.get(key, tg)
                                    ptags[key] = tg if prev == tg else "MIXED"
        for f in c.methods.values():
            for call in calls(f.node):
                target = None
                if isinstance(call.func, ast.Attribute) and self_attr(call.func):
                    for k in repo.mro(c):
                        if (k.name, self_attr(call.func)) in sink_fields:
                            target = sink_fields[(k.name, self_attr(call.func))]
                if target is None:
                    name = call_name(call)
                    cands = [(g, gs) for (g, gs) in sinks.values() if g.name == name and g.cls is not None
                             and isinstance(call.func, ast.Attribute)]
                    if len(cands) >= 1 and name in ("to_canonical", "from_canonical"):
                        target = cands[0]
                if target is None:
                    continue
                g, gs = target
                env = _tl_env(f, {p: ptags.get((f.name, p)) for p in f.params}, call)
                for i, a in enumerate(call.args):
                    if i < len(g.params) and g.params[i] in gs:
                        n_flows += 1
                        tg = _tag_of(a, env)
                        key = f"taxis:{f.qualname}:{stmt_key(call)}"
                        if tg == TL:
                            sink.bad("R19", key, (f.file, call.lineno),
                                     f"data with a leading time axis (from {'/'.join(TL_SOURCES)}) reaches the rank-sensitive "
                                     f"parameter `{g.params[i]}` of {g.qualname} (axis-less transpose / flips counted from axis 0): "
                                     "values end up at other locations or the shape check fails", func=f.qualname,
                                     path=f"{f.qualname} -> {U(call.func)} -> {g.qualname}")
                        elif tg == SP:
                            sink.ok("R19", key, (f.file, call.lineno), "spatial (time-stripped) data reaches the rank-sensitive parameter", func=f.qualname)
    sink.note("R19.flows_into_rank_sensitive_parameters", n_flows)
    # positive example
    probe = ast.parse("def f(self, time):\n    d = self.pull_data(time)\n    return self._transform(d)\n").body[0]
    pf = type("F", (), {"node": probe, "params": ["time"]})()
    env = _tl_env(pf, {})
    if _tag_of(probe.body[1].value.args[0], env) != TL:
        sink.unknown("R19", "positive-example", None, "tag propagation failed on the embedded example")


def _reassigned_before(f, name_node):
    for n in fn_walk(f.node):
        if isinstance(n, ast.Name) and n.id == name_node.id and isinstance(n.ctx, ast.Store) and n.lineno < name_node.lineno:
            return True
    return False


def _tl_env(f, param_tags, before=None):
    """Tags of locals just before AST node `before` (assignments in source order)."""
    env = {k: v for k, v in param_tags.items() if v in (TL, SP)}
    for s in _ordered_assigns(f.node):
        if before is not None and ((s.lineno, s.col_offset) >= (before.lineno, before.col_offset)
                                   or any(before is x for x in ast.walk(s))):
            continue
        tg = _tag_of(s.value, env)
        for t in s.targets:
            if isinstance(t, ast.Name):
                if tg is None:
                    env.pop(t.id, None)
                else:
                    env[t.id] = tg
            elif isinstance(t, ast.Tuple) and t.elts and isinstance(t.elts[0], ast.Name):
                # xdata, conv = prepare(..., report_conversion=True)
                if tg is not None:
                    env[t.elts[0].id] = tg
    return env


def _ordered_assigns(fn):
    return sorted([n for n in fn_walk(fn) if isinstance(n, ast.Assign)], key=lambda n: (n.lineno, n.col_offset))


def _tag_of(e, env):
    if isinstance(e, ast.Name):
        return env.get(e.id)
    if isinstance(e, ast.Call):
        name = call_name(e)
        if name in TL_SOURCES:
            return TL
        if name == "strip_time":
            return SP
        if name in ("to_units", "copy", "filled", "to_masked") and e.args:
            return _tag_of(e.args[0], env)
        if name == "_convert_and_check" and e.args:
            return _tag_of(e.args[0], env)
        return None
    if isinstance(e, ast.Subscript):
        base = _tag_of(e.value, env)
        sl = e.slice
        if base == TL and isinstance(sl, ast.Tuple) and sl.elts and not isinstance(sl.elts[0], ast.Slice):
            return SP
        if base == TL and not isinstance(sl, (ast.Tuple, ast.Slice)):
            return SP
        return None
    if isinstance(e, ast.IfExp):
        a, b = _tag_of(e.body, env), _tag_of(e.orelse, env)
        return a if a == b else None
    return None
