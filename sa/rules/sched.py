"""Scheduler rules: R01 NEXT-PULL, R02 SCHED-AGREE, R03 GATE, R04 CMP, R05 SELECT, R09 CYCLE."""
from __future__ import annotations

import ast
import itertools

from .. import lek
from ..astq import U, calls, call_name, fn_walk, self_attr, stmt_key, walk
from ..cfg import CFG
from ..absbase import FinamInterp, Logger, Ref
from ..interp import Closure, Obj, Raised, Sym, Undecided
from ..loader import AnalysisError, body_of
from ..schedmodel import SchedInterp, Topo, data_path_term

SCHED = "src/finam/schedule.py"
KINDS = [lek.PASS, lek.DELAY, lek.BREAK, lek.BUFFER]


# =========================================================================== R02
def _reps(repo):
    ads, _eps = lek.require_table(repo)
    reps = {}
    for e in ads:
        reps.setdefault(e.kind, e.name)
    missing = [k for k in KINDS if k not in reps]
    if missing:
        raise AnalysisError(f"no adapter class of kind {missing} in src/finam")
    return ads, reps


def _run_walk(repo, chain_classes, owner_timed=True, static_out=False):
    """Abstractly run _find_dependencies for one link; chain_classes downstream->upstream.
    Returns (paths, out_obj, delay_names downstream->upstream)."""
    topo = Topo(repo)
    a = topo.comp("SRC", timed=owner_timed)
    b = topo.comp("DST", timed=True)
    out = topo.output(a, "out", static=static_out, pull=not owner_timed)
    elems = topo.link(out, list(reversed(chain_classes)), b)
    dnames = [e.fields.get("_dname") for e in reversed(elems)]
    f = repo.func(SCHED, "_find_dependencies")
    it = SchedInterp(repo)
    paths = it.run_all(lambda: it.run(f, [b, dict(topo.owner), Sym("t")]))
    return paths, out, dnames


def _judge_walk(paths, out, tau, owner_timed):
    """Compare the extracted walk model with the data-path requirement `tau`."""
    T = out.fields["time"]
    for decs, (kind, val) in paths:
        if kind == "raise":
            return f"walk raises {val.name}"
        if not isinstance(val, dict):
            return f"walk returns {val!r}, not a dict of dependencies"
        present = out in val
        conds = [c for c, _ in decs]
        if tau is None:
            if present:
                return f"walk reports a dependency at {val[out][0]!r}; on the data path no pull reaches the source (dependency broken)"
            continue
        if not owner_timed:
            if not present:
                return "walk drops the dependency on a pull-based component's output"
            if val[out][0] != tau:
                return f"walk assumes {val[out][0]!r}, data path requests {tau!r}"
            continue
        want = Sym("lt", T, tau)
        lag = [c for c in conds if isinstance(c, Sym) and c.op in ("lt", "le") and T in c.args]
        if want not in conds:
            if lag:
                c = lag[0]
                if c.op == "le" and c.args == want.args:
                    return f"lag test is non-strict ({c!r}): a source exactly at the requested time is advanced again"
                other = c.args[1] if c.args[0] == T else c.args[0]
                return f"walk checks availability for {other!r}, data path requests {tau!r}"
            return f"walk never compares the source time with the requested time {tau!r}"
        d = dict((c, v) for c, v in decs)[want]
        if d and not present:
            return f"source lags behind {tau!r} but no dependency is reported"
        if not d and present:
            return f"source is not lagging behind {tau!r} but a dependency is reported"
        if present and val[out][0] != tau:
            return f"dependency recorded for {val[out][0]!r}, data path requests {tau!r}"
    return None


def r02_sched_agree(repo, sink, tier="quick"):
    ads, reps = _reps(repo)
    f = repo.func(SCHED, "_find_dependencies")
    sink.note("R02.lek", [e.row() for e in ads])
    max_len = 3 if tier == "quick" else 5
    mismatches = {}
    n = 0
    for L in range(0, max_len + 1):
        for chain in itertools.product(KINDS, repeat=L):
            for owner_timed in (True, False):
                n += 1
                classes = [reps[k] for k in chain]
                try:
                    paths, out, dnames = _run_walk(repo, classes, owner_timed)
                except Undecided as u:
                    raise AnalysisError(f"_find_dependencies: condition outside the walk vocabulary: {u}") from u
                tau = data_path_term(list(chain), dnames, Sym("t"))
                why = _judge_walk(paths, out, tau, owner_timed)
                if why:
                    core = tuple(k for k in chain if k != lek.PASS)
                    mismatches.setdefault((core, owner_timed), (chain, why))
                elif L <= 2:
                    sink.ok("R02", f"walk:{','.join(chain) or '-'}:{'time' if owner_timed else 'pull'}-owner",
                            f, f"walk and data path agree: requirement {tau!r}")
    sink.note("R02.chains", n)
    # minimal patterns only
    cores = sorted({c for c, _ in mismatches}, key=len)
    minimal = []
    for c in cores:
        if not any(_subseq(m, c) and m != c for m in minimal):
            minimal.append(c)
    for c in minimal:
        for ot in (True, False):
            if (c, ot) in mismatches:
                chain, why = mismatches[(c, ot)]
                sink.bad("R02", f"walk:{','.join(c) or '-'}", f,
                         f"adapter kinds downstream->upstream {','.join(c) or '(direct link)'}: {why}",
                         example_chain=list(chain), mismatching_patterns=len(cores))
                break
    # every concrete adapter class must behave like its kind's representative
    for e in ads:
        paths, out, dnames = _run_walk(repo, [e.name], True)
        tau = data_path_term([e.kind], dnames, Sym("t"))
        why = _judge_walk(paths, out, tau, True)
        key = f"walk-class:{e.name}"
        if why and (e.kind,) not in minimal and () not in minimal:
            sink.bad("R02", key, f, f"{e.name} ({e.kind}): {why}")
        elif not why:
            sink.ok("R02", key, f, f"{e.name} is walked as {e.kind}")
    # adapters are recognised by the public interfaces (ITimeDelayAdapter, NoDependencyAdapter), not by the SDK base classes: a
    # third-party adapter that implements only the interface shifts / cuts the dependency like the library ones
    for label, kind in (("<interface-only delay adapter>", lek.DELAY), ("<interface-only no-dependency delay adapter>", lek.BREAK)):
        try:
            paths, out, dnames = _run_walk(repo, [label], True)
        except Undecided as u:
            raise AnalysisError(f"_find_dependencies: condition outside the walk vocabulary: {u}") from u
        tau = data_path_term([kind], dnames, Sym("t"))
        why = _judge_walk(paths, out, tau, True)
        sink.check(not why, "R02", f"walk-interface:{kind}", f, ok=f"an adapter that implements only the interface is walked as {kind}",
                   bad=f"an adapter implementing only the public interface ({label[1:-1]}) is not treated as {kind}: {why}")
    # static outputs never create a dependency
    paths, out, _ = _run_walk(repo, [], True, static_out=True)
    bad = [1 for _d, (k, v) in paths if k != "ret" or (isinstance(v, dict) and out in v)]
    sink.check(not bad, "R02", "walk:static-output", f,
               ok="static output creates no scheduling dependency",
               bad="static output is reported as a scheduling dependency")
    _r02_max(repo, sink, reps, f)
    _r02_independent(repo, sink, reps, f)
    sink.floor("R02", "kind chains", n, 85 * 2)


def _subseq(a, b):
    it = iter(b)
    return all(x in it for x in a)


def _r02_independent(repo, sink, reps, f):
    """Two inputs on two different outputs: each link is walked on its own (no state of the
    walk may leak from one input to the next)."""
    worst = None
    pairs = 0
    for k1 in KINDS:
        for k2 in KINDS:
            pairs += 1
            topo = Topo(repo)
            a1, a2, b = topo.comp("S1"), topo.comp("S2"), topo.comp("DST")
            o1, o2 = topo.output(a1), topo.output(a2)
            e1 = topo.link(o1, [reps[k1]], b, "in1")
            e2 = topo.link(o2, [reps[k2]], b, "in2")
            it = SchedInterp(repo)
            try:
                paths = it.run_all(lambda: it.run(f, [b, dict(topo.owner), Sym("t")]))
            except Undecided as u:
                raise AnalysisError(f"_find_dependencies: {u}") from u
            for (out, el, k) in ((o1, e1, k1), (o2, e2, k2)):
                tau = data_path_term([k], [el[0].fields.get("_dname")], Sym("t"))
                sub = []
                for decs, outc in paths:
                    sub.append((decs, outc))
                why = _judge_walk(sub, out, tau, True)
                if why and worst is None:
                    worst = f"inputs via {k1} (first) and {k2} (second): link through {k}: {why}"
    sink.check(worst is None, "R02", "walk:independent-inputs", f,
               ok=f"{pairs} ordered pairs of adapter kinds on two inputs: every link is judged on its own", bad=worst or "")


def _r02_max(repo, sink, reps, f):
    """Two inputs of one consumer fed by the same output: the most demanding time wins."""
    for order in ((0, 1), (1, 0)):
        topo = Topo(repo)
        a = topo.comp("SRC")
        b = topo.comp("DST")
        out = topo.output(a, "out")
        chains = [[reps[lek.DELAY]], []]
        topo.link(out, chains[order[0]], b, "in1")
        topo.link(out, chains[order[1]], b, "in2")
        it = SchedInterp(repo)
        paths = it.run_all(lambda: it.run(f, [b, dict(topo.owner), Sym("t")]))
        T = out.fields["time"]
        t0, t1 = Sym("d0", Sym("t")), Sym("t")
        why = None
        for decs, (kind, val) in paths:
            if kind != "ret" or not isinstance(val, dict):
                why = "walk fails on two inputs sharing one output"
                break
            d = {c: v for c, v in decs}
            lag0, lag1 = d.get(Sym("lt", T, t0)), d.get(Sym("lt", T, t1))
            if lag0 is None or lag1 is None:
                if not (lag0 or lag1):
                    continue
            if not (lag0 or lag1):
                if out in val:
                    why = "dependency reported though no input lags"
                continue
            if out not in val:
                why = "an input lags but no dependency is reported"
                break
            got = val[out][0]
            if lag0 and lag1:
                # both lag: the recorded time must be the greater one under the decided order
                gt01, gt10 = d.get(Sym("lt", t1, t0)), d.get(Sym("lt", t0, t1))
                if gt01 is True or gt10 is False:
                    exp = t0
                elif gt10 is True or gt01 is False:
                    exp = t1
                else:
                    why = "both inputs lag but the walk never orders their required times"
                    break
                if got != exp:
                    why = f"two lagging inputs on one output: recorded {got!r}, the later requirement is {exp!r}"
                    break
            else:
                exp = t0 if lag0 else t1
                if got != exp:
                    why = f"recorded requirement {got!r} is not the lagging one {exp!r}"
                    break
        sink.check(why is None, "R02", f"walk:shared-output-max:{order[0]}{order[1]}", f,
                   ok="two inputs on one output: the later required time is kept",
                   bad=why or "")


# ======================================================================= R03 / R09
def _scenarios(repo):
    """(name, topo, start component, rule) small compositions for _update_recursive."""
    out = []

    def mk(name, build, rule):
        t = Topo(repo)
        start = build(t)
        out.append((name, t, start, rule))

    def chain2(t):
        b, a = t.comp("B"), t.comp("A")
        t.link(t.output(b), [], a)
        return a

    def chain3(t):
        c, b, a = t.comp("C"), t.comp("B"), t.comp("A")
        t.link(t.output(c), [], b)
        t.link(t.output(b), [], a)
        return a

    def via_pull(t):
        b, p, a = t.comp("B"), t.comp("P", timed=False), t.comp("A")
        t.link(t.output(b), [], p)
        t.link(t.output(p, pull=True), [], a)
        return a

    def via_pull2(t):
        b, p, q, a = t.comp("B"), t.comp("P", timed=False), t.comp("Q", timed=False), t.comp("A")
        t.link(t.output(b), [], p)
        t.link(t.output(p, pull=True), [], q)
        t.link(t.output(q, pull=True), [], a)
        return a

    def via_pull_delayed(t):
        b, p, a = t.comp("B"), t.comp("P", timed=False), t.comp("A")
        _ads, reps = _reps(repo)
        t.link(t.output(b), [], p)
        t.link(t.output(p, pull=True), [reps[lek.DELAY]], a)
        return a

    def pull_two_outputs(t):
        # one pull-based component reached twice, for two different request times
        b, p, a = t.comp("B"), t.comp("P", timed=False), t.comp("A")
        _ads, reps = _reps(repo)
        t.link(t.output(b), [], p)
        t.link(t.output(p, "o1", pull=True), [reps[lek.DELAY]], a, "in1")
        t.link(t.output(p, "o2", pull=True), [], a, "in2")
        return a

    def pull_two_outputs_rev(t):
        b, p, a = t.comp("B"), t.comp("P", timed=False), t.comp("A")
        _ads, reps = _reps(repo)
        t.link(t.output(b), [], p)
        t.link(t.output(p, "o1", pull=True), [], a, "in1")
        t.link(t.output(p, "o2", pull=True), [reps[lek.DELAY]], a, "in2")
        return a

    def finished_upstream(t):
        b, a = t.comp("B", status="FINISHED"), t.comp("A")
        t.link(t.output(b), [], a)
        return a

    def finished_behind_pull(t):
        b, p, a = t.comp("B", status="FINISHED"), t.comp("P", timed=False), t.comp("A")
        t.link(t.output(b), [], p)
        t.link(t.output(p, pull=True), [], a)
        return a

    def fork(t):
        b, c, a = t.comp("B"), t.comp("C"), t.comp("A")
        t.link(t.output(b), [], a, "in1")
        t.link(t.output(c), [], a, "in2")
        return a

    def pull_then_time(t):
        # A reads a pull-based P (fed by B) and, second, a time component C
        b, c, p, a = t.comp("B"), t.comp("C"), t.comp("P", timed=False), t.comp("A")
        t.link(t.output(b), [], p)
        t.link(t.output(p, pull=True), [], a, "in1")
        t.link(t.output(c), [], a, "in2")
        return a

    def diamond_pull(t):
        b = t.comp("B")
        x = t.comp("X", timed=False)
        p1, p2 = t.comp("P1", timed=False), t.comp("P2", timed=False)
        a = t.comp("A")
        t.link(t.output(b), [], x)
        xo = t.output(x, pull=True)
        t.link(xo, [], p1)
        t.link(xo, [], p2)
        t.link(t.output(p1, pull=True), [], a, "in1")
        t.link(t.output(p2, pull=True), [], a, "in2")
        return a

    def shared_time(t):
        b, a = t.comp("B"), t.comp("A")
        o = t.output(b)
        t.link(o, [], a, "in1")
        t.link(o, [], a, "in2")
        return a

    def diamond_time(t):
        d, b, c, a = t.comp("D"), t.comp("B"), t.comp("C"), t.comp("A")
        do = t.output(d)
        t.link(do, [], b)
        t.link(do, [], c)
        t.link(t.output(b), [], a, "in1")
        t.link(t.output(c), [], a, "in2")
        return a

    def cycle2(t):
        a, b = t.comp("A"), t.comp("B")
        t.link(t.output(a), [], b)
        t.link(t.output(b), [], a)
        return a

    def cycle_pull(t):
        a, x = t.comp("A"), t.comp("X", timed=False)
        t.link(t.output(a), [], x)
        t.link(t.output(x, pull=True), [], a)
        return a

    def cycle_pull_only(t):
        a, x, y = t.comp("A"), t.comp("X", timed=False), t.comp("Y", timed=False)
        t.link(t.output(x, pull=True), [], a)
        t.link(t.output(y, pull=True), [], x)
        t.link(t.output(x, "o2", pull=True), [], y)
        return a

    def cycle3(t):
        a, b, c = t.comp("A"), t.comp("B"), t.comp("C")
        t.link(t.output(a), [], b)
        t.link(t.output(b), [], c)
        t.link(t.output(c), [], a)
        return a

    def cycle_delay(t):
        a, b = t.comp("A"), t.comp("B")
        _ads, reps = _reps(repo)
        t.link(t.output(a), [reps[lek.DELAY]], b)
        t.link(t.output(b), [], a)
        return a

    def cycle_break(t):
        a, b = t.comp("A"), t.comp("B")
        _ads, reps = _reps(repo)
        t.link(t.output(a), [reps[lek.BREAK]], b)
        t.link(t.output(b), [], a)
        return a

    def self_loop(t):
        a = t.comp("A")
        t.link(t.output(a), [], a)
        return a

    def ring_pull_with_tail(t):
        # ring A -> DELAY -> P (pull-based) -> A, resolved by the delay; a tail component S reads P as well.  The step starts at
        # the tail: S's request is pending in P when the ring member A asks P for its own (earlier) time
        a, p, s_ = t.comp("A"), t.comp("P", timed=False), t.comp("S")
        _ads, reps = _reps(repo)
        t.link(t.output(a), [reps[lek.DELAY]], p)
        po = t.output(p, pull=True)
        t.link(po, [], a)
        t.link(po, [], s_)
        return s_

    mk("chain2", chain2, "R03")
    mk("chain3", chain3, "R03")
    mk("via-pull", via_pull, "R03")
    mk("via-pull2", via_pull2, "R03")
    mk("via-pull-delayed", via_pull_delayed, "R03")
    mk("pull-based-two-outputs-delayed-first", pull_two_outputs, "R03")
    mk("pull-based-two-outputs-delayed-second", pull_two_outputs_rev, "R03")
    mk("finished-upstream", finished_upstream, "R03")
    mk("finished-upstream-behind-pull-based", finished_behind_pull, "R03")
    mk("fork", fork, "R03")
    mk("pull-then-time", pull_then_time, "R03")
    mk("shared-output", shared_time, "R03")
    mk("diamond-time", diamond_time, "R09")
    mk("diamond-through-pull-based", diamond_pull, "R09")
    mk("cycle2", cycle2, "R09")
    mk("cycle3", cycle3, "R09")
    mk("cycle-through-pull-based", cycle_pull, "R09")
    mk("cycle-of-pull-based-only", cycle_pull_only, "R09")
    mk("cycle-with-delay", cycle_delay, "R09")
    mk("cycle-with-break", cycle_break, "R09")
    mk("self-loop", self_loop, "R09")
    mk("delay-resolved-ring-through-pull-based-with-tail", ring_pull_with_tail, "R09p")
    return out


def _effective_deps(topo, comp, target, seen=()):
    """[(out, term, owner)] time-component dependencies of `comp`, flattened through
    pull-based components; data-path terms.  `None` entries mark a pull-based cycle."""
    res = []
    for (out, elems, cons, inp) in topo.links:
        if cons is not comp:
            continue
        if out.fields["is_static"] or inp.fields["is_static"]:
            continue
        ads, _ = lek.require_table(topo.repo)
        kind_of = {e.name: e.kind for e in ads}
        kinds = [kind_of[e.cls.name] for e in reversed(elems)]
        dn = [e.fields.get("_dname") for e in reversed(elems)]
        tau = data_path_term(kinds, dn, target)
        if tau is None:
            continue
        owner = topo.owner[out]
        res.append((out, tau, owner))
    return res


def _spec(topo, start, lag):
    """Reference semantics of one scheduling step. `lag(out, term)` -> bool.
    Returns ('update', comp) | ('cycle',) ."""
    active = []

    def visit(c, target):
        # a time component is entered once per step; a pull-based component once per request time (entered again for ANOTHER time -
        # a ring member asking while a slower consumer's request is pending - it answers another question: no cycle)
        key = (c, None) if c.fields["_timed"] else (c, target)
        if any(key[0] is x[0] and key[1] == x[1] for x in active):
            return ("cycle",)
        active.append(key)
        t = c.fields["next_time"] if c.fields["_timed"] else target
        for out, tau, owner in _effective_deps(topo, c, t):
            if owner.fields["_timed"]:
                if lag(out, tau):
                    r = visit(owner, None)
                    active.pop()
                    return r
            else:
                r = visit(owner, tau)
                if r is not None:
                    active.pop()
                    return r
        active.pop()
        if c.fields["_timed"]:
            if c.fields["status"] == Sym("enum", "ComponentStatus", "FINISHED"):
                return ("finished", c)
            return ("update", c)
        return None

    return visit(start, None)


def _all_lag_conds(topo, start):
    """All (out, term) lag questions the reference semantics may ask."""
    qs = []

    def collect(c, target, depth=0):
        if depth > 6:
            return
        t = c.fields["next_time"] if c.fields["_timed"] else target
        for out, tau, owner in _effective_deps(topo, c, t):
            if owner.fields["_timed"]:
                if (out, tau) not in qs:
                    qs.append((out, tau))
                    collect(owner, None, depth + 1)
            else:
                collect(owner, tau, depth + 1)

    collect(start, None)
    return qs


def _judge_step(topo, start, decs, outcome, it):
    d = {}
    def _is_pub(x):
        return isinstance(x, Sym) and x.op == "T"  # time of an output's newest publication

    for c, v in decs:
        if not (isinstance(c, Sym) and c.op in ("lt", "le") and len(c.args) == 2):
            continue
        a, b = c.args
        if c.op == "lt" and _is_pub(a):
            d[(a, b)] = v  # published < requested: the strict lag test
        elif c.op == "le" and _is_pub(b):
            d[(b, a)] = not v  # requested <= published: its exact complement (`published >= requested`)
        elif _is_pub(a) or _is_pub(b):
            return f"non-strict lag test {c!r}"
    qs = _all_lag_conds(topo, start)
    known = {}
    unknown = []
    for out, tau in qs:
        k = (out.fields["time"], tau)
        if k in d:
            known[(id(out), tau)] = d[k]
        else:
            unknown.append((id(out), tau))
    admissible = []
    for bits in itertools.product([False, True], repeat=len(unknown)):
        assign = dict(known)
        assign.update(zip(unknown, bits))
        admissible.append(_spec(topo, start, lambda o, t: assign[(id(o), t)]))
    def _lbl(a):
        return "cycle" if a == ("cycle",) else f"{'update' if a[0] == 'update' else 'refuse (already finished)'} {a[1].label}"

    kind, val = outcome
    if kind == "raise":
        name = val.name
        if name == "FinamCircularCouplingError":
            got = ("cycle",)
        elif name == "FinamTimeError" and any(a[0] == "finished" for a in admissible):
            got = next(a for a in admissible if a[0] == "finished")
        else:
            exp = sorted({_lbl(a) for a in admissible})
            return f"ends in {name} ({val.exc!r}); expected {' / '.join(exp)}"
    else:
        val, updates = val
        if len(updates) != 1:
            return f"{len(updates)} component updates in one scheduling step"
        got = ("update", updates[0])
        if val is not updates[0]:
            return f"returns {val!r} but updated {updates[0]!r}"
    if got == ("cycle",) and not all(a == ("cycle",) for a in admissible):
        # a circular-coupling error is a verdict about the whole step: it needs every lag test the cycle rests on.  Where the
        # reference semantics still depends on a test the code never made, the error is declared without evidence
        untested = [repr(t) for (o, t) in qs if (o.fields["time"], t) not in d]
        other = sorted({_lbl(a) for a in admissible if a != ("cycle",)})
        return (f"circular-coupling error although the dependency at {', '.join(untested)} was never tested: if it is satisfied the step is {' / '.join(other)} "
                f"(lag tests made: {_fmt_decs(decs)})")
    if not any(_same(got, a) for a in admissible):
        exp = sorted({_lbl(a) for a in admissible})
        g = "circular-coupling error" if got == ("cycle",) else f"update of {got[1].label}"
        return f"{g}; the reference semantics gives {' / '.join(exp)} under lag assignment {_fmt_decs(decs)}"
    if got[0] == "update":
        u = got[1]
        for out, tau, owner in _flat_time_deps(topo, u):
            k = (out.fields["time"], tau)
            if d.get(k) is not False:
                return (f"{u.label} is updated although its dependency on {out.label} at {tau!r} was "
                        f"{'lagging' if d.get(k) else 'never tested'}")
    return None


def _flat_time_deps(topo, comp):
    res = []

    def rec(c, target, depth=0):
        if depth > 6:
            return
        t = c.fields["next_time"] if c.fields["_timed"] else target
        for out, tau, owner in _effective_deps(topo, c, t):
            if owner.fields["_timed"]:
                res.append((out, tau, owner))
            else:
                rec(owner, tau, depth + 1)

    rec(comp, None)
    return res


def _same(a, b):
    if a[0] != b[0]:
        return False
    return a[0] == "cycle" or a[1] is b[1]


def _fmt_decs(decs):
    return "{" + ", ".join(f"{c!r}={v}" for c, v in decs) + "}"


def r09p_ring_pull(repo, sink):
    """Delay-resolved rings through pull-based components (C04 / C20 only): own rule id, same decision-table machinery."""
    r03_r09_step(repo, sink, only=("R09p",))


def r03_r09_step(repo, sink, only=("R03", "R09")):
    """Decision table of one scheduling step (`_update_recursive`) over small topologies."""
    f = repo.method("Composition", "_update_recursive")
    n_paths = 0
    for name, topo, start, rule in _scenarios(repo):
        if rule not in only:
            continue
        comp = topo.composition()
        it = SchedInterp(repo)

        def thunk():
            it.updates = []
            val = it.run(f, [start], self_obj=comp)
            return (val, list(it.updates))

        try:
            paths = it.run_all(thunk)
        except Undecided as u:
            raise AnalysisError(f"_update_recursive: condition outside vocabulary: {u}") from u
        except (AnalysisError, RecursionError) as exc:
            if "depth exceeded" in str(exc) or isinstance(exc, RecursionError):
                sink.bad(rule, f"step:{name}", f, "the recursion through lagging upstream components does not terminate on this topology "
                         "(cycle not detected): run() would end in RecursionError instead of the circular-coupling error")
                continue
            raise
        worst, worst_c = None, None
        for decs, outcome in paths:
            n_paths += 1
            why = _judge_step(topo, start, decs, outcome, it)
            if why and why.startswith("circular-coupling error although"):
                worst_c = worst_c or why  # (its own obligation: the key names the failing outcome, see known_findings.json)
            elif why and worst is None:
                worst = why
        sink.check(worst is None, rule, f"step:{name}", f,
                   ok=f"{len(paths)} lag assignments: updated component / error as in the reference semantics",
                   bad=worst or "", paths=len(paths))
        if worst_c is not None:
            sink.bad(rule, f"step:{name}:circular-error-without-testing-a-dependency", f, worst_c)
    if "R03" in only:
        sink.note("R03.step.paths", n_paths)
        sink.floor("R03", "scheduling-step scenarios", len(_scenarios(repo)), 21)


def r09_structure(repo, sink):
    """Structural part of R09: membership test dominates recursion, same chain object,
    error class, and active-path discipline (push/pop pairing)."""
    f = repo.method("Composition", "_update_recursive")
    fn = f.node
    cfg = CFG(fn)
    params = f.params
    if len(params) < 2:
        raise AnalysisError("_update_recursive: expected (comp, chain, ...) parameters")
    comp_p, chain_p = params[0], params[1]
    rec_calls = [c for c in calls(fn, fn.name) if isinstance(c.func, ast.Attribute) and self_attr(c.func) == fn.name]
    if not rec_calls:
        sink.ok("R09", "cycle-test-shape", f, "no direct recursion in _update_recursive (recursion through helpers); cycle handling and termination are "
                                              "decided by the decision table (step:cycle*), whose abstract runs follow every call")
        return
    raises = [n for n in fn_walk(fn) if isinstance(n, ast.Raise) and n.exc is not None
              and "FinamCircularCouplingError" in U(n.exc)]
    tests = [n for n in fn_walk(fn) if isinstance(n, ast.If)
             and any(isinstance(c, ast.Compare) and len(c.ops) == 1 and isinstance(c.ops[0], ast.In)
                     and U(c.left) == comp_p and U(c.comparators[0]) == chain_p for c in ast.walk(n.test))]
    if not raises or not tests:
        sink.ok("R09", "cycle-test-shape", f, "membership test not in the known shape; cycle handling is decided by the decision table (step:cycle*)")
        return
    tnode = cfg.node_of(tests[0])
    for c in rec_calls:
        cn = cfg.node_of(c)
        sink.check(cfg.dominates(tnode, cn), "R09", f"cycle-test-dominates:{stmt_key(c)}", f,
                   ok="cycle test dominates the recursive call",
                   bad="a recursive call is reachable without passing the cycle test")
        a = c.args[1] if len(c.args) > 1 else next((k.value for k in c.keywords if k.arg == chain_p), None)
        same = isinstance(a, ast.Name) and a.id == chain_p
        copied = a is not None and not same and chain_p in {n.id for n in ast.walk(a) if isinstance(n, ast.Name)}
        sink.check(same or copied, "R09", f"chain-passed:{stmt_key(c)}", f,
                   ok="recursion receives the chain", bad="recursion does not receive the chain (depth unbounded)")
    stores = [n for n in fn_walk(fn) if isinstance(n, ast.Assign)
              and any(isinstance(t, ast.Subscript) and U(t.value) == chain_p and U(t.slice) == comp_p for t in n.targets)]
    if not stores:
        sink.ok("R09", "chain-push-shape", f, "chain store not in the known shape; decided by the decision table (step:cycle*)")
    else:
        first = cfg.node_of(stores[0])
        for c in rec_calls:
            sink.check(cfg.dominates(first, cfg.node_of(c)), "R09", f"push-before-recursion:{stmt_key(c)}", f,
                       ok="component is on the chain before recursing",
                       bad="recursion may start before the component is on the chain")


# =========================================================================== R05
def r05_select(repo, sink):
    """Selection and termination of the run loop are decided by the abstract runs of
    r05s_run_selection (scripted scheduling steps); here: who may call IComponent.update."""
    f = repo.method("Composition", "run")
    # who-may-call: IComponent.update
    sites = []
    for m in repo.modules.values():
        for n in ast.walk(m.tree):
            if isinstance(n, ast.Call) and isinstance(n.func, ast.Attribute) and n.func.attr == "update" and not n.args and not n.keywords:
                recv = U(n.func.value)
                if recv in ("super()",) or recv.endswith("meta") or recv.endswith("_cache") or recv.endswith("infos"):
                    continue
                sites.append((m.relpath, n.lineno, recv))
    comp_sites = [s for s in sites if s[0] == SCHED]
    other = [s for s in sites if s[0] != SCHED and s[2] in ("comp", "component", "c", "module", "mod")]
    sink.check(len(comp_sites) == 1 and not other, "R05", "who-may-call:update", f,
               ok="IComponent.update() has exactly one call site, in Composition._update_recursive",
               bad=f"update() call sites: {comp_sites + other}")
    sink.floor("R05", "update call sites", len(comp_sites), 1, f)
    r05s_run_selection(repo, sink)


def _argmin_of_time(fn, loop, arg):
    """Accepted idioms: x = sorted(L, key=time)[0] ; L2=list(L); L2.sort(key=time); x=L2[0];
    min(L, key=time)."""
    if arg is None:
        return "no argument"

    def is_time_key(k):
        if isinstance(k, ast.Lambda) and isinstance(k.body, ast.Attribute) and k.body.attr == "time":
            return isinstance(k.body.value, ast.Name) and k.body.value.id == k.args.args[0].arg
        if isinstance(k, ast.Call) and call_name(k) == "attrgetter" and k.args and isinstance(k.args[0], ast.Constant):
            return k.args[0].value == "time"
        return False

    def key_of(call):
        for k in call.keywords:
            if k.arg == "key":
                return k.value
        return None

    def defs(name):
        return [n for n in walk(loop) if isinstance(n, ast.Assign)
                and any(isinstance(t, ast.Name) and t.id == name for t in n.targets)]

    def is_argmin_expr(e):
        if isinstance(e, ast.Call) and call_name(e) == "min" and key_of(e) is not None:
            return is_time_key(key_of(e)) or "min() key is not `time`"
        if isinstance(e, ast.Subscript) and isinstance(e.slice, ast.Constant) and e.slice.value == 0:
            base = e.value
            if isinstance(base, ast.Call) and call_name(base) == "sorted":
                if any(k.arg == "reverse" for k in base.keywords):
                    return "sorted(reverse=...)"
                return is_time_key(key_of(base)) or "sorted() key is not `time`"
            if isinstance(base, ast.Name):
                sorts = [c for c in calls(loop, "sort") if isinstance(c.func, ast.Attribute) and U(c.func.value) == base.id]
                if len(sorts) == 1:
                    if any(k.arg == "reverse" for k in sorts[0].keywords):
                        return "sort(reverse=...)"
                    return is_time_key(key_of(sorts[0])) or "sort() key is not `time`"
                ds = defs(base.id)
                if len(ds) == 1:
                    v = ds[0].value
                    if isinstance(v, ast.Call) and call_name(v) == "sorted":
                        if any(k.arg == "reverse" for k in v.keywords):
                            return "sorted(reverse=...)"
                        return is_time_key(key_of(v)) or "sorted() key is not `time`"
                return f"?{base.id}[0] without a recognisable sort by time"
        if isinstance(e, ast.Subscript) and isinstance(e.slice, ast.UnaryOp):
            return "takes the last element"
        return f"?{U(e)}"

    if isinstance(arg, ast.Name):
        ds = defs(arg.id)
        if len(ds) != 1:
            return f"?{arg.id} has {len(ds)} definitions in the loop"
        return is_argmin_expr(ds[0].value)
    return is_argmin_expr(arg)


def _r05_termination(repo, sink, f, fn, loop, cfg, call):
    """Back edge of the run loop is guarded by "some component not FINISHED with time < end_time"."""
    end_p = None
    for p in f.params:
        if "end" in p:
            end_p = p
    if end_p is None:
        raise AnalysisError("Composition.run: no end-time parameter")
    cmps = []
    for n in walk(loop):
        if isinstance(n, ast.Compare) and len(n.ops) == 1 and end_p in {x.id for x in ast.walk(n) if isinstance(x, ast.Name)}:
            cmps.append(n)
    if not cmps:
        sink.unknown("R05", "termination-test", f, "no comparison with the end time inside the run loop (moved into a helper?)")
        return
    from ..astq import cmp_norm
    ok = False
    detail = []
    for c in cmps:
        norm = cmp_norm(c)
        detail.append(norm)
        # "still running" <=> comp.time < end_time (strict)
        if norm and norm[1] == "<" and norm[2] == end_p and norm[0].endswith(".time"):
            ok = True
        if norm and norm[1] == "<=" and norm[0] == end_p and norm[2].endswith(".time"):
            ok = True  # "finished" <=> end <= time, the complement
    sink.check(ok, "R05", "termination-test", f,
               ok="run loop continues iff some component has time < end_time (strict)",
               bad=f"termination comparison is not the strict `time < end_time`: {detail}")
    # a component that reported FINISHED in this very update must not keep the loop alive
    cmp0 = cmps[0]
    holder = cmp0
    while holder is not None and not isinstance(holder, (ast.If, ast.While, ast.comprehension, ast.GeneratorExp, ast.ListComp)):
        holder = getattr(holder, "_parent", None)
    cond_txt = ""
    if isinstance(holder, (ast.If, ast.While)):
        cond_txt = U(holder.test)
    elif holder is not None:
        cond_txt = U(holder)
    excl = "FINISHED" in cond_txt
    if not excl:
        # or: the iterated collection is re-filtered after the step
        it_for = cmp0
        while it_for is not None and not isinstance(it_for, ast.For):
            it_for = getattr(it_for, "_parent", None)
        if it_for is not None and isinstance(it_for.iter, ast.Name):
            for n in walk(loop):
                if isinstance(n, ast.Assign) and any(isinstance(t, ast.Name) and t.id == it_for.iter.id for t in n.targets) \
                        and "FINISHED" in U(n.value) and cfg.dominates(cfg.node_of(call), cfg.node_of(n)):
                    excl = True
    sink.check(excl, "R05", "termination-excludes-finished", f,
               ok="the termination test ignores components that are FINISHED after this update",
               bad="the termination test does not look at the status after the update: a component that finished in this "
                   "update with time < end_time keeps the loop alive (another component is updated past end_time, or the "
                   "selection runs empty)")
    # every path from the step back to the loop head passes the termination decision
    cn = cfg.node_of(call)
    head = cfg.node_of(loop)
    gate = None
    if any(cmp0 is x for x in ast.walk(loop.test)):
        gate = head  # idiom C: `while <some component before end>`
    else:
        def _own_loop(n):
            cur = getattr(n, "_parent", None)
            while cur is not None and not isinstance(cur, (ast.For, ast.While)):
                cur = getattr(cur, "_parent", None)
            return cur

        breaks = [n for n in walk(loop) if isinstance(n, ast.If) and any(isinstance(b, ast.Break) for b in n.body)
                  and _own_loop(n) is loop]
        for b in breaks:
            if any(cmp0 is x for x in ast.walk(b.test)):
                gate = cfg.node_of(b)  # idiom B: `if all(... >= end ...): break`
        if gate is None:
            # idiom A: flag set under the comparison, `if not flag: break`
            cur = cmp0
            setter = None
            while cur is not None and cur is not loop:
                if isinstance(cur, ast.If) and any(cmp0 is x for x in ast.walk(cur.test)):
                    setter = cur
                    break
                cur = getattr(cur, "_parent", None)
            flags = set()
            if setter is not None:
                for n in setter.body:
                    if isinstance(n, ast.Assign) and isinstance(n.value, ast.Constant) and n.value.value is True:
                        flags |= {t.id for t in n.targets if isinstance(t, ast.Name)}
            for b in breaks:
                t = b.test
                if isinstance(t, ast.UnaryOp) and isinstance(t.op, ast.Not) and isinstance(t.operand, ast.Name) and t.operand.id in flags:
                    flag = t.operand.id
                    # the flag is True only under the comparison, and reset after the step
                    sets = [n for n in walk(loop) if isinstance(n, ast.Assign) and any(isinstance(x, ast.Name) and x.id == flag for x in n.targets)]
                    true_sets = [n for n in sets if isinstance(n.value, ast.Constant) and n.value.value is True]
                    false_sets = [n for n in sets if isinstance(n.value, ast.Constant) and n.value.value is False]
                    only_under = all(any(n is x for x in ast.walk(setter)) for n in true_sets) and len(true_sets) + len(false_sets) == len(sets)
                    reset = any(cfg.dominates(cfg.node_of(call), cfg.node_of(n)) and cfg.dominates_stmt(n, b) for n in false_sets)
                    if only_under and reset:
                        gate = cfg.node_of(b)
    if gate is None:
        sink.unknown("R05", "termination-test-guards-back-edge", f,
                     "the end-time comparison does not decide the loop exit through a known idiom (while-test, break-test, reset flag)")
        return
    after = gate is head or not cfg.reachable(cn, head, avoid=[gate])
    sink.check(after, "R05", "termination-test-guards-back-edge", f,
               ok="no path from the step back to the loop head avoids the termination decision",
               bad="a path from the scheduling step back to the loop head avoids the termination test")


# =========================================================================== R01
class _Slots(dict):
    """The slots of a component under analysis: any name the code asks for exists."""

    def __missing__(self, k):
        v = Obj(label=k, markers={"slot"})
        self[k] = v
        return v


class _UpdateInterp(FinamInterp):
    """One abstract _update of an in-repo component against recording slot stand-ins (time = 0, step = 2)."""

    def __init__(self, repo):
        super().__init__(repo)
        self.pulls, self.pushes = [], []

    # the clock is a symbol and calendar arithmetic stays uninterpreted: with month steps (relativedelta) neither
    # (t + s) + s == t + 2 * s nor any other regrouping holds, so two time expressions agree only if they are the same term
    def ext_isinstance(self, v, name, node):
        if name == "datetime":
            return isinstance(v, Sym) and v.op in ("T0", "tadd")
        if name in ("timedelta", "relativedelta"):
            return isinstance(v, Sym) and v.op in ("step", "smul")
        return super().ext_isinstance(v, name, node)

    def binop(self, op, left, right, node):
        tl = isinstance(left, Sym) and left.op in ("T0", "tadd")
        tr = isinstance(right, Sym) and right.op in ("T0", "tadd")
        sl = isinstance(left, Sym) and left.op in ("step", "smul")
        sr = isinstance(right, Sym) and right.op in ("step", "smul")
        if isinstance(op, ast.Add) and ((tl and sr) or (sl and tr)):
            return Sym("tadd", left, right) if tl else Sym("tadd", right, left)
        if isinstance(op, ast.Mult) and ((sl and isinstance(right, int)) or (sr and isinstance(left, int))):
            st, n = (left, right) if sl else (right, left)
            return st if n == 1 else Sym("smul", st, n)
        if isinstance(op, ast.Add) and sl and sr:
            return Sym("smul", left, right)
        return super().binop(op, left, right, node)

    def decide(self, cond, node):
        if isinstance(cond, Sym) and cond.op in ("T0", "tadd", "step", "smul"):
            return True
        return super().decide(cond, node)

    def call_hook_is_timedelta(self):
        return True

    def get_item(self, c, k, node):
        if isinstance(c, _Slots):
            return c[k]
        return super().get_item(c, k, node)

    def get_attr(self, obj, attr, node, mod):
        if isinstance(obj, Obj) and "slot" in obj.markers:
            if attr in ("pull_data", "push_data"):
                return Sym("slotcall", Ref(obj), attr)
            return Sym("slotattr", obj.label, attr)
        if isinstance(obj, Sym) and obj.op in ("pulled", "slotattr", "attr", "tool", "copy", "called", "T0", "tadd"):
            return Sym("attr", obj, attr)
        return super().get_attr(obj, attr, node, mod)

    def ext_call(self, name, args, kwargs, node):
        if name in ("copy.copy", "copy.deepcopy") or (name.split(".")[0] in ("np", "numpy") and args and isinstance(args[0], Sym)):
            return Sym(name.split(".")[-1], *args)
        return super().ext_call(name, args, kwargs, node)

    def call_hook(self, fv, args, kwargs, node, mod):
        if isinstance(fv, Sym) and fv.op == "slotcall":
            slot, op = fv.args[0].obj, fv.args[1]
            if op == "pull_data":
                self.pulls.append((slot.label, args[0] if args else kwargs.get("time")))
                return Sym("pulled", slot.label, args[0] if args else None)
            self.pushes.append((slot.label, args[0] if args else None, args[1] if len(args) > 1 else kwargs.get("time")))
            return None
        if isinstance(fv, Sym) and fv.op == "X":
            return {}  # a user call-back: publishes nothing
        if isinstance(fv, Sym) and fv.op == "attr":
            return Sym("called", fv, *args)  # a method of pulled data (`.item()`, `.copy()`): an uninterpreted value
        if isinstance(fv, Closure) and getattr(fv.func, "name", "") == "is_timedelta":
            return isinstance(args[0], Sym) and args[0].op in ("step", "smul")
        if isinstance(fv, Closure) and getattr(fv.func, "name", "") == "assert_type":
            return None  # public finam.data.tools check of user values
        if isinstance(fv, Closure) and getattr(fv.func, "name", "") in ("get_magnitude", "strip_time", "get_units", "quantify", "to_units"):
            return Sym("tool", getattr(fv.func, "name", ""), *args)  # public finam.data.tools functions
        return super().call_hook(fv, args, kwargs, node, mod)

    def construct(self, cls, args, kwargs, node):
        if not cls.name.startswith("_") and not cls.name.endswith("Error") and not self.repo.is_subclass(cls, "Exception"):
            from ..absbase import seed_from_init
            o = Obj(cls=cls, label=cls.name)
            init = self.repo.resolve(cls, "__init__", "method")
            names = [p for p in (init.params if init else []) if p != "self"]
            bound = dict(zip(names, args))
            bound.update(kwargs)
            seed_from_init(self, cls, o, bound)
            return o
        return super().construct(cls, args, kwargs, node)


def _abstract_update(repo, c, clocks=None):
    """Tries the constructor stand-ins in the shapes the in-repo components use for their call-back tables."""
    last = None
    for shape in ("callables", "pairs"):
        cl = []
        try:
            rounds = _abstract_update_1(repo, c, cl, shape)
        except (AnalysisError, Undecided, Raised, KeyError, TypeError) as exc:
            last = exc
            continue
        if clocks is not None:
            clocks.extend(cl)
        return rounds
    raise AnalysisError(f"outside vocabulary: {last}")


def _abstract_update_1(repo, c, clocks=None, cb_shape="callables"):
    """[(announced next pull time, [(input, pull time)])] of two consecutive abstract updates (the clock before / after each update
    is appended to `clocks`); raises AnalysisError / Undecided / Raised when the body is outside the vocabulary."""
    clocks = clocks if clocks is not None else []
    from ..absbase import seed_from_init, set_backed
    it = _UpdateInterp(repo)
    params = {}
    for k in repo.mro(c):
        f = k.methods.get("__init__")
        if f is None:
            continue
        a = f.node.args
        pos = a.posonlyargs + a.args
        for i, x in enumerate(pos):
            n = x.arg
            if n == "self" or n in params:
                continue
            if i >= len(pos) - len(a.defaults) and n not in ("start", "step", "inputs", "outputs", "callbacks"):
                continue
            params[n] = {"start": Sym("T0"), "step": Sym("step"), "end": Sym("X", "end"),
                         "callbacks": {"A": Sym("X", "callback")} if cb_shape == "callables" else {"A": (Sym("X", "callback"), Obj(label="infoA"))}}.get(
                n, {"A": Obj(label="infoA"), "B": Obj(label="infoB")} if n in ("inputs", "outputs") else Sym("X", n))
    me = Obj(cls=c, label=c.name)
    seed_from_init(it, c, me, params)
    me.fields["logger"] = Logger(label="logger")
    set_backed(repo, me, "inputs", _Slots({k: Obj(label=k, markers={"slot"}) for k in ("A", "B")}))
    set_backed(repo, me, "outputs", _Slots({k: Obj(label=k, markers={"slot"}) for k in ("A", "B")}))
    it.store_attr(me, "status", Sym("enum", "ComponentStatus", "VALIDATED"), None)
    it.store_attr(me, "time", Sym("T0"), None)
    g = repo.resolve(c, "next_time", "getter")
    rounds = []
    tg = repo.resolve(c, "time", "getter")
    for _k in range(2):  # two consecutive updates: a clock recomputed from the start regroups the calendar arithmetic
        ann = it.run(g, [], self_obj=me) if g is not None else it.run(repo.resolve(c, "_next_time"), [], self_obj=me)
        before = it.run(tg, [], self_obj=me) if tg is not None else None
        it.pulls = []
        it.run(repo.resolve(c, "_update"), [], self_obj=me)
        it.store_attr(me, "status", Sym("enum", "ComponentStatus", "UPDATED"), None)
        after = it.run(tg, [], self_obj=me) if tg is not None else None
        rounds.append((ann, list(it.pulls)))
        clocks.append((before, after))
    return rounds


def r01_next_pull(repo, sink):
    base = repo.cls("ITimeComponent")
    comps = [c for c in repo.subclasses(base, strict=True) if not repo.is_abstract(c)]
    sink.floor("R01", "time components", len(comps), 7)
    decided = []
    for c in comps:
        nt = repo.resolve(c, "_next_time")
        up = repo.resolve(c, "_update")
        if nt is None or up is None:
            sink.unknown("R01", f"next-pull:{c.name}", (c.file, c.node.lineno), "no _next_time/_update")
            continue
        # first choice: one abstract update (clock 0, step 2) against recording slots - independent of how the body is written
        try:
            rounds = _abstract_update(repo, c)
        except (AnalysisError, Undecided, Raised, KeyError, TypeError):
            rounds = None
        if rounds is not None:
            decided.append(c.name)
            why, n_pulls = None, 0
            for k, (ann, pulls) in enumerate(rounds, 1):
                n_pulls += len(pulls)
                wrong = [(n, t) for n, t in pulls if t != ann]
                if ann is None and pulls:
                    why = why or f"update {k}: next_time is None but _update pulls {pulls!r}"
                elif wrong:
                    why = why or (f"update {k}: the component announces {ann!r} and pulls {wrong!r} (calendar arithmetic is not regrouped: with month "
                                  "steps start + 2 * step and (start + step) + step are different dates)")
            sink.check(why is None, "R01", f"next-pull:{c.name}", up, ok=f"{n_pulls} pull(s) in two consecutive updates, each at the time announced before the update",
                       bad=why or "", pulls=n_pulls)
            continue
        # fallback: syntactic clock terms (bodies with file / console / table handling outside the abstract vocabulary)
        rets = [n.value for n in fn_walk(nt.node) if isinstance(n, ast.Return)]
        if len(rets) != 1:
            sink.unknown("R01", f"next-pull:{c.name}", nt, "_next_time has several returns")
            continue
        ann = _clock_term(rets[0], "T0")
        pulls = _update_pulls(repo, c, up)
        if ann is None:
            if pulls is None:
                sink.unknown("R01", f"next-pull:{c.name}", up, "clock update outside vocabulary")
            else:
                sink.check(not pulls, "R01", f"next-pull:{c.name}", up,
                           ok="announces no pull time and pulls nothing in _update",
                           bad=f"_next_time returns None but _update pulls at {[p[1] for p in pulls]}")
            continue
        if pulls is None:
            sink.unknown("R01", f"next-pull:{c.name}", up, "clock update outside vocabulary")
            continue
        wrong = [(U(n), t) for n, t in pulls if t != ann]
        if wrong:
            # the clock terms are read off the shape of the code: a mismatch there is a reason to look, not a verdict
            sink.unknown("R01", f"next-pull:{c.name}", up, f"_update is outside the abstract vocabulary and its clock terms do not match syntactically: announced {ann}, pulls at {wrong}")
        else:
            sink.ok("R01", f"next-pull:{c.name}", up, f"{len(pulls)} pull(s) in _update at the announced time {ann} (syntactic clock terms)", pulls=len(pulls))
    sink.note("R01.decided_by_abstract_update", decided)


def _clock_term(e, clock):
    """Normalise a time expression over the component clock: 'T0', 'T0+<step>' ..."""
    if isinstance(e, ast.Constant) and e.value is None:
        return None
    if isinstance(e, ast.Attribute) and self_attr(e) in ("time", "_time"):
        return clock
    if isinstance(e, ast.BinOp) and isinstance(e.op, ast.Add):
        l = _clock_term(e.left, clock)
        r = _clock_term(e.right, clock)
        if l is not None and isinstance(e.right, ast.Attribute) and self_attr(e.right) not in ("time", "_time"):
            return f"{l}+{U(e.right)}"
        if r is not None and isinstance(e.left, ast.Attribute) and self_attr(e.left) not in ("time", "_time"):
            return f"{r}+{U(e.left)}"
    return f"?{U(e)}"


def _update_pulls(repo, c, up, clock="T0", depth=0):
    """[(call node, clock term)] for every pull_data reachable from _update; None if the
    clock is modified in a way outside the vocabulary."""
    out = []
    for s in body_of(up.node):
        # pulls in this statement use the clock value *before* a store in the same statement
        # only for AugAssign/Assign the RHS is evaluated first; pulls never appear there.
        for n in walk(s):
            if isinstance(n, ast.Call) and call_name(n) == "pull_data":
                t = n.args[0] if n.args else None
                out.append((n, _clock_term(t, clock) if t is not None else "?"))
            elif isinstance(n, ast.Call) and isinstance(n.func, ast.Attribute) and self_attr(n.func) and depth < 2:
                callee = repo.resolve(c, self_attr(n.func), "method")
                if callee is not None and callee is not up:
                    sub = _update_pulls(repo, c, callee, clock, depth + 1)
                    if sub is None:
                        return None
                    out.extend(sub)
        st = _clock_store(s)
        if st == "nested":
            clock = "?nested"
            continue
        if st is not None:
            if isinstance(st, ast.AugAssign) and isinstance(st.op, ast.Add):
                clock = f"{clock}+{U(st.value)}"
            elif isinstance(st, ast.Assign):
                t = _clock_term(st.value, clock)
                clock = t if t is not None else "?"
            else:
                clock = "?nested"
    if any(t.startswith("?nested") for _n, t in out):
        return None
    return out


def _clock_store(s):
    top = None
    for n in walk(s):
        if isinstance(n, (ast.Assign, ast.AugAssign)):
            targets = n.targets if isinstance(n, ast.Assign) else [n.target]
            flat = []
            for t in targets:
                flat.extend(t.elts if isinstance(t, ast.Tuple) else [t])
            if any(self_attr(t) in ("time", "_time") for t in flat):
                if n is s:
                    top = n
                else:
                    return "nested"
    return top


def _stores_name(fn_node, name):
    return any(isinstance(n, ast.Name) and n.id == name and isinstance(n.ctx, (ast.Store, ast.Del)) for n in fn_walk(fn_node))


# =========================================================================== R05s
class _StopRun(Exception):
    pass


class _RunInterp(FinamInterp):
    """Abstract run of Composition.run: component times are integers (rank labels of a total
    order), the scheduling step is scripted (advances the selected component and, before it, the
    dependencies it lags behind)."""

    def __init__(self, repo, script):
        super().__init__(repo)
        self.script = script  # name -> dict(step, deps, finish_at)
        self.selected = []  # (name, {name: (time, finished)} before the step)
        self.finalized = 0

    def ext_isinstance(self, v, name, node):
        if name == "datetime":
            return isinstance(v, int) and not isinstance(v, bool)
        return super().ext_isinstance(v, name, node)

    def _advance(self, c):
        sc = self.script[c.label]
        c.fields["time"] += sc["step"]
        fin = sc.get("finish_at")
        c.fields["status"] = Sym("enum", "ComponentStatus", "FINISHED" if fin is not None and c.fields["time"] >= fin else "UPDATED")

    def call_hook(self, fv, args, kwargs, node, mod):
        if isinstance(fv, Closure) and fv.self_obj is not None and fv.self_obj.label == "composition":
            n = getattr(fv.func, "name", "")
            if n == "_update_recursive":
                c = args[0]
                comps = self.comps
                before = {k: (v.fields["time"], v.fields["status"].args[1] == "FINISHED") for k, v in comps.items()}
                self.selected.append((c.label, before))
                alive = {k: tm for k, (tm, fin) in before.items() if not fin}
                if before[c.label][1] or (alive and before[c.label][0] != min(alive.values())) or len(self.selected) > 200:
                    raise _StopRun()  # judged by the rule: wrong selection / no termination
                target = c.fields["time"] + self.script[c.label]["step"]
                for d in self.script[c.label].get("deps", ()):
                    dep = comps[d]
                    while dep.fields["time"] < target and dep.fields["status"].args[1] != "FINISHED":
                        self._advance(dep)
                self._advance(c)
                return c
            if n in ("connect", "_check_status"):
                return None
            if n in ("_finalize_components", "_finalize_composition"):
                self.finalized += 1
                return None
        return super().call_hook(fv, args, kwargs, node, mod)


def _selection_defect(name, updates):
    for i, (sel, before) in enumerate(updates):
        alive = {k: tm for k, (tm, fin) in before.items() if not fin}
        if not alive:
            return None
        least = min(alive.values())
        if before[sel][1] or before[sel][0] != least:
            who = sorted(k for k, tm in alive.items() if tm == least)
            return (f"scenario {name}, step {i}: {sel} (time {before[sel][0]}{', finished' if before[sel][1] else ''}) is selected although "
                    f"{'/'.join(who)} is less advanced (time {least}); times before the step: "
                    f"{ {k: v[0] for k, v in before.items()} }")
    return None


def r05t_terminate(repo, sink):
    """The termination half of the scripted runs (own rule: C03's clause, not a scheduling-order obligation)."""
    r05s_run_selection(repo, sink, parts=("termination",))


def r05s_run_selection(repo, sink, parts=("selection",)):
    """Every scheduling step of run() starts from a least-advanced unfinished time component,
    and the loop ends exactly when every component is finished or has reached the end time.
    Observed on the real constructor / connect / run over scripted stand-in components (rules/lifetrace.py): nothing of the
    composition is stubbed, the stand-ins have no slots, so every update the driver performs is the component it selected."""
    from .lifetrace import _drive
    comp_cls = repo.cls("Composition")
    run = repo.resolve(comp_cls, "run", "method")
    scenarios = {
        "independent": ({"A": dict(t=0, step=2), "B": dict(t=0, step=3), "C": dict(t=1, step=5)}, 12),
        "upstream-overtakes-third": ({"A": dict(t=0, step=1, deps=("B",)), "B": dict(t=5, step=10), "C": dict(t=6, step=3)}, 15),
        "chain-and-bystander": ({"A": dict(t=0, step=4, deps=("B",)), "B": dict(t=0, step=1, deps=("C",)), "C": dict(t=0, step=6), "D": dict(t=2, step=3)}, 14),
        "one-finishes-early": ({"A": dict(t=0, step=1, finish_at=3), "B": dict(t=0, step=2)}, 8),
        "last-below-end-finishes-early": ({"A": dict(t=0, step=1, finish_at=3), "B": dict(t=0, step=10)}, 8),
        "single-component-finishes-early": ({"A": dict(t=0, step=2, finish_at=4)}, 9),
        "listed-in-reverse": ({"C": dict(t=4, step=2), "B": dict(t=2, step=2), "A": dict(t=0, step=5)}, 10),
        # the composition starts (time 0) before its components do; the end time lies after the start but before every component
        "all-beyond-the-end-from-the-start": ({"A": dict(t=10, step=1), "B": dict(t=12, step=2)}, 5),
        "some-beyond-the-end-from-the-start": ({"A": dict(t=10, step=1), "B": dict(t=2, step=2)}, 6),
    }
    worst, worst_t, steps = None, None, 0
    for name, (spec, end) in scenarios.items():
        script = {k: dict(step=v["step"], connect_calls=1, _t0=v["t"], deps=v.get("deps", ()), finish_at=v.get("finish_at")) for k, v in spec.items()}
        stopped = False
        try:
            it, outcome = _drive(repo, script, end=end)
        except AnalysisError as exc:
            if "more than 300 updates" in str(exc):
                worst_t = worst_t or f"scenario {name}: the run loop is still scheduling after 300 updates (it should have ended long ago)"
                worst = worst or _selection_defect(name, getattr(getattr(exc, "interp", None), "updates", []))
                continue
            sink.unknown(*(("R05", "run-selection") if "selection" in parts else ("R05t", "run-termination")), run, f"scenario {name}: run outside vocabulary: {exc}")
            return
        except Undecided as exc:
            sink.unknown(*(("R05", "run-selection") if "selection" in parts else ("R05t", "run-termination")), run, f"scenario {name}: run outside vocabulary: {exc}")
            return
        if outcome is not None:
            worst = worst or f"scenario {name}: run raises {outcome}"
            worst_t = worst_t or f"scenario {name}: run raises {outcome}"
            continue
        steps += len(it.updates)
        for i, (sel, before) in enumerate(it.updates):
            if not any(not fin for _tm, fin in before.values()):
                worst_t = worst_t or f"scenario {name}, step {i}: a step is started although every component is finished"
                break
        worst = worst or _selection_defect(name, it.updates)
        final = {k: (c.fields["time"], c.fields["status"] == Sym("enum", "ComponentStatus", "FINISHED")) for k, c in it.comps.items()}
        finished_by_script = {k for k, v in spec.items() if v.get("finish_at") is not None and final[k][0] >= v["finish_at"]}
        lag = sorted(k for k, (tm, fin) in final.items() if k not in finished_by_script and tm < end)
        if lag:
            worst_t = worst_t or f"scenario {name}: run returns while {lag} are neither finished nor at the end time {end} (times {final})"
        for i, (_sel, before) in enumerate(it.updates):
            if not any((not fin) and tm < end for tm, fin in before.values()):
                worst_t = worst_t or (f"scenario {name}, step {i}: a further step is started although every component already was finished or at the "
                                  f"end time {end} (times/finished before the step: {before})")
                break
        if not any(p == "finalize" for _c, p in it.trace):
            worst_t = worst_t or f"scenario {name}: run returns without finalizing"
    if "selection" in parts:
        sink.check(worst is None, "R05", "run-selection", run,
                   ok=f"{len(scenarios)} scripted runs, {steps} scheduling steps: each starts from a least-advanced unfinished component",
                   bad=worst or "")
    if "termination" in parts:
        sink.check(worst_t is None, "R05t", "run-termination", run,
                   ok=f"{len(scenarios)} scripted runs, {steps} scheduling steps: no step is started once all components are finished or at the end time "
                      "(also when they are beyond it from the start); the loop ends exactly then and the run finalizes",
                   bad=worst_t or "")
