"""R14 FRESH (provider results / double push), R41 MASKTRUTH, R35b SPECSIDE."""
from __future__ import annotations

import ast

from ..astq import U, call_name, calls, fn_walk, self_attr, stmt_key, walk
from ..loader import AnalysisError, body_of


# =========================================================================== R14
def _providers(repo):
    """[(class, method Func)] registered as callback of a CallbackOutput."""
    out = []
    for c in repo.all_classes():
        for f in c.methods.values():
            for call in calls(f.node, "CallbackOutput"):
                cb = next((k.value for k in call.keywords if k.arg == "callback"), call.args[0] if call.args else None)
                if cb is not None and self_attr(cb):
                    m = repo.resolve(c, self_attr(cb), "method")
                    if m is not None:
                        out.append((c, m))
    return out


def _is_fresh(f, e, depth=0):
    """A returned value is fresh unless it is a bare stored attribute (or a local bound
    only to one)."""
    if e is None or (isinstance(e, ast.Constant) and e.value is None):
        return True, ""
    if self_attr(e):
        return False, f"returns the stored attribute self.{self_attr(e)}"
    if isinstance(e, ast.Name) and depth < 3:
        defs = [n for n in fn_walk(f.node) if isinstance(n, ast.Assign)
                and any(isinstance(t, ast.Name) and t.id == e.id for t in n.targets)]
        if defs and all(self_attr(d.value) for d in defs):
            return False, f"returns `{e.id}`, an alias of self.{self_attr(defs[0].value)}"
        return True, ""
    if isinstance(e, ast.IfExp):
        a, wa = _is_fresh(f, e.body, depth + 1)
        b, wb = _is_fresh(f, e.orelse, depth + 1)
        return (a and b), (wa or wb)
    return True, ""


def r14_fresh(repo, sink):
    provs = _providers(repo)
    sink.note("R14.providers", [m.qualname for _c, m in provs])
    for c, m in provs:
        rets = [r for r in fn_walk(m.node) if isinstance(r, ast.Return)]
        bad = None
        for r in rets:
            ok, why = _is_fresh(m, r.value)
            if not ok:
                bad = (r, why)
        if bad:
            sink.bad("R14", f"fresh:{m.qualname}", (m.file, bad[0].lineno),
                     f"provider of a pull-based output {bad[1]}: CallbackOutput.get_data refuses data that shares memory "
                     "with its previous answer, so a second request for the same time (second consumer) fails", func=m.qualname)
        else:
            sink.ok("R14", f"fresh:{m.qualname}", m, f"{len(rets)} return(s), each a fresh object")
    # the refusal the providers must satisfy is really there
    go = repo.method("CallbackOutput", "get_data")
    has = any("may_share_memory" in U(n) for n in fn_walk(go.node) if isinstance(n, ast.Call))
    sink.note("R14.CallbackOutput_refuses_shared_memory", has)
    if not provs:
        sink.ok("R14", "no-providers", None, "no in-repo provider registered with CallbackOutput")
    probe = ast.parse("def g(self, c, t):\n    return self._out\n").body[0]
    ok, _ = _is_fresh(type("F", (), {"node": probe})(), probe.body[0].value)
    if ok:
        sink.unknown("R14", "positive-example", None, "rule failed to flag the embedded stale return")


# =========================================================================== R41
def _mask_typed_fields(c):
    """Fields of class c assigned from `*.mask`, np.ma.make_mask(...) (def-use, not naming)."""
    fields = set()
    for f in list(c.methods.values()) + list(c.setters.values()):
        for n in fn_walk(f.node):
            if isinstance(n, ast.Assign):
                if _mentions_mask_value(n.value):
                    for t in n.targets:
                        if self_attr(t):
                            fields.add(self_attr(t))
    return fields


def _mentions_mask_value(e):
    for n in ast.walk(e):
        if isinstance(n, ast.Attribute) and n.attr == "mask" and not isinstance(getattr(n, "_parent", None), ast.Call):
            return True
        if isinstance(n, ast.Attribute) and n.attr == "mask":
            p = getattr(n, "_parent", None)
            if not (isinstance(p, ast.Call) and p.func is n):
                return True
        if isinstance(n, ast.Call) and call_name(n) == "make_mask":
            return True
    return False


def _truth_operands(fn):
    """Expressions evaluated for truth inside fn."""
    for n in fn_walk(fn):
        if isinstance(n, ast.BoolOp):
            for v in n.values[:-1]:
                yield v, "operand of `%s`" % ("or" if isinstance(n.op, ast.Or) else "and")
            p = getattr(n, "_parent", None)
            if isinstance(p, (ast.If, ast.While, ast.IfExp)) and p.test is n or isinstance(p, ast.UnaryOp):
                yield n.values[-1], "operand of a boolean test"
        elif isinstance(n, (ast.If, ast.While, ast.IfExp)):
            yield n.test, "test of `if`/`while`"
        elif isinstance(n, ast.UnaryOp) and isinstance(n.op, ast.Not):
            yield n.operand, "operand of `not`"
        elif isinstance(n, ast.Call) and isinstance(n.func, ast.Name) and n.func.id == "bool" and n.args:
            yield n.args[0], "argument of bool()"


def r41_masktruth(repo, sink):
    n_sites = 0
    for c in repo.all_classes():
        fields = set()
        for k in repo.mro(c):
            fields |= _mask_typed_fields(k)
        for f in c.methods.values():
            locals_ = set()
            for n in fn_walk(f.node):
                if isinstance(n, ast.Assign) and _mentions_mask_value(n.value):
                    for t in n.targets:
                        if isinstance(t, ast.Name):
                            locals_.add(t.id)
            for e, ctx in _truth_operands(f.node):
                is_mask = (
                    (self_attr(e) in fields if self_attr(e) else False)
                    or (isinstance(e, ast.Name) and e.id in locals_)
                    or (isinstance(e, ast.Attribute) and e.attr == "mask")
                )
                if not is_mask:
                    continue
                n_sites += 1
                sink.bad("R41", f"masktruth:{f.qualname}:{U(e)}", (f.file, e.lineno),
                         f"mask value `{U(e)}` used as {ctx}: for a boolean array this raises ValueError "
                         "(ambiguous truth value) - e.g. on the second metadata exchange through this adapter (fan-out)",
                         func=f.qualname)
    # module-level functions
    for m in repo.modules.values():
        for f in m.funcs.values():
            for e, ctx in _truth_operands(f.node):
                if isinstance(e, ast.Attribute) and e.attr == "mask":
                    n_sites += 1
                    sink.bad("R41", f"masktruth:{f.qualname}:{U(e)}", (f.file, e.lineno),
                             f"mask value `{U(e)}` used as {ctx}", func=f.qualname)
    # accepted idioms actually present (is None / mask_specified / is np.ma.nomask): counted for the evidence
    idioms = 0
    for m in repo.modules.values():
        for n in ast.walk(m.tree):
            if isinstance(n, ast.Compare) and isinstance(n.ops[0], (ast.Is, ast.IsNot)) and "mask" in U(n.left):
                idioms += 1
            if isinstance(n, ast.Call) and call_name(n) == "mask_specified":
                idioms += 1
    sink.note("R41.identity_tests_on_masks", idioms)
    sink.floor("R41", "identity tests on mask values (accepted idiom)", idioms, 10)
    if n_sites == 0:
        sink.ok("R41", "no-mask-in-truth-context", None, f"no mask value is truth-tested; {idioms} identity/mask_specified tests")
    probe = ast.parse("def g(self, i):\n    self.m = self.m or i.mask\n").body[0]
    if not any(True for e, _ in _truth_operands(probe) if self_attr(e) == "m"):
        sink.unknown("R41", "positive-example", None, "rule failed on the embedded example")


# ========================================================================== R35b
def r35b_specside(repo, sink):
    base = repo.cls("ARegridding") if repo.has_cls("ARegridding") else None
    cands = []
    for c in repo.all_classes():
        gi = c.methods.get("_get_info")
        if gi is None:
            continue
        ex = [x for x in calls(gi.node, "exchange_info") if isinstance(x.func, ast.Attribute) and self_attr(x.func)]
        if not ex:
            continue
        req = ex[0].args[0] if ex[0].args else None
        # the request: info.copy_with(grid=self.F, ...)
        reqdef = None
        if isinstance(req, ast.Name):
            defs = [n for n in fn_walk(gi.node) if isinstance(n, ast.Assign) and any(isinstance(t, ast.Name) and t.id == req.id for t in n.targets)]
            reqdef = defs[-1].value if defs else None
        elif isinstance(req, ast.Call):
            reqdef = req
        if not (isinstance(reqdef, ast.Call) and call_name(reqdef) == "copy_with"):
            continue
        gk = next((k.value for k in reqdef.keywords if k.arg == "grid"), None)
        if gk is None or not self_attr(gk):
            continue
        st = ex[0]
        while not isinstance(st, ast.stmt):
            st = st._parent
        delivered = st.targets[0].id if isinstance(st, ast.Assign) and isinstance(st.targets[0], ast.Name) else None
        cands.append((c, gi, self_attr(gk), delivered))
    sink.note("R35b.classes_requesting_with_own_grid", [c.name for c, *_ in cands])
    for c, gi, field, delivered in cands:
        # does the class pair pulled data with coordinates of self.<field>?  (uses it outside _get_info)
        used = any(self_attr(n) == field for k in repo.subclasses(c) for f in k.methods.values() if f is not gi
                   for n in fn_walk(f.node) if isinstance(n, ast.Attribute))
        if not used or delivered is None:
            sink.ok("R35b", f"specside:{c.name}.{field}", gi, "own grid only requested, never paired with pulled data")
            continue
        finals = [n for n in fn_walk(gi.node) if isinstance(n, ast.Assign) and any(self_attr(t) == field for t in n.targets)]
        takes_delivered = bool(finals) and U(finals[-1].value) == f"{delivered}.grid"
        compares = any(
            isinstance(n, ast.Compare) and len(n.ops) == 1 and isinstance(n.ops[0], (ast.NotEq, ast.Eq))
            and {U(n.left), U(n.comparators[0])} == {f"self.{field}", f"{delivered}.grid"} for n in fn_walk(gi.node))
        transforms = any(call_name(x) == "get_transform_to" for x in calls(gi.node))
        sink.check(takes_delivered or compares or transforms, "R35b", f"specside:{c.name}.{field}", gi,
                   ok="pulled data is paired with the delivered grid's layout (delivered grid taken / layout compared / transform applied)",
                   bad=f"self.{field} keeps a user-given grid (`{U(finals[-1]) if finals else ''}`) although adapters never transform "
                       f"between compatible layouts: pulled data arrives laid out as {delivered}.grid and is paired with the "
                       f"coordinates of self.{field} - same geometry in another layout silently misplaces values. The output "
                       "side of the same method does compare (`self.output_grid != info.grid`).")
    if base is not None and not any(c is base for c, *_ in cands):
        sink.unknown("R35b", "anchor:ARegridding._get_info", None, "ARegridding._get_info no longer requests with its own grid: shape unknown")


# ========================================================================== R42
def r42a_fresh_copy(repo, sink):
    """Only the aliasing obligation of R42 (a re-published stored array aborts a valid run): belongs to C03."""
    r42_forwarders(repo, sink, parts=("aliasing",))


def r42u_quantity(repo, sink):
    """Only the units obligations of R42 (what is published is the pulled quantity, not bare numbers): C08 / C17."""
    r42_forwarders(repo, sink, parts=("units",))


def r42_forwarders(repo, sink, parts=("aliasing", "units")):
    """Components that hand pulled data on to their own output forward the pulled *quantity* itself (values with their units):
    the output converts from the data's units to its own; a bare array is only labelled.  Decided by abstract runs of the real
    _update / _connect bodies of the in-repo forwarding component(s) against recording slot stand-ins."""
    from ..absbase import FinamInterp, Logger, Ref, seed_from_init, set_backed
    from ..interp import Closure, Obj, Raised, Sym, Undecided

    if not repo.has_cls("TimeTrigger"):
        raise AnalysisError("TimeTrigger not found")
    c = repo.cls("TimeTrigger")

    class _F(FinamInterp):
        def __init__(self, repo):
            super().__init__(repo)
            self.pulls, self.pushes, self.connects = [], [], []

        def ext_isinstance(self, v, name, node):
            if name == "datetime":
                return isinstance(v, int) and not isinstance(v, bool)
            return super().ext_isinstance(v, name, node)

        def get_attr(self, obj, attr, node, mod):
            if isinstance(obj, Obj) and "slot" in obj.markers and attr in ("pull_data", "push_data"):
                return Sym("slotcall", Ref(obj), attr)
            if isinstance(obj, Sym) and obj.op in ("pulled", "initial") and attr in ("magnitude", "units", "data"):
                return Sym("attr", obj, attr)
            return super().get_attr(obj, attr, node, mod)

        def ext_call(self, name, args, kwargs, node):
            if name.split(".")[0] in ("np", "numpy", "copy") and args and isinstance(args[0], Sym):
                return Sym(name.split(".")[-1], *args)
            return super().ext_call(name, args, kwargs, node)

        def call_hook(self, fv, args, kwargs, node, mod):
            if isinstance(fv, Sym) and fv.op == "slotcall":
                slot, op = fv.args[0].obj, fv.args[1]
                if op == "pull_data":
                    v = Sym("pulled", slot.label, args[0])
                    self.pulls.append((slot.label, args[0]))
                    return v
                self.pushes.append((slot.label, args[0], args[1] if len(args) > 1 else kwargs.get("time")))
                return None
            if isinstance(fv, Closure):
                n = getattr(fv.func, "name", "")
                if n == "try_connect":  # public API of Component
                    self.connects.append((tuple(args), dict(kwargs)))
                    return None
                if n in ("get_magnitude", "strip_time", "get_units"):  # public API of finam.data.tools
                    return Sym(n, *args)
            return super().call_hook(fv, args, kwargs, node, mod)

    def mk(it):
        me = Obj(cls=c, label="TimeTrigger")
        seed_from_init(it, c, me, {"start": 0, "step": 2, "in_info": None, "out_info": None, "start_from_input": True})
        me.fields["logger"] = Logger(label="logger")
        set_backed(repo, me, "inputs", {"In": Obj(label="In", markers={"slot"})})
        set_backed(repo, me, "outputs", {"Out": Obj(label="Out", markers={"slot"})})
        it.store_attr(me, "status", Sym("enum", "ComponentStatus", "VALIDATED"), None)
        it.store_attr(me, "time", 0, None)
        return me

    up = repo.resolve(c, "_update", "method")
    try:
        it = _F(repo)
        me = mk(it)
        it.run(up, [], self_obj=me)
        why, kind = None, None
        if it.pulls != [("In", 2)]:
            why = f"one update pulls {it.pulls!r}, expected the input once at the new time"
        elif len(it.pushes) != 1 or it.pushes[0][0] != "Out":
            why = f"one update publishes {it.pushes!r}, expected one publication on the output"
        elif it.pushes[0][1] == Sym("pulled", "In", 2):
            why = ("the update publishes the very object it pulled: a source that steps slower than the trigger serves one stored array for "
                   "several consecutive pulls (nothing on the pull path copies when no conversion is needed), and Output.push_data refuses data that "
                   "shares memory with its previous entry - a valid composition (source step 2 d, trigger step 1 d) aborts with FinamDataError; "
                   "a copy of the quantity has to be published")
            kind = "aliasing"
        elif it.pushes[0][1] not in (Sym("copy", Sym("pulled", "In", 2)), Sym("deepcopy", Sym("pulled", "In", 2))):
            why = (f"the update publishes {it.pushes[0][1]!r} instead of (a copy of) the pulled quantity: without its units the output only labels "
                   "the numbers with its own units (10 degC arrive as 10 K) where it has to convert")
        elif it.pushes[0][2] != 2:
            why = f"the pulled data for time 2 is published for time {it.pushes[0][2]!r}"
        if kind == "aliasing":
            if "aliasing" in parts:
                sink.bad("R42", "republishes-pulled-array:TimeTrigger._update", up, why)
        elif "units" not in parts:
            if "aliasing" in parts:
                sink.ok("R42", "republishes-pulled-array:TimeTrigger._update", up, "the update does not publish the very object it pulled")
        else:
            if "aliasing" in parts:
                sink.ok("R42", "republishes-pulled-array:TimeTrigger._update", up, "the update does not publish the very object it pulled")
            sink.check(why is None, "R42", "forwards-quantity:TimeTrigger._update", up,
                       ok="pulls at the new time and publishes a copy of the pulled quantity (values with units) for that time", bad=why or "")
    except (Raised, Undecided, AnalysisError) as exc:
        sink.unknown("R42", "forwards-quantity:TimeTrigger._update", up, f"outside vocabulary: {exc}")
    if "units" not in parts:
        return
    cn = repo.resolve(c, "_connect", "method")
    try:
        it = _F(repo)
        me = mk(it)
        conn = Obj(label="connector")
        conn.fields.update(data_pushed={"Out": False}, in_data={"In": Sym("initial")}, in_infos={"In": None}, infos_pushed={"Out": True}, out_infos={"Out": None})
        set_backed(repo, me, "connector", conn)
        it.store_attr(me, "status", Sym("enum", "ComponentStatus", "CONNECTING"), None)
        it.run(cn, [0], self_obj=me)
        pd = [kw.get("push_data") for _a, kw in it.connects]
        ok = len(pd) == 1 and pd[0] == {"Out": Sym("initial")}
        sink.check(ok, "R42", "forwards-quantity:TimeTrigger._connect", cn, ok="the initial pull is handed to the output as it was pulled",
                   bad=f"the connect phase hands {pd!r} to the output instead of the pulled initial quantity itself")
    except (Raised, Undecided, AnalysisError) as exc:
        sink.unknown("R42", "forwards-quantity:TimeTrigger._connect", cn, f"outside vocabulary: {exc}")
