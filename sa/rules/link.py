"""Link rules: R20 TARGET (registration vs request identity), R17 PUSHPATH, R18 PULLPATH,
R40 CBTIME, R30 DELAY."""
from __future__ import annotations

import ast

from .. import lek
from ..absbase import FinamInterp, Logger, Order, Ref
from ..astq import U, arg_of, call_name, calls, fn_walk, self_attr, stmt_key, walk
from ..cfg import CFG
from ..interp import Closure, Obj, Raised, Sym, Undecided
from ..loader import AnalysisError, body_of


class _Rec(FinamInterp):
    """Records calls on stub objects (label 'source' / 'target')."""

    def __init__(self, repo, order=None):
        super().__init__(repo, order)
        self.calls = []

    def get_attr(self, obj, attr, node, mod):
        if isinstance(obj, Obj) and obj.cls is None and obj.label in ("source", "target", "stub") and not attr.startswith("__"):
            if attr in obj.fields:
                return obj.fields[attr]
            return Sym("stubcall", Ref(obj), attr)
        return super().get_attr(obj, attr, node, mod)

    def call_hook(self, fv, args, kwargs, node, mod):
        if isinstance(fv, Sym) and fv.op == "stubcall":
            self.calls.append((fv.args[0].obj.label, fv.args[1], tuple(args), dict(kwargs)))
            return Sym("result", fv.args[1], len(self.calls))
        return super().call_hook(fv, args, kwargs, node, mod)


# =========================================================================== R20
def r20_target(repo, sink):
    ads, eps, unclass = lek.table(repo)
    sink.note("R20.lek", [e.row() for e in ads])
    n_pulls = 0
    for e in unclass:
        if "forward the requesting target" in e.why or "pull(time, self)" in e.why:
            sink.bad("R20", f"pull-target:{e.name}", (e.cls.file, e.cls.node.lineno),
                     f"{e.name} (needs_push={e.facts.get('needs_push')}): {e.why}; pulls {e.facts.get('get_pulls') or e.facts.get('notify_pulls')}. "
                     "The end point registered by pinged() and the target named in the pull must be the same object, "
                     "otherwise the source's eviction bookkeeping never sees this consumer's requests")
        else:
            sink.unknown("R20", f"pull-target:{e.name}", (e.cls.file, e.cls.node.lineno), f"unclassifiable link element: {e.why}")
    ads = [e for e in ads if e.kind is not None]
    for e in ads:
        sites = e.facts["_get_sites"] + e.facts["_notify_sites"]
        n_pulls += len(sites)
        sink.ok("R20", f"pull-target:{e.name}", (e.cls.file, e.cls.node.lineno),
                f"{e.kind}: needs_push={e.facts['needs_push']}, pulls {e.facts['get_pulls'] or e.facts['notify_pulls']}")
    sink.floor("R20", "adapter classes", len(ads), 18)
    sink.floor("R20", "pull sites in adapters", n_pulls, 12)
    # Adapter.pinged registers self iff needs_push
    for e in ads:
        f = repo.resolve(e.cls, "pinged", "method")
        it = _Rec(repo)
        src = Obj(label="source")
        me = Obj(cls=e.cls, label=e.name)
        me.fields.update(_source=src, logger=Logger(label="logger"))
        down = Obj(label="target")
        try:
            it.run(f, [down], self_obj=me)
        except (Raised, Undecided) as exc:
            sink.unknown("R20", f"pinged:{e.name}", f, f"pinged not in vocabulary: {exc}")
            continue
        got = [c for c in it.calls if c[1] == "pinged"]
        want = me if e.facts["needs_push"] is True else down
        ok = len(got) == 1 and len(got[0][2]) == 1 and got[0][2][0] is want
        sink.check(ok, "R20", f"pinged:{e.name}", f,
                   ok=f"registers {'itself' if want is me else 'the downstream end point'} with its source",
                   bad=f"{e.name} (needs_push={e.facts['needs_push']}) registers "
                       f"{'the downstream end point' if want is me else 'itself'} with its source, but its pulls carry "
                       f"{'self' if want is me else 'the forwarded target'}: the registered entry never receives a request time, "
                       "so the source never evicts (or evicts what this adapter still needs)")
    # Input.ping / Input.pull_data / Output.pinged
    inp = repo.cls("Input")
    f = repo.resolve(inp, "ping", "method")
    it = _Rec(repo)
    src = Obj(label="source")
    me = Obj(cls=inp, label="Input")
    me.fields.update(_source=src, logger=Logger(label="logger"))
    it.run(f, [], self_obj=me)
    sink.check([c[2] for c in it.calls if c[1] == "pinged"] == [(me,)], "R20", "ping:Input", f,
               ok="Input.ping registers the input itself", bad="Input.ping does not register the input itself")
    pd = repo.resolve(inp, "pull_data", "method")
    for tgt_given in (False, True):
        for static in (False, True):
            it = _PullRec(repo)
            me = Obj(cls=inp, label="Input")
            src = Obj(label="source")
            me.fields.update(_source=src, logger=Logger(label="logger"), _static=static, _cached_data=None, name="in")
            t = Obj(label="target") if tgt_given else None
            q = Sym("q")
            it.order.name(q, "q", 1)
            it.run(pd, [q] + ([t] if tgt_given else []), self_obj=me)
            got = [c for c in it.calls if c[1] == "get_data"]
            want = t if tgt_given else me
            ok = len(got) == 1 and got[0][2][0] == q and got[0][2][1] is want
            sink.check(ok, "R20", f"pull-identity:Input:{'static' if static else 'dynamic'}:{'forwarded' if tgt_given else 'own'}", pd,
                       ok="source is asked with the request time and the requesting end point",
                       bad=f"Input.pull_data asks its source with {got[0][2] if got else None}, expected (time, {'given target' if tgt_given else 'self'})")
    out = repo.cls("Output")
    pg = repo.resolve(out, "pinged", "method")
    it = _Rec(repo)
    o = Obj(cls=out, label="Output")
    o.fields.update(_connected_inputs={}, logger=Logger(label="logger"))
    a, b = Obj(label="target"), Obj(cls=repo.cls(ads[0].name), label="adapter")
    it.run(pg, [a], self_obj=o)
    it.run(pg, [b], self_obj=o)
    sink.check(o.fields["_connected_inputs"] == {a: None, b: None}, "R20", "pinged:Output", pg,
               ok="every registered consumer starts with last request None (nothing is evicted before it pulled)",
               bad=f"Output.pinged leaves {o.fields['_connected_inputs']!r}")
    # Component.connect pings every input exactly in the INITIALIZED phase
    c = repo.method("Component", "connect")
    pings = [x for x in calls(c.node, "ping")]
    ok = len(pings) == 1 and any(isinstance(p, ast.For) and "inputs" in U(p.iter) for p in _parents(pings[0]))
    sink.check(ok, "R20", "ping-all-inputs", c, ok="connect() pings every input once", bad="connect() does not ping every input")


class _PullRec(_Rec):
    def call_hook(self, fv, args, kwargs, node, mod):
        if isinstance(fv, Closure) and getattr(fv.func, "name", "") == "_convert_and_check":
            return Sym("converted", args[0])
        return super().call_hook(fv, args, kwargs, node, mod)


def _parents(n):
    cur = getattr(n, "_parent", None)
    while cur is not None:
        yield cur
        cur = getattr(cur, "_parent", None)


# =========================================================================== R30
def r30_delay(repo, sink):
    """TimeDelayAdapter.get_data pulls at with_delay(time) and reports the original time to
    _pulled afterwards; with_delay of the three delay adapters has the documented clamp."""
    tda = repo.cls("TimeDelayAdapter")
    f = repo.resolve(tda, "get_data", "method")
    for e in [x for x in lek.require_table(repo)[0] if x.facts["TimeDelay"]]:
        sink.check(repo.resolve(e.cls, "get_data", "method") is f, "R30", f"get_data-not-overridden:{e.name}", (e.cls.file, e.cls.node.lineno),
                   ok="uses TimeDelayAdapter.get_data", bad=f"{e.name} overrides get_data: delay protocol bypassed")
    # protocol by abstract run
    it = _DelayRec(repo)
    me = Obj(cls=repo.cls("DelayFixed") if repo.has_cls("DelayFixed") else tda, label="delay")
    me.fields.update(logger=Logger(label="logger"), _output_info=Obj(label="info"), name="d")
    q = Sym("q")
    it.order.name(q, "q", 1)
    tgt = Obj(label="target")
    it.run(f, [q, tgt], self_obj=me)
    seq = it.events
    ok = (len(seq) == 3 and seq[0] == ("with_delay", q) and seq[1] == ("pull_data", Sym("delayed", q), tgt)
          and seq[2] == ("_pulled", q))
    sink.check(ok, "R30", "delay-protocol", f,
               ok="get_data: with_delay(time) -> pull_data(delayed, target) -> _pulled(original time)",
               bad=f"delay protocol is {seq!r}; expected with_delay(time), pull_data(with_delay(time), target), _pulled(time)")
    _r30_clamps(repo, sink)


class _DelayRec(FinamInterp):
    def __init__(self, repo):
        super().__init__(repo)
        self.events = []

    def call_hook(self, fv, args, kwargs, node, mod):
        if isinstance(fv, Closure) and fv.self_obj is not None:
            n = getattr(fv.func, "name", "")
            if n == "with_delay":
                self.events.append(("with_delay", args[0]))
                return Sym("delayed", args[0])
            if n == "pull_data":
                self.events.append(("pull_data", args[0], args[1] if len(args) > 1 else kwargs.get("target")))
                return Sym("pulled")
            if n == "_pulled":
                self.events.append(("_pulled", args[0]))
                return None
            if n == "prepare":
                return (Sym("prepared"), None)
        if isinstance(fv, Closure) and getattr(fv.func, "name", "") == "prepare":
            return (Sym("prepared"), None) if kwargs.get("report_conversion") else Sym("prepared")
        return super().call_hook(fv, args, kwargs, node, mod)


def _r30_clamps(repo, sink):
    q, ini, delay = Sym("q"), Sym("init"), Sym("delay")
    # DelayFixed: max(q - delay, init)
    if repo.has_cls("DelayFixed"):
        f = repo.method("DelayFixed", "with_delay")
        worst = None
        for rank_off, want in ((0, ini), (1, ini), (2, Sym("sub", q, delay))):
            o = Order()
            o.name(ini, "init", 1)
            o.name(Sym("sub", q, delay), "off", rank_off)
            it = FinamInterp(repo, o)
            me = Obj(cls=repo.cls("DelayFixed"), label="DelayFixed")
            me.fields.update(delay=delay, initial_time=ini)
            try:
                got = it.run(f, [q], self_obj=me)
            except Undecided as u:
                raise AnalysisError(f"DelayFixed.with_delay: {u}") from u
            from ..absbase import same_value
            if not same_value(got, want) and not (rank_off == 1 and same_value(got, Sym("sub", q, delay))):
                worst = worst or f"time-delay {'<' if rank_off == 0 else '==' if rank_off == 1 else '>'} start: returns {got!r}, expected {want!r}"
        sink.check(worst is None, "R30", "clamp:DelayFixed", f, ok="with_delay(t) = max(t - delay, start time)", bad=worst or "")
    # DelayToPush: init before first notification, else min(q, push_time)
    if repo.has_cls("DelayToPush"):
        f = repo.method("DelayToPush", "with_delay")
        worst = None
        push = Sym("push")
        for pt, rq, want in ((None, 1, ini), (push, 0, q), (push, 1, q), (push, 2, push)):
            o = Order()
            o.name(push, "push", 1)
            o.name(q, "q", rq)
            it = FinamInterp(repo, o)
            me = Obj(cls=repo.cls("DelayToPush"), label="DelayToPush")
            me.fields.update(push_time=pt, initial_time=ini)
            got = it.run(f, [q], self_obj=me)
            if got != want and not (rq == 1 and got in (q, push)):
                worst = worst or f"push_time={pt!r}, request rank {rq}: returns {got!r}, expected {want!r}"
        sink.check(worst is None, "R30", "clamp:DelayToPush", f, ok="with_delay(t) = start time before the first push, else min(t, newest push)", bad=worst or "")
        su = repo.method("DelayToPush", "_source_updated")
        o = Order()
        tn = Sym("tn")
        o.name(tn, "tn", 1)
        it = FinamInterp(repo, o)
        me = Obj(cls=repo.cls("DelayToPush"), label="DelayToPush")
        me.fields.update(push_time=None, initial_time=ini, logger=Logger(label="logger"))
        it.run(su, [tn], self_obj=me)
        sink.check(me.fields["push_time"] == tn, "R30", "push-time:DelayToPush", su,
                   ok="push_time is the notification time", bad=f"push_time after a notification is {me.fields['push_time']!r}")
    # DelayToPull: n-th previous request minus extra delay, not before start
    if repo.has_cls("DelayToPull"):
        c = repo.cls("DelayToPull")
        wd, pl = repo.method("DelayToPull", "with_delay"), repo.method("DelayToPull", "_pulled")
        worst = None
        add = Sym("extra")
        for steps in (1, 2, 3):
            base_reqs = [Sym("r", i) for i in range(4)]
            # request times may repeat (a component pulling twice at one time): still one request each
            reqs = [base_reqs[0], base_reqs[1], base_reqs[1], base_reqs[2], base_reqs[2], base_reqs[2], base_reqs[3]]
            me = Obj(cls=c, label="DelayToPull")
            me.fields.update(steps=steps, additional_delay=add, _pulls=[], initial_time=ini)
            hist = []
            from ..absbase import same_value
            for k, r in enumerate(reqs):
                # reference: the steps-th previous request, or the start time
                base = hist[k - steps] if k >= steps else ini
                for rank_off, want in ((0, ini), (1, ini), (2, Sym("sub", base, add))):
                    o = Order()
                    o.name(ini, "init", 1)
                    for j, rr in enumerate(base_reqs):
                        o.name(rr, f"r{j}", 10 + j)
                    o.name(Sym("sub", base, add), "off", rank_off)
                    it = FinamInterp(repo, o)
                    trial = Obj(cls=c, label="DelayToPull")
                    trial.fields.update(steps=steps, additional_delay=add, _pulls=list(me.fields["_pulls"]), initial_time=ini)
                    try:
                        got = it.run(wd, [r], self_obj=trial)
                        same = same_value(got, want)
                    except Undecided as u:
                        got, same = f"undecided {u}", False
                    except Exception as exc:  # pylint: disable=broad-except
                        got, same = f"{type(exc).__name__}", False
                    if not same and rank_off == 1 and not isinstance(got, str) and same_value(got, Sym("sub", base, add)):
                        same = True  # equal times: either expression denotes the start time
                    if not same:
                        worst = worst or (f"steps={steps}, request #{k}: shifts to {got!r}, expected {want!r} "
                                          f"(= {'start time' if want is ini else 'request #%d minus extra delay' % (k - steps) if k >= steps else 'start time minus extra delay'})")
                # advance the real history: with_delay may initialise _pulls, then _pulled(r)
                o = Order()
                o.name(ini, "init", 1)
                for j, rr in enumerate(base_reqs):
                    o.name(rr, f"r{j}", 10 + j)
                first = me.fields["_pulls"][0] if me.fields["_pulls"] else ini
                o.name(Sym("sub", first, add), "off", 2)
                it = FinamInterp(repo, o)
                it.run(wd, [r], self_obj=me)
                it.run(pl, [r], self_obj=me)
                hist.append(r)
                if len(me.fields["_pulls"]) > steps:
                    worst = worst or f"steps={steps}: request history grows to {len(me.fields['_pulls'])} entries"
        sink.check(worst is None, "R30", "clamp:DelayToPull", wd,
                   ok="with_delay = max(n-th previous request - extra delay, start time); history keeps the last n requests",
                   bad=worst or "")


# =========================================================================== R17
def r17_pushpath(repo, sink):
    """Order of the stages of Output.push_data, by dominance."""
    f = repo.method("Output", "push_data")
    fn = f.node
    cfg = CFG(fn)

    def first(pred, what):
        for n in sorted((x for x in fn_walk(fn) if pred(x)), key=lambda x: (x.lineno, x.col_offset)):
            return n
        sink.bad("R17", f"stage:{what}", f, f"push_data has no '{what}' stage")
        return None

    stages = [
        ("time-check", first(lambda n: isinstance(n, ast.Call) and call_name(n) == "_check_time", "time-check")),
        ("info-exchanged-guard", first(lambda n: isinstance(n, ast.If) and "_out_infos_exchanged" in U(n.test) and any(isinstance(x, ast.Raise) for x in n.body), "info-exchanged-guard")),
        ("static-guard", first(lambda n: isinstance(n, ast.Raise) and n.exc is not None and "FinamStaticDataError" in U(n.exc), "static-guard")),
        ("prepare", first(lambda n: isinstance(n, ast.Call) and call_name(n) == "prepare", "prepare")),
        ("shared-memory-refusal", first(lambda n: isinstance(n, ast.Raise) and n.exc is not None and "FinamDataError" in U(n.exc), "shared-memory-refusal")),
        ("pack", first(lambda n: isinstance(n, ast.Call) and self_attr(n.func) == "_pack" if isinstance(n, ast.Call) and isinstance(n.func, ast.Attribute) else False, "pack")),
        ("append", first(lambda n: isinstance(n, ast.Call) and isinstance(n.func, ast.Attribute) and n.func.attr == "append" and self_attr(n.func.value) == "data", "append")),
        ("time-published", first(lambda n: isinstance(n, ast.Assign) and any(self_attr(t) == "_time" for t in n.targets), "time-published")),
        ("notify", first(lambda n: isinstance(n, ast.Call) and isinstance(n.func, ast.Attribute) and self_attr(n.func) == "notify_targets", "notify")),
    ]
    present = [(n, a) for n, a in stages if a is not None]
    for (n1, a1), (n2, a2) in zip(present, present[1:]):
        n_a, n_b = cfg.node_of(a1), cfg.node_of(a2)
        ok = (n_a is n_b) or (cfg.reachable(n_a, n_b) and not cfg.reachable(n_b, n_a))
        if n1 in ("static-guard", "shared-memory-refusal"):
            # a raise: the next stage must not be reachable around its guard
            guard = None
            for p in _parents(a1):
                if isinstance(p, ast.If):
                    guard = p
            ok = guard is not None and cfg.dominates(cfg.node_of(guard), n_b)
        else:
            ok = ok and cfg.dominates(n_a, n_b)
        sink.check(ok, "R17", f"order:{n1}<{n2}", f, ok=f"{n1} precedes {n2} on every path",
                   bad=f"push_data: {n2} can happen without / before {n1}")
    # the refusal compares with the newest retained entry
    ref = [n for n in fn_walk(fn) if isinstance(n, ast.Call) and call_name(n) == "may_share_memory"]
    ok = bool(ref) and "self.data[-1]" in U(next((p for p in _parents(ref[0]) if isinstance(p, ast.If) and "self.data" in U(p)), ref[0]._parent)) or \
        any("self.data[-1]" in U(p) for p in _parents(ref[0]) if isinstance(p, ast.If)) if ref else False
    sink.check(bool(ok), "R17", "refusal-against-newest", f, ok="memory-sharing refusal compares with the newest retained entry",
               bad="memory-sharing refusal does not look at the newest retained entry")
    # same refusal in CallbackOutput.get_data
    g = repo.method("CallbackOutput", "get_data")
    has = [n for n in fn_walk(g.node) if isinstance(n, ast.Call) and call_name(n) == "may_share_memory"]
    rs = [n for n in fn_walk(g.node) if isinstance(n, ast.Raise) and n.exc is not None and "FinamDataError" in U(n.exc)]
    stores = [n for n in fn_walk(g.node) if isinstance(n, ast.Assign) and any(self_attr(t) == "last_data" for t in n.targets)]
    sink.check(bool(has) and bool(rs) and bool(stores), "R17", "refusal:CallbackOutput", g,
               ok="pull-based output refuses answers sharing memory with the previous one and remembers the answer",
               bad="CallbackOutput.get_data lost its memory-sharing refusal / does not remember the previous answer")


# =========================================================================== R18
def r18_pullpath(repo, sink):
    f = repo.method("Input", "pull_data")
    gets = [c for c in calls(f.node, "get_data")]
    convs = [c for c in calls(f.node, "_convert_and_check")]
    sink.floor("R18", "source.get_data sites in Input.pull_data", len(gets), 1, f)
    # every get_data result flows into _convert_and_check before any return
    ok = len(convs) >= len(gets) and len(gets) >= 1
    for g in gets:
        st = g
        while not isinstance(st, ast.stmt):
            st = st._parent
        var = st.targets[0].id if isinstance(st, ast.Assign) and isinstance(st.targets[0], ast.Name) else None
        blk = [s for s in _block(st)]
        after = blk[blk.index(st) + 1:] if st in blk else []
        used = any(isinstance(n, ast.Call) and call_name(n) == "_convert_and_check" and n.args and isinstance(n.args[0], ast.Name) and n.args[0].id == var
                   for s in after for n in walk(s))
        ok = ok and used
    sink.check(ok, "R18", "pull-converts", f, ok="every result of source.get_data goes through _convert_and_check",
               bad="a branch of Input.pull_data returns source data without _convert_and_check")
    c = repo.method("Input", "_convert_and_check")
    cfg = CFG(c.node)
    tr = [n for n in fn_walk(c.node) if isinstance(n, ast.Call) and isinstance(n.func, ast.Attribute) and self_attr(n.func) == "_transform"]
    tu = [n for n in fn_walk(c.node) if isinstance(n, ast.Call) and call_name(n) == "to_units"]
    ck = [n for n in fn_walk(c.node) if isinstance(n, ast.Call) and call_name(n) == "check"]
    if not (tr and tu and ck):
        sink.bad("R18", "convert-stages", c, f"_convert_and_check lacks a stage (transform {len(tr)}, to_units {len(tu)}, check {len(ck)})")
        return
    o1 = cfg.reachable(cfg.node_of(tr[0]), cfg.node_of(tu[0])) and cfg.dominates(cfg.node_of(tu[0]), cfg.node_of(ck[0]))
    sink.check(o1, "R18", "convert-order", c, ok="transform -> to_units -> check", bad="conversion stages are out of order")
    ce = next((k.value for k in tu[0].keywords if k.arg == "check_equivalent"), None)
    units_arg = tu[0].args[1] if len(tu[0].args) > 1 else None
    sink.check(isinstance(ce, ast.Constant) and ce.value is True and units_arg is not None and "_input_info.units" in U(units_arg), "R18", "convert-units", c,
               ok="units converted to the input's units with check_equivalent=True", bad="to_units is not called with the input's units and check_equivalent=True")
    sink.check(len(ck[0].args) >= 2 and "_input_info" in U(ck[0].args[1]), "R18", "convert-check", c,
               ok="result checked against the input's info", bad="check() does not use the input's info")
    rets = [n for n in fn_walk(c.node) if isinstance(n, ast.Return)]
    sink.check(all(cfg.dominates(cfg.node_of(ck[0]), cfg.node_of(r)) for r in rets), "R18", "check-dominates-return", c,
               ok="check dominates the return", bad="_convert_and_check can return unchecked data")


def _block(st):
    p = st._parent
    for field in ("body", "orelse", "finalbody"):
        blk = getattr(p, field, None)
        if isinstance(blk, list) and st in blk:
            return blk
    return []


# =========================================================================== R40
def r40_cbtime(repo, sink):
    """CallbackOutput.get_data hands its `time` unchanged to the provider; WeightedSum's
    provider pulls every input with that time and multiplies value by its own weight."""
    f = repo.method("CallbackOutput", "get_data")
    it = _CbRec(repo)
    q = Sym("q")
    it.order.name(q, "q", 1)
    me = Obj(cls=repo.cls("CallbackOutput"), label="CallbackOutput")
    cb = Obj(label="stub")
    me.fields.update(callback=Sym("stubcall", Ref(cb), "provider"), _output_info=Obj(label="info"), _out_infos_exchanged=1,
                     _connected_inputs={Obj(label="t"): None}, last_data=None, logger=Logger(label="logger"), name="o",
                     _targets=[Obj(label="t")])
    tgt = Obj(label="target")
    try:
        it.run(f, [q, tgt], self_obj=me)
        got = [c for c in it.calls if c[1] == "provider"]
        ok = len(got) == 1 and got[0][2] == (me, q)
        why = f"provider invoked as {got!r}"
    except Raised as r:
        ok, why = False, f"raises {r.name}"
    sink.check(ok, "R40", "provider-time", f, ok="provider is invoked once with (output, requested time)", bad=why)
    # None from the provider means "no data yet"
    it2 = _CbRec(repo, none_result=True)
    it2.order.name(q, "q", 1)
    try:
        it2.run(f, [q, tgt], self_obj=me)
        sink.bad("R40", "provider-none", f, "a provider returning None does not raise FinamNoDataError")
    except Raised as r:
        sink.check(r.name == "FinamNoDataError", "R40", "provider-none", f, ok="None from the provider raises FinamNoDataError (retry)", bad=f"raises {r.name}")
    # WeightedSum
    if repo.has_cls("WeightedSum"):
        ws = repo.method("WeightedSum", "_get_data")
        pulls = [c for c in calls(ws.node, "pull_data")]
        tpar = ws.params[1] if len(ws.params) > 1 else None
        ok = bool(pulls) and all(c.args and isinstance(c.args[0], ast.Name) and c.args[0].id == tpar for c in pulls)
        from .sched import _stores_name
        ok = ok and not _stores_name(ws.node, tpar)
        sink.check(ok, "R40", "weighted-sum-pull-time", ws, ok="every input is pulled for the requested time",
                   bad="WeightedSum pulls an input for a time other than the requested one")
        loop_items = [n for n in fn_walk(ws.node) if isinstance(n, (ast.DictComp, ast.For)) and "self.inputs" in U(n)]
        sink.check(bool(loop_items), "R40", "weighted-sum-all-inputs", ws, ok="all inputs are pulled", bad="not all inputs are pulled")
        muls = [n for n in fn_walk(ws.node) if isinstance(n, ast.BinOp) and isinstance(n.op, ast.Mult)]
        defs = {t.id: U(n.value) for n in fn_walk(ws.node) if isinstance(n, ast.Assign) for t in n.targets if isinstance(t, ast.Name)}
        ok = bool(muls)
        for m in muls:
            a, b = defs.get(U(m.left), U(m.left)), defs.get(U(m.right), U(m.right))
            pair = sorted([a, b], key=len)
            ok = ok and "strip_time" in pair[0] and "strip_time" in pair[1] and "[name]" in pair[0] and "name + '_weight'" in pair[1]
        sink.check(ok, "R40", "weighted-sum-pairs", ws, ok="each value is multiplied with its own `<name>_weight`, both time-stripped",
                   bad="a value is not multiplied with its own weight (or the time axis is not stripped)")
        acc = [n for n in fn_walk(ws.node) if isinstance(n, ast.AugAssign)]
        sink.check(all(isinstance(n.op, ast.Add) for n in acc) and bool(acc), "R40", "weighted-sum-accumulate", ws,
                   ok="products are accumulated by addition", bad="products are not summed")
        names_loop = [n for n in fn_walk(ws.node) if isinstance(n, ast.For) and "_input_names" in U(n.iter)]
        sink.check(bool(names_loop), "R40", "weighted-sum-all-names", ws, ok="sum ranges over all configured names", bad="sum does not range over all configured names")


class _CbRec(_Rec):
    def __init__(self, repo, none_result=False):
        super().__init__(repo)
        self.none_result = none_result

    def call_hook(self, fv, args, kwargs, node, mod):
        if isinstance(fv, Sym) and fv.op == "stubcall" and fv.args[1] == "provider":
            self.calls.append(("stub", "provider", tuple(args), {}))
            return None if self.none_result else Sym("provided")
        if isinstance(fv, Closure) and getattr(fv.func, "name", "") == "prepare":
            return (Sym("prepared"), None) if kwargs.get("report_conversion") else Sym("prepared")
        if isinstance(fv, Closure) and getattr(fv.func, "name", "") == "get_magnitude":
            return Sym("mag", args[0])
        return super().call_hook(fv, args, kwargs, node, mod)

    def ext_call(self, name, args, kwargs, node):
        if name == "np.may_share_memory":
            return False
        return super().ext_call(name, args, kwargs, node)
