"""Link rules: R20 TARGET (registration vs request identity), R17 PUSHPATH, R18 PULLPATH,
R40 CBTIME, R30 DELAY."""
from __future__ import annotations

import ast
import itertools

from .. import lek
from ..absbase import FinamInterp, Logger, Order, Ref
from ..astq import U, arg_of, call_name, calls, fn_walk, self_attr, stmt_key, walk
from ..cfg import CFG
from ..interp import Closure, Obj, Raised, Sym, Undecided
from ..loader import AnalysisError, body_of
from .exchange import ExchMixin


class _Rec(FinamInterp):
    """Records calls on stub objects (label 'source' / 'target')."""

    def __init__(self, repo, order=None):
        super().__init__(repo, order)
        self.calls = []

    def get_attr(self, obj, attr, node, mod):
        if isinstance(obj, Obj) and obj.cls is None and obj.label in ("source", "target", "stub") and not attr.startswith("__"):
            if attr in obj.fields:
                return obj.fields[attr]
            return Sym("stubcall", Ref(obj), attr)
        return super().get_attr(obj, attr, node, mod)

    def call_hook(self, fv, args, kwargs, node, mod):
        if isinstance(fv, Sym) and fv.op == "stubcall":
            self.calls.append((fv.args[0].obj.label, fv.args[1], tuple(args), dict(kwargs)))
            return Sym("result", fv.args[1], len(self.calls))
        return super().call_hook(fv, args, kwargs, node, mod)


# =========================================================================== R20
def r20_target(repo, sink):
    ads, eps, unclass = lek.table(repo)
    sink.note("R20.lek", [e.row() for e in ads])
    n_pulls = 0
    for e in unclass:
        if "forward the requesting target" in e.why or "pull(time, self)" in e.why:
            sink.bad("R20", f"pull-target:{e.name}", (e.cls.file, e.cls.node.lineno),
                     f"{e.name} (needs_push={e.facts.get('needs_push')}): {e.why}; pulls {e.facts.get('get_pulls') or e.facts.get('notify_pulls')}. "
                     "The end point registered by pinged() and the target named in the pull must be the same object, "
                     "otherwise the source's eviction bookkeeping never sees this consumer's requests")
        else:
            sink.unknown("R20", f"pull-target:{e.name}", (e.cls.file, e.cls.node.lineno), f"unclassifiable link element: {e.why}")
    ads = [e for e in ads if e.kind is not None]
    for e in ads:
        sites = e.facts["_get_sites"] + e.facts["_notify_sites"]
        n_pulls += len(sites)
        sink.ok("R20", f"pull-target:{e.name}", (e.cls.file, e.cls.node.lineno),
                f"{e.kind}: needs_push={e.facts['needs_push']}, pulls {e.facts['get_pulls'] or e.facts['notify_pulls']}")
    sink.floor("R20", "adapter classes", len(ads), 18)
    sink.floor("R20", "pull sites in adapters", n_pulls, 12)
    try:
        r20p_every_request_pulls(repo, sink)
    except (AnalysisError, Undecided) as exc:
        sink.unknown("R20", "every-request-pulls", None, f"outside vocabulary: {exc}")
    # Adapter.pinged registers self iff needs_push
    for e in ads:
        f = repo.resolve(e.cls, "pinged", "method")
        it = _Rec(repo)
        from .exchange import _adapter as _mk_adapter
        src = Obj(label="source", markers={"IOutput", "IAdapter"}, fields={"logger_name": "src", "name": "src"})
        me = _mk_adapter(repo, e.cls, src=src)
        down = Obj(label="target")
        try:
            it.run(f, [down], self_obj=me)
        except (Raised, Undecided) as exc:
            sink.unknown("R20", f"pinged:{e.name}", f, f"pinged not in vocabulary: {exc}")
            continue
        got = [c for c in it.calls if c[1] == "pinged"]
        want = me if e.facts["needs_push"] is True else down
        ok = len(got) == 1 and len(got[0][2]) == 1 and got[0][2][0] is want
        sink.check(ok, "R20", f"pinged:{e.name}", f,
                   ok=f"registers {'itself' if want is me else 'the downstream end point'} with its source",
                   bad=f"{e.name} (needs_push={e.facts['needs_push']}) registers "
                       f"{'the downstream end point' if want is me else 'itself'} with its source, but its pulls carry "
                       f"{'self' if want is me else 'the forwarded target'}: the registered entry never receives a request time, "
                       "so the source never evicts (or evicts what this adapter still needs)")
    # Input.ping / Input.pull_data / Output.pinged
    inp = repo.cls("Input")
    f = repo.resolve(inp, "ping", "method")
    it = _ConvRec(repo)
    me, _src, _rq, _dl = _linked(repo, it)
    it.events.clear()
    it.run(f, [], self_obj=me)
    sink.check([e[1] for e in it.events if e[0] == "pinged"] == [(me,)], "R20", "ping:Input", f,
               ok="Input.ping registers the input itself", bad="Input.ping does not register the input itself")
    pd = repo.resolve(inp, "pull_data", "method")
    for tgt_given in (False, True):
        for static in (False, True):
            it = _ConvRec(repo)
            q = Sym("q")
            it.order.name(q, "q", 1)
            me, _src, _rq, _dl = _linked(repo, it, static=static)
            it.events.clear()
            t = Obj(label="target") if tgt_given else None
            ret = it.run(pd, [q] + ([t] if tgt_given else []), self_obj=me)
            got = [e for e in it.events if e[0] == "fetch"]
            want = t if tgt_given else me
            ok = len(got) == 1 and len(got[0][1]) == 2 and got[0][1][0] == q and got[0][1][1] is want
            ok = ok and isinstance(ret, Sym) and ret.op == "converted"
            sink.check(ok, "R20", f"pull-identity:Input:{'static' if static else 'dynamic'}:{'forwarded' if tgt_given else 'own'}", pd,
                       ok="source is asked with the request time and the requesting end point",
                       bad=f"Input.pull_data asks its source with {got[0][1] if got else None} and returns {ret!r}; expected a request (time, "
                           f"{'given target' if tgt_given else 'self'}) and the converted, checked result")
    out = repo.cls("Output")
    pg = repo.resolve(out, "pinged", "method")
    it = _Rec(repo)
    from ..absbase import seed_from_init
    from .buffer import _registry_attr
    o = Obj(cls=out, label="Output")
    seed_from_init(it, out, o, {"name": "out", "info": None, "static": False})
    o.fields["logger"] = Logger(label="logger")
    a, b = Obj(label="target", fields={"name": "a"}), Obj(cls=repo.cls(ads[0].name), label="adapter")
    it.run(pg, [a], self_obj=o)
    it.run(pg, [b], self_obj=o)
    sink.check(o.fields[_registry_attr(repo)] == {a: None, b: None}, "R20", "pinged:Output", pg,
               ok="every registered consumer starts with last request None (nothing is evicted before it pulled)",
               bad=f"Output.pinged leaves {o.fields[_registry_attr(repo)]!r}")
    # notification forwarding: buffer first, then notify downstream, same unchanged time
    ad = repo.cls("Adapter")
    su = repo.resolve(ad, "source_updated", "method")

    class _N(FinamInterp):
        def __init__(self, repo, order):
            super().__init__(repo, order)
            self.events = []

        def call_hook(self, fv, args, kwargs, node, mod):
            if isinstance(fv, Closure) and fv.self_obj is not None and getattr(fv.func, "name", "") == "_source_updated":
                self.events.append(("buffer", args[0]))
                return None
            if isinstance(fv, Sym) and fv.op == "tgtcall":
                self.events.append(("notify", fv.args[0].obj.label, args[0]))
                return None
            return super().call_hook(fv, args, kwargs, node, mod)

        def get_attr(self, obj, attr, node, mod):
            if isinstance(obj, Obj) and obj.label.startswith("tgt") and attr == "source_updated":
                return Sym("tgtcall", Ref(obj))
            return super().get_attr(obj, attr, node, mod)

        def ext_isinstance(self, v, name, node):
            # a notification time shifted by a duration (`time + self.delay`) is still a datetime: the type test of
            # notify_targets passes and the shifted time shows in the recorded notification
            if name == "datetime" and isinstance(v, Sym) and v.op in ("add", "sub") and any(self.order.lookup(a) is not None for a in v.args):
                return True
            return super().ext_isinstance(v, name, node)

    rep = next((e for e in ads if e.kind == lek.BUFFER), ads[0])
    od = Order()
    tn = Sym("tn")
    od.name(tn, "tn", 1)
    it = _N(repo, od)
    from .exchange import _adapter as _mk_adapter3
    me = _mk_adapter3(repo, rep.cls)
    for tq in _quiet_targets():
        it.run(repo.resolve(rep.cls, "add_target", "method"), [tq], self_obj=me)
    it.events = []
    try:
        it.run(su, [tn], self_obj=me)
        want = [("buffer", tn), ("notify", "tgt1", tn), ("notify", "tgt2", tn)]
        sink.check(it.events == want, "R20", "notification-order", su,
                   ok="a notification is handled by the adapter itself first and then passed on to all targets with the same time",
                   bad=f"Adapter.source_updated performs {it.events!r}; expected {want!r}: a target that pulls inside the notification "
                       "(push-based input, second buffering adapter) would not find the new publication yet")
    except (Raised, Undecided) as exc:
        sink.unknown("R20", "notification-order", su, f"outside vocabulary: {exc}")
    # every adapter class passes the notification on with the time it received (its own, possibly overridden, source_updated /
    # notify_targets): the time names the publication, whatever the adapter will do with requests later
    n_cls = 0
    for e in ads:
        if repo.is_abstract(e.cls) or e.cls is rep.cls:
            continue
        su_k = repo.resolve(e.cls, "source_updated", "method")
        od_k = Order()
        od_k.name(tn, "tn", 5)
        od_k.name(Sym("t_init"), "t_init", 1)
        it_k = _N(repo, od_k)
        try:
            me_k = _mk_adapter3(repo, e.cls)
            if repo.resolve(e.cls, "initial_time", "getter") is not None:
                from ..absbase import set_backed
                try:
                    set_backed(repo, me_k, "initial_time", Sym("t_init"))  # (a connected delay adapter knows its source's starting time)
                except (AnalysisError, KeyError):
                    pass
            elif "initial_time" in me_k.fields:
                me_k.fields["initial_time"] = Sym("t_init")
            for tq in _quiet_targets():
                it_k.run(repo.resolve(e.cls, "add_target", "method"), [tq], self_obj=me_k)
            it_k.fork = True  # (value-dependent branches - a clamp against the starting time - are explored on both outcomes)

            def thunk(it_k=it_k, su_k=su_k, me_k=me_k):
                it_k.events = []
                it_k.run(su_k, [tn], self_obj=me_k)
                return [ev for ev in it_k.events if ev[0] == "notify"]

            paths = it_k.run_all(thunk, limit=64)
        except (Raised, Undecided, AnalysisError, KeyError, TypeError, RecursionError):
            continue  # (adapters whose notification needs more set-up are decided by their own rules: buffers R26, delays R30)
        if not any(kind == "ret" for _d, (kind, _v) in paths):
            # no explored path of this class's notification completes in the abstract domain: not decided here (never a silent pass)
            why = next((repr(val) for _d, (kind, val) in paths if kind != "ret"), "no path")
            sink.unknown("R20", f"notification-time:{e.cls.name}", su_k, f"the notification of {e.cls.name} does not complete in the abstract domain: {why}")
            continue
        n_cls += 1
        want_n = [("notify", "tgt1", tn), ("notify", "tgt2", tn)]
        notes = next((val for _d, (kind, val) in paths if kind == "ret" and val != want_n), want_n)
        sink.check(notes == want_n, "R20", f"notification-time:{e.cls.name}", su_k,
                   ok="targets are notified with the time of the publication",
                   bad=f"{e.cls.name} passes the notification on as {notes!r}; expected both targets with the unchanged time {tn!r}: a buffering adapter downstream "
                       "files the publication under another time than the one the scheduler made available")
    sink.floor("R20", "adapter classes whose notification was run", n_cls, 6)
    it = _N(repo, Order())
    try:
        it.run(su, [Sym("nonsense")], self_obj=me)
        sink.bad("R20", "notification-type", su, "a non-datetime notification is passed on")
    except Raised as r:
        sink.check(r.name == "ValueError" and not it.events, "R20", "notification-type", su, ok="non-datetime notifications are refused before any effect",
                   bad=f"raises {r.name} after {it.events!r}")
    except Undecided:
        pass
    outn = repo.resolve(repo.cls("Output"), "notify_targets", "method")
    it = _N(repo, od)
    from .exchange import built_output
    o = built_output(repo, "Output", targets=_quiet_targets())
    it.run(outn, [tn], self_obj=o)
    sink.check(it.events == [("notify", "tgt1", tn), ("notify", "tgt2", tn)], "R20", "notify-all-targets", outn,
               ok="an output notifies every target with the publication time", bad=f"Output.notify_targets performs {it.events!r}")
    # Component.connect pings every input exactly in the INITIALIZED phase
    # (decided by an abstract run of the real connect() over a component with two inputs, see lifetrace.r07w_connect)
    from ..report import Sink as _Sink
    from .lifetrace import r07w_connect
    sub = _Sink()
    r07w_connect(repo, sub)
    for o in sub.obs:
        sink._add(o.verdict, "R20", "ping-all-inputs", (o.file, o.line), o.msg, func=o.func)


def _quiet_targets():
    """Two targets that do not ask for notifications themselves (needs_push False, nothing downstream): they are notified all the
    same - DelayToPush learns the newest publication time from notifications without declaring needs_push."""
    return [Obj(label="tgt1", markers={"IAdapter", "IInput"}, fields={"needs_push": False, "needs_pull": False, "targets": [], "name": "tgt1"}),
            Obj(label="tgt2", markers={"IAdapter", "IInput"}, fields={"needs_push": False, "needs_pull": False, "targets": [], "name": "tgt2"})]


class _PullRec(_Rec):
    def call_hook(self, fv, args, kwargs, node, mod):
        if isinstance(fv, Closure) and getattr(fv.func, "name", "") == "_convert_and_check":
            return Sym("converted", args[0])
        return super().call_hook(fv, args, kwargs, node, mod)


def _parents(n):
    cur = getattr(n, "_parent", None)
    while cur is not None:
        yield cur
        cur = getattr(cur, "_parent", None)


class _Tolerant(ExchMixin, FinamInterp):
    """For rules that only watch which calls reach the link ends: external calls, unknown attributes and arithmetic become
    opaque terms, value-dependent branches are explored on both outcomes."""

    def __init__(self, repo):
        super().__init__(repo)
        self.pulls = []

    def ext_call(self, name, args, kwargs, node):
        try:
            return super().ext_call(name, args, kwargs, node)
        except AnalysisError:
            return Sym("opaque", name)

    def ext_isinstance(self, v, name, node):
        try:
            return super().ext_isinstance(v, name, node)
        except Undecided:
            return self.decide(Sym("isinstance", repr(v), name), node)

    def get_attr(self, obj, attr, node, mod):
        try:
            return super().get_attr(obj, attr, node, mod)
        except AnalysisError:
            if isinstance(obj, Obj) and obj.cls is not None:
                return Sym("field", attr)
            return Sym("opaque", f"{getattr(obj, 'op', type(obj).__name__)}.{attr}")

    def call_hook(self, fv, args, kwargs, node, mod):
        if isinstance(fv, Closure) and fv.self_obj is not None and getattr(fv.func, "name", "") == "pull_data":
            self.pulls.append((args[0], args[1] if len(args) > 1 else kwargs.get("target")))
            return Sym("pulled", len(self.pulls))
        if isinstance(fv, Closure) and getattr(fv.func, "name", "") in ("prepare",):
            r = Sym("prepared", args[0])
            return (r, None) if kwargs.get("report_conversion") else r
        if isinstance(fv, Sym) and fv.op in ("opaque", "field", "opq"):
            return Sym("opaque", "call")
        r = super().call_hook(fv, args, kwargs, node, mod)
        return r

    def call(self, fv, args, kwargs, node, mod):
        try:
            return super().call(fv, args, kwargs, node, mod)
        except AnalysisError:
            if isinstance(fv, Sym):
                return Sym("opaque", "call")
            raise

    def binop(self, op, left, right, node):
        try:
            return super().binop(op, left, right, node)
        except AnalysisError:
            return Sym("opaque", "binop")

    def sym_compare(self, op, left, right, node):
        try:
            return super().sym_compare(op, left, right, node)
        except Undecided:
            return self.decide(Sym("cmp", type(op).__name__, repr(left), repr(right)), node)

    def sym_item(self, c, k, node):
        return Sym("opaque", "item")

    def iterate(self, v, node):
        if isinstance(v, Sym):
            return []
        return super().iterate(v, node)


def r20p_every_request_pulls(repo, sink):
    """Pass-through and delay adapters hand EVERY request to their source, with the requesting end point: two requests for the
    same time by two different end points give two pulls (a request that is answered from a cache never reaches the source
    output, whose per-consumer bookkeeping then waits for that consumer forever - the history grows without bound)."""
    from .exchange import _adapter
    ads = [e for e in lek.table(repo)[0] if e.kind in (lek.PASS, lek.DELAY, lek.BREAK)]
    n = 0
    for e in ads:
        c = e.cls
        f = repo.resolve(c, "get_data", "method")
        q = Sym("q")
        why = None
        try:
            it = _Tolerant(repo)
            it.order.name(q, "q", 1)
            it.fork = True
            ta, tb = Obj(label="end point A", markers={"IInput"}), Obj(label="end point B", markers={"IInput"})

            def thunk(it=it, c=c, f=f, ta=ta, tb=tb):
                me = _adapter(repo, c)
                from ..absbase import set_backed
                set_backed(repo, me, "info", Obj(label="info"))
                me.fields.update(initial_time=Sym("t_init"))
                it.pulls = []
                it.run(f, [q, ta], self_obj=me)
                it.run(f, [q, tb], self_obj=me)
                return list(it.pulls)

            paths = it.run_all(thunk, limit=256)
        except (AnalysisError, Undecided, RecursionError) as exc:
            sink.unknown("R20", f"every-request-pulls:{c.name}", f, f"{c.name}.get_data outside vocabulary: {exc}")
            continue
        n += 1
        for _d, (kind, val) in paths:
            if kind == "raise":
                continue
            targets = [t for _t, t in val]
            if targets != [ta, tb]:
                why = why or (f"two end points request the same time one after the other: the source is asked with targets "
                              f"{[getattr(t, 'label', t) for t in targets]}; each request must reach the source once with its own end point")
        sink.check(why is None, "R20", f"every-request-pulls:{c.name}", f,
                   ok="every request is handed to the source with the requesting end point (no request is answered from a cache)", bad=why or "")
    sink.floor("R20", "pass-through / delay adapters interpreted", n, 6)


# =========================================================================== R30
def r30_delay(repo, sink):
    """TimeDelayAdapter.get_data pulls at with_delay(time) and reports the original time to
    _pulled afterwards; with_delay of the three delay adapters has the documented clamp."""
    tda = repo.cls("TimeDelayAdapter")
    f = repo.resolve(tda, "get_data", "method")
    from ..absbase import set_backed
    from .exchange import _adapter as _mk_adapter2
    delay_classes = [k for k in repo.subclasses(repo.cls("ITimeDelayAdapter")) if not repo.is_abstract(k)] if repo.has_cls("ITimeDelayAdapter") else []
    sink.floor("R30", "time-delay adapter classes", len(delay_classes), 3)
    # protocol by abstract run of the public get_data() of every delay adapter class: the time asked from the source is exactly
    # what with_delay(time) returns - with_delay is all the driver sees of the adapter when it decides what the source must provide
    for k in delay_classes:
        g = repo.resolve(k, "get_data", "method")
        it = _DelayRec(repo)
        try:
            me = _mk_adapter2(repo, k, ctor={"delay": Sym("delay"), "steps": 1, "additional_delay": Sym("extra")})
            set_backed(repo, me, "info", Obj(label="info"))
            me.fields.setdefault("initial_time", Sym("init"))
            q = Sym("q")
            it.order.name(q, "q", 1)
            tgt = Obj(label="target")
            it.run(g, [q, tgt], self_obj=me)
        except (Raised, Undecided, AnalysisError) as exc:
            sink.unknown("R30", f"delay-protocol:{k.name}", g, f"outside vocabulary: {exc}")
            continue
        seq = it.events
        ok = (len(seq) == 3 and seq[0] == ("with_delay", q) and seq[1] == ("pull_data", Sym("delayed", q), tgt)
              and seq[2] == ("_pulled", q))
        sink.check(ok, "R30", f"delay-protocol:{k.name}", g,
                   ok="get_data: with_delay(time) -> pull_data(delayed, target) -> _pulled(original time)",
                   bad=f"delay protocol of {k.name} is {seq!r}; expected with_delay(time), pull_data(with_delay(time), target), _pulled(time): the driver "
                       "checks availability for with_delay(time), the source must be asked for exactly that time")
    _r30_clamps(repo, sink)


class _DelayRec(FinamInterp):
    def __init__(self, repo):
        super().__init__(repo)
        self.events = []

    def binop(self, op, left, right, node):
        if any(isinstance(x, Sym) and x.op in ("delayed", "q", "init", "extra", "delay", "tterm") for x in (left, right)):
            return Sym("tterm", type(op).__name__, left, right)  # arithmetic on the delayed time: another time than with_delay(time)
        return super().binop(op, left, right, node)

    def builtin(self, name, args, kwargs, node):
        if name in ("max", "min") and any(isinstance(x, Sym) for x in args):
            return Sym("tterm", name, *args)
        return super().builtin(name, args, kwargs, node)

    def sym_compare(self, op, left, right, node):
        if any(isinstance(x, Sym) and x.op in ("delayed", "tterm", "init", "extra") for x in (left, right)):
            return self.decide(Sym("cmp", type(op).__name__, left, right), node)
        return super().sym_compare(op, left, right, node)

    def call_hook(self, fv, args, kwargs, node, mod):
        if isinstance(fv, Closure) and fv.self_obj is not None:
            n = getattr(fv.func, "name", "")
            if n == "with_delay":
                self.events.append(("with_delay", args[0]))
                return Sym("delayed", args[0])
            if n == "pull_data":
                self.events.append(("pull_data", args[0], args[1] if len(args) > 1 else kwargs.get("target")))
                return Sym("pulled")
            if n == "_pulled":
                self.events.append(("_pulled", args[0]))
                return None
            if n == "prepare":
                return (Sym("prepared"), None)
        if isinstance(fv, Closure) and getattr(fv.func, "name", "") == "prepare":
            return (Sym("prepared"), None) if kwargs.get("report_conversion") else Sym("prepared")
        return super().call_hook(fv, args, kwargs, node, mod)


class _DurationOrdered(Exception):
    pass


class _DurationTyped(FinamInterp):
    """Duration typing: the configured delay may be a calendar duration; it can be added to / subtracted from a point in time,
    but it has no order."""

    def sym_compare(self, op, left, right, node):
        if isinstance(op, (ast.Lt, ast.LtE, ast.Gt, ast.GtE)) and any(x == Sym("delay") for x in (left, right)):
            raise _DurationOrdered(f"{left!r} {type(op).__name__} {right!r}")
        return super().sym_compare(op, left, right, node)


def _r30_clamps(repo, sink):
    q, ini, delay = Sym("q"), Sym("init"), Sym("delay")
    # DelayFixed: max(q - delay, init)
    if repo.has_cls("DelayFixed"):
        f = repo.method("DelayFixed", "with_delay")
        worst = None
        for rank_off, want in ((0, ini), (1, ini), (2, Sym("sub", q, delay))):
            o = Order()
            o.name(ini, "init", 1)
            o.name(Sym("sub", q, delay), "off", rank_off)
            it = _DurationTyped(repo, o)
            me = Obj(cls=repo.cls("DelayFixed"), label="DelayFixed")
            me.fields.update(delay=delay, initial_time=ini)
            try:
                got = it.run(f, [q], self_obj=me)
            except _DurationOrdered as d:
                worst = worst or (f"with_delay orders the configured delay itself ({d}): the constructor accepts calendar durations (relativedelta, e.g. one "
                                  "month), which cannot be ordered - every call raises TypeError, in the pull path and in the driver alike; only points in "
                                  "time may be compared (time - delay against the start time)")
                break
            except Undecided as u:
                raise AnalysisError(f"DelayFixed.with_delay: {u}") from u
            from ..absbase import same_value
            if not same_value(got, want) and not (rank_off == 1 and same_value(got, Sym("sub", q, delay))):
                worst = worst or f"time-delay {'<' if rank_off == 0 else '==' if rank_off == 1 else '>'} start: returns {got!r}, expected {want!r}"
        sink.check(worst is None, "R30", "clamp:DelayFixed", f, ok="with_delay(t) = max(t - delay, start time)", bad=worst or "")
    # DelayToPush: start time before the first notification, else min(q, newest notification).  The adapter is
    # constructed and linked by the real code and learns the publication time from a real notification; its
    # source here is another adapter (whose own `time` is None, as Adapter.time says) - no attribute is named.
    if repo.has_cls("DelayToPush"):
        c = repo.cls("DelayToPush")
        f = repo.method("DelayToPush", "with_delay")
        su = repo.method("DelayToPush", "_source_updated")
        worst = None
        push = Sym("push")
        from ..absbase import seed_from_init
        for notified, rq, want in ((False, 1, ini), (True, 0, q), (True, 1, q), (True, 2, push)):
            o = Order()
            o.name(push, "push", 1)
            o.name(q, "q", rq)
            it = FinamInterp(repo, o)
            from .exchange import _adapter
            me = _adapter(repo, c, src=Obj(label="upstream-adapter", markers={"IOutput", "IAdapter"}, fields={"time": None, "name": "up", "logger_name": "up"}))
            me.fields.update(initial_time=ini)
            try:
                if notified:
                    it.run(su, [push], self_obj=me)
                got = it.run(f, [q], self_obj=me)
            except (Raised, Undecided) as exc:
                got = f"{type(exc).__name__}: {exc}"
            if got != want and not (rq == 1 and got in (q, push)):
                worst = worst or (f"{'after a notification at `push`' if notified else 'before any notification'}, request "
                                  f"{'<' if rq == 0 else '==' if rq == 1 else '>'} push: returns {got!r}, expected {want!r}")
        sink.check(worst is None, "R30", "clamp:DelayToPush", f, ok="with_delay(t) = start time before the first notification, else min(t, newest notification)", bad=worst or "")
    # DelayToPull: n-th previous request minus extra delay, not before start
    if repo.has_cls("DelayToPull"):
        c = repo.cls("DelayToPull")
        wd, pl = repo.method("DelayToPull", "with_delay"), repo.method("DelayToPull", "_pulled")
        worst = None
        add = Sym("extra")
        for steps in (1, 2, 3):
            base_reqs = [Sym("r", i) for i in range(4)]
            # request times may repeat (a component pulling twice at one time): still one request each
            reqs = [base_reqs[0], base_reqs[1], base_reqs[1], base_reqs[2], base_reqs[2], base_reqs[2], base_reqs[3]]
            from ..absbase import seed_from_init
            me = Obj(cls=c, label="DelayToPull")
            seed_from_init(FinamInterp(repo), c, me, {"steps": steps, "additional_delay": add})
            me.fields.update(initial_time=ini)
            hist = []
            from ..absbase import same_value
            for k, r in enumerate(reqs):
                # reference: the steps-th previous request, or the start time
                base = hist[k - steps] if k >= steps else ini
                for rank_off, want in ((0, ini), (1, ini), (2, Sym("sub", base, add))):
                    o = Order()
                    o.name(ini, "init", 1)
                    for j, rr in enumerate(base_reqs):
                        o.name(rr, f"r{j}", 10 + j)
                    o.name(Sym("sub", base, add), "off", rank_off)
                    for j, rr in enumerate(base_reqs):
                        if rr is not base and rr != base:
                            o.name(Sym("sub", rr, add), f"r{j}-extra", 5 + j)
                    if base is not ini:
                        o.name(Sym("sub", ini, add), "init-extra", 0)
                    it = FinamInterp(repo, o)
                    trial = Obj(cls=c, label="DelayToPull")
                    trial.fields.update({kk: (type(vv)(vv) if isinstance(vv, list) else vv) for kk, vv in me.fields.items()})
                    try:
                        got = it.run(wd, [r], self_obj=trial)
                        same = same_value(got, want)
                        # the scheduler asks for the shifted time before the adapter's own pull does: asking must not change the answer
                        again = it.run(wd, [r], self_obj=trial)
                        if same and not same_value(again, got) and not (rank_off == 1 and same_value(again, Sym("sub", base, add))):
                            worst = worst or (f"steps={steps}, request #{k}: asking for the shifted time twice gives {got!r} and then {again!r}: "
                                              "the look-ahead of the scheduler is recorded as a pull, the time it checked is not the time requested afterwards")
                    except Undecided as u:
                        got, same = f"undecided {u}", False
                    except Exception as exc:  # pylint: disable=broad-except
                        got, same = f"{type(exc).__name__}", False
                    if not same and rank_off == 1 and not isinstance(got, str) and same_value(got, Sym("sub", base, add)):
                        same = True  # equal times: either expression denotes the start time
                    if not same:
                        worst = worst or (f"steps={steps}, request #{k}: shifts to {got!r}, expected {want!r} "
                                          f"(= {'start time' if want is ini else 'request #%d minus extra delay' % (k - steps) if k >= steps else 'start time minus extra delay'})")
                # advance the real history: with_delay may initialise _pulls, then _pulled(r)
                o = Order()
                o.name(ini, "init", 1)
                for j, rr in enumerate(base_reqs):
                    o.name(rr, f"r{j}", 10 + j)
                o.name(Sym("sub", base, add), "off", 2)
                for j, rr in enumerate(base_reqs):
                    if rr is not base and rr != base:
                        o.name(Sym("sub", rr, add), f"r{j}-extra", 5 + j)
                if base is not ini:
                    o.name(Sym("sub", ini, add), "init-extra", 0)
                it = FinamInterp(repo, o)
                it.run(wd, [r], self_obj=me)
                it.run(pl, [r], self_obj=me)
                hist.append(r)
                longest = max([len(vv) for vv in me.fields.values() if isinstance(vv, list)] or [0])
                if longest > steps:
                    worst = worst or f"steps={steps}: request history grows to {longest} entries"
            # a second adapter instance has a history of its own
            other = Obj(cls=c, label="DelayToPull")
            seed_from_init(FinamInterp(repo), c, other, {"steps": steps, "additional_delay": add})
            other.fields.update(initial_time=ini)
            o = Order()
            o.name(ini, "init", 1)
            for j, rr in enumerate(base_reqs):
                o.name(rr, f"r{j}", 10 + j)
                o.name(Sym("sub", rr, add), f"r{j}-extra", 5 + j)
            o.name(Sym("sub", ini, add), "off", 0)
            try:
                got = FinamInterp(repo, o).run(wd, [base_reqs[3]], self_obj=other)
            except (Undecided, Raised, AnalysisError) as exc:
                got = f"{type(exc).__name__}: {exc}"
            if isinstance(got, str) or not same_value(got, ini):
                worst = worst or (f"steps={steps}: a second, freshly created adapter shifts its first request to {got!r} instead of the start time: "
                                  "the request history is shared between adapter instances")
        sink.check(worst is None, "R30", "clamp:DelayToPull", wd,
                   ok="with_delay = max(n-th previous request - extra delay, start time); history keeps the last n requests",
                   bad=worst or "")


# =========================================================================== R17
class _PushRec(ExchMixin, FinamInterp):
    """Output.push_data with recorded stages."""

    def __init__(self, repo, order, shares=False):
        super().__init__(repo, order)
        self.events = []
        self.shares = shares

    def call_hook(self, fv, args, kwargs, node, mod):
        if isinstance(fv, Closure):
            n = getattr(fv.func, "name", "")
            if n == "prepare":
                self.events.append(("prepare", args[0], args[1]))
                r = Sym("prepared", args[0])
                return (r, None) if kwargs.get("report_conversion") else r
            if n == "_pack" and fv.self_obj is not None:
                self.events.append(("pack", args[0]))
                return Sym("packed", args[0])
            if n == "notify_targets" and fv.self_obj is not None:
                g = self.repo.resolve(fv.self_obj.cls, "time", "getter") if fv.self_obj.cls is not None else None
                now = self.run(g, [], self_obj=fv.self_obj) if g is not None else None
                self.events.append(("notify", args[0], len(fv.self_obj.fields["data"]), now))
                return None
            if n == "is_quantified":
                return bool(getattr(self, "quantified", False)) and isinstance(args[0], Sym) and args[0].op == "payload"
        return super().call_hook(fv, args, kwargs, node, mod)

    def get_attr(self, obj, attr, node, mod):
        if isinstance(obj, Sym) and obj.op == "payload" and attr == "units":
            return Sym("dimensionless")
        if isinstance(obj, Sym) and obj.op == "ext" and attr == "dimensionless":
            return Sym("dimensionless")
        if isinstance(obj, Sym) and obj.op in ("prepared", "payload", "prev", "packed", "earlier") and attr in ("data", "size", "nbytes", "magnitude"):
            return Sym("attr", obj, attr)
        return super().get_attr(obj, attr, node, mod)

    def ext_call(self, name, args, kwargs, node):
        if name.endswith("may_share_memory"):
            self.events.append(("sharecheck", args[0], args[1]))
            return self.shares(args[0], args[1]) if callable(self.shares) else self.shares
        return super().ext_call(name, args, kwargs, node)

    def ext_isinstance(self, v, name, node):
        if name == "str":
            return isinstance(v, str) or (isinstance(v, Sym) and v.op == "file")
        return super().ext_isinstance(v, name, node)


def r17_pushpath(repo, sink):
    """Decision table of Output.push_data: guards before any effect, refusal of data sharing
    memory with the newest retained RAM entry, then pack -> append -> publish time -> notify."""
    c = repo.cls("Output")
    f = repo.resolve(c, "push_data", "method")
    q = Sym("q")

    def mk(n_prev=0, prev_file=False, static=False, exchanged=True, targets=True, n_pinged=1, n_exchanged=None, limit="auto", ends_need_push=False):
        """An output as the real code leaves it: constructed (partial evaluation of the constructors), given its info by
        push_info, linked by add_target, registered end points by pinged, infos exchanged by get_info - then `n_prev` real
        publications.  No private attribute is named; the payloads of earlier publications are then replaced by stand-ins."""
        from ..absbase import seed_from_init
        from .exchange import G1, T1, U1, xinfo
        od = Order()
        od.name(q, "q", 10)
        for i in range(n_prev):
            od.name(Sym("T", i), f"T{i}", i)
        it = _PushRec(repo, od, False)
        o = Obj(cls=c, label="Output")
        seed_from_init(it, c, o, {"name": "out", "info": None, "static": static})
        o.fields["logger"] = Logger(label="logger")
        own = xinfo("own", G1, T1, U1)
        it.run(repo.resolve(c, "push_info", "method"), [own], self_obj=o)
        if targets:
            it.run(repo.resolve(c, "add_target", "method"), [Obj(label="t", markers={"IInput", "IAdapter"})], self_obj=o)
            ends = [Obj(label=f"c{k}", markers={"IInput"}, fields={"name": f"c{k}", "needs_push": ends_need_push, "needs_pull": not ends_need_push})
                    for k in range(n_pinged)]
            for e in ends:
                it.run(repo.resolve(c, "pinged", "method"), [e], self_obj=o)
            n_ex = n_pinged if (n_exchanged is None and exchanged) else (n_exchanged or 0)
            for _k in range(n_ex):
                it.run(repo.resolve(c, "get_info", "method"), [xinfo("req", G1, T1, U1)], self_obj=o)
        for i in range(n_prev):
            it.run(f, [Sym("earlier", i), None if static else Sym("T", i)], self_obj=o)
        if n_prev:
            o.fields["data"] = [(t, Sym("file", i) if prev_file else Sym("prev", i)) for i, (t, _p) in enumerate(o.fields["data"])]
        # entries live in files only under a memory limit (set through the public property)
        lim = (0 if prev_file else None) if limit == "auto" else limit
        if lim is not None:
            it.store_attr(o, "memory_limit", lim, None)
        return o

    def time_of(o):
        g = repo.resolve(c, "time", "getter")
        return FinamInterp(repo).run(g, [], self_obj=o) if g is not None else None

    def run(o, time=q, shares=False):
        od = Order()
        od.name(q, "q", 10)
        it = _PushRec(repo, od, shares)
        try:
            it.run(f, [Sym("payload"), time], self_obj=o)
            return None, it
        except Raised as r:
            return r.name, it

    cases = []
    # 1 no targets: nothing happens
    o = mk(targets=False)
    err, it = run(o)
    cases.append(("no-targets", err is None and not it.events and o.fields["data"] == [], f"{err} {it.events}"))
    # 2 non-datetime time
    o = mk()
    err, it = run(o, time=Sym("nonsense"))
    cases.append(("time-type", err == "ValueError" and not it.events and o.fields["data"] == [], f"{err} {it.events}"))
    # 3 infos not exchanged yet
    o = mk(exchanged=False)
    err, it = run(o)
    cases.append(("info-not-exchanged", err == "FinamNoDataError" and not it.events and o.fields["data"] == [], f"{err} {it.events}"))
    # 4 static output that already holds its value
    o = mk(n_prev=1, static=True)
    err, it = run(o, time=None)
    cases.append(("static-second-push", err == "FinamStaticDataError" and not it.events and len(o.fields["data"]) == 1, f"{err} {it.events}"))
    # 5 shares memory with the newest RAM entry
    o = mk(n_prev=2)
    err, it = run(o, shares=True)
    sc = [e for e in it.events if e[0] == "sharecheck"]
    ok = (err == "FinamDataError" and len(o.fields["data"]) == 2 and time_of(o) == Sym("T", 1)
          and not any(e[0] in ("pack", "notify") for e in it.events)
          and len(sc) == 1 and Sym("attr", Sym("prev", 1), "data") in sc[0][1:] and Sym("attr", Sym("prepared", Sym("payload")), "data") in sc[0][1:])
    cases.append(("shares-memory-with-newest", ok, f"{err} {it.events} data={o.fields['data']!r}"))
    # 5b the same under a memory limit that is not reached: the newest entry is still in RAM and must still be protected
    o = mk(n_prev=2, limit=Sym("limit-not-reached"))
    err, it = run(o, shares=True)
    cases.append(("shares-memory-with-newest-under-limit", err == "FinamDataError" and len(o.fields["data"]) == 2 and not any(e[0] in ("pack", "notify") for e in it.events),
                  f"{err} {it.events} data={o.fields['data']!r}: with a memory limit configured but not reached the previous publication is still in RAM; "
                  "a re-used buffer must be refused exactly as without a limit"))
    # 6 newest entry lives in a file: no memory comparison possible, accepted
    o = mk(n_prev=1, prev_file=True)
    err, it = run(o, shares=True)
    cases.append(("newest-entry-on-disk", err is None and not any(e[0] == "sharecheck" for e in it.events) and len(o.fields["data"]) == 2, f"{err} {it.events}"))
    # 6b the newest entry lives in a file, an older one is still in RAM (limit crossed in between) and the new payload shares
    # memory with that OLDER one: without a limit only the newest publication is compared, so this is accepted - the limit must
    # not change which publications are refused
    o = mk(n_prev=2, limit=0)
    o.fields["data"] = [o.fields["data"][0], (o.fields["data"][1][0], Sym("file", 1))]
    err, it = run(o, shares=lambda a, b: any("prev" in repr(x) for x in (a, b)))
    cases.append(("older-entry-in-ram-newest-on-disk", err is None and len(o.fields["data"]) == 3,
                  f"{err} {it.events}: a payload sharing memory with an OLDER retained publication is refused only because the newest one was spilled; "
                  "the same producer runs without a limit (only the newest publication is compared)"))
    # 7 normal publication
    o = mk(n_prev=1)
    err, it = run(o)
    kinds = [e[0] for e in it.events]
    ok = (err is None and kinds == ["prepare", "sharecheck", "pack", "notify"]
          and getattr(it.events[0][2], "label", None) == "own"
          and o.fields["data"][-1] == (q, Sym("packed", Sym("prepared", Sym("payload"))))
          and time_of(o) == q and it.events[-1][1:] == (q, 2, q))
    cases.append(("publication", ok, f"{err} {it.events} data={o.fields['data']!r} time={time_of(o)!r}"))
    # 7b a publication never releases history: only requests do (a notified consumer may fetch later - a push-based input that
    # pulls after the notification, a buffering adapter behind a delay adapter - and none of the registered end points has pulled)
    for push_ends in (False, True):
        o = mk(n_prev=2, n_pinged=2, ends_need_push=push_ends)
        err, it = run(o)
        cases.append((f"publication-keeps-history:{'notified' if push_ends else 'pulling'}-consumers",
                      err is None and len(o.fields["data"]) == 3 and not any(e[0] == "remove" for e in it.effects),
                      f"{err}: after the third publication the history holds {len(o.fields['data'])} entries {o.fields['data']!r}; none of the {'push-notified ' if push_ends else ''}"
                      "consumers has requested anything yet, all three publications may still be asked for"))
    # 7c a payload that is a dimensionless quantity is published as it is (prepare decides about units; fractions pushed to a
    # percent output are converted, lengths are refused)
    o = mk(n_prev=0)
    od = Order()
    od.name(q, "q", 10)
    itq = _PushRec(repo, od, False)
    itq.quantified = True
    try:
        itq.run(f, [Sym("payload"), q], self_obj=o)
        pre = [e for e in itq.events if e[0] == "prepare"]
        cases.append(("dimensionless-quantity", len(pre) == 1 and pre[0][1] == Sym("payload"),
                      f"a payload quantified as dimensionless reaches prepare as {pre[0][1] if pre else None!r}: its (dimensionless) units are stripped, "
                      "the numbers are relabelled with the output's units instead of converted / refused"))
    except Raised as r:
        cases.append(("dimensionless-quantity", False, f"raises {r.name}"))
    # 7b the link branches behind a pull adapter: one direct target, two registered end points.  Data may flow only after
    # BOTH have exchanged their info (otherwise the producer reports itself connected while a consumer is still negotiating)
    for n_ex, want in ((1, "FinamNoDataError"), (2, None)):
        o = mk(n_pinged=2, n_exchanged=n_ex)
        err, it = run(o)
        cases.append((f"branch-behind-adapter:{n_ex}-of-2-exchanged", err == want and (want is None or (not it.events and o.fields["data"] == [])),
                      f"one direct target (an adapter), two registered end points, {n_ex} info exchange(s) done: push gives {err}, expected {want}"))
        try:
            FinamInterp(repo).run(repo.resolve(c, "info", "getter"), [], self_obj=o)
            ierr = None
        except Raised as r:
            ierr = r.name
        cases.append((f"branch-behind-adapter:info:{n_ex}-of-2-exchanged", ierr == want,
                      f"one direct target, two registered end points, {n_ex} exchange(s) done: Output.info gives {ierr}, expected {want}"))
    # 8 static first push: stored with time None
    o = mk(static=True)
    err, it = run(o, time=q)
    ok = err is None and len(o.fields["data"]) == 1 and o.fields["data"][0][0] is None and it.events[-1][1] is None
    cases.append(("static-first-push", ok, f"{err} data={o.fields['data']!r}"))
    for name, ok, detail in cases:
        sink.check(bool(ok), "R17", f"push:{name}", f,
                   ok="push_data behaves as specified for this case",
                   bad=f"push_data, case '{name}': {detail}")
    # same refusal in CallbackOutput.get_data: two successive answers of the provider, observed in an abstract run
    g = repo.method("CallbackOutput", "get_data")
    why = None
    try:
        for shares, other_target in ((False, False), (True, False), (True, True), (False, True)):
            it = _CbRec(repo)
            it.shares_script = [shares]
            q1, q2 = Sym("q1"), Sym("q2")
            it.order.name(q1, "q1", 1)
            it.order.name(q2, "q2", 2)
            from .exchange import built_output
            cb = Obj(label="stub")
            me = built_output(repo, "CallbackOutput", ctor={"callback": Sym("stubcall", Ref(cb), "provider"), "name": "o"},
                              targets=[Obj(label="t", markers={"IInput"}, fields={"name": "t"})], pinged=[Obj(label="t2", markers={"IInput"}, fields={"name": "t2"})])
            tgt = Obj(label="target")
            # (the previous answer is the previous answer whoever asked: a provider re-using its buffer overwrites what the other
            # consumer received)
            tgt2 = Obj(label="another target") if other_target else tgt
            r1 = it.run(g, [q1, tgt], self_obj=me)
            n1 = len(it.share_checks)
            try:
                r2 = it.run(g, [q2, tgt2], self_obj=me)
                second = "answered"
            except Raised as r:
                second = r.name
            checks = it.share_checks[n1:]
            if other_target and (len(checks) != 1 or (shares and second != "FinamDataError")):
                why = why or (f"two end points ask one after the other: the second answer is compared with {checks!r} and {second}; it must be compared with the "
                              "previous answer although another end point received it (a provider re-using its buffer silently overwrites the first consumer's data)")
                continue
            if n1 > 0 and any("provided" in repr(c[0]) and "provided" in repr(c[1]) for c in it.share_checks[:n1]):
                why = why or "the very first answer is compared with itself"
            elif len(checks) != 1 or not ("1" in repr(checks[0]) and "2" in repr(checks[0])):
                why = why or f"the second answer is compared with {checks!r}; it must be compared once with the previous answer"
            elif shares and second != "FinamDataError":
                why = why or f"an answer sharing memory with the previous one is {second}, expected FinamDataError"
            elif not shares and second != "answered":
                why = why or f"a fresh second answer ends in {second}"
    except (Undecided, AnalysisError) as exc:
        sink.unknown("R17", "refusal:CallbackOutput", g, f"outside vocabulary: {exc}")
        why = "skip"
    if why != "skip":
        sink.check(why is None, "R17", "refusal:CallbackOutput", g,
                   ok="pull-based output refuses answers sharing memory with the previous one and remembers the answer",
                   bad=f"CallbackOutput.get_data: {why}")


# =========================================================================== R18
def _find_syms(v, op, acc=None):
    acc = [] if acc is None else acc
    if isinstance(v, Sym):
        if v.op == op:
            acc.append(v)
        for a in v.args:
            _find_syms(a, op, acc)
    elif isinstance(v, (tuple, list)):
        for a in v:
            _find_syms(a, op, acc)
    return acc


class _ConvRec(ExchMixin, FinamInterp):
    def __init__(self, repo):
        super().__init__(repo)
        self.events = []

    def call_hook(self, fv, args, kwargs, node, mod):
        if isinstance(fv, Sym) and fv.op == "arr_method":
            return Sym(fv.args[1], fv.args[0], *args)  # a cast / rounding: other numbers than the converted data
        if isinstance(fv, Sym) and fv.op == "src_get_data":
            self.events.append(("fetch", tuple(args) + tuple(kwargs.get(k) for k in ("target",) if k in kwargs)))
            return Sym("raw")
        if isinstance(fv, Sym) and fv.op == "src_pinged":
            self.events.append(("pinged", tuple(args)))
            return None
        if isinstance(fv, Closure):
            n = getattr(fv.func, "name", "")
            if n == "to_units":
                self.events.append(("to_units", args[0], args[1] if len(args) > 1 else kwargs.get("units"), kwargs.get("check_equivalent", False)))
                r = Sym("converted", args[0])
                conv = (Sym("U", "from"), Sym("U", "to")) if getattr(self, "converting", False) else None  # (a real conversion is reported)
                return (r, conv) if kwargs.get("report_conversion") else r
            if n == "check":
                self.events.append(("check", args[0], args[1]))
                return None
        if isinstance(fv, Sym) and fv.op == "transform":
            self.events.append(("transform", args[0]))
            return Sym("transformed", args[0])
        return super().call_hook(fv, args, kwargs, node, mod)

    n_time = 1

    def get_attr(self, obj, attr, node, mod):
        if isinstance(obj, Obj) and obj.label == "source" and attr == "get_data":
            return Sym("src_get_data")
        if isinstance(obj, Obj) and obj.label == "source" and attr == "pinged":
            return Sym("src_pinged")
        if isinstance(obj, Sym) and attr == "shape" and obj.op in ("raw", "transformed", "item"):
            return (self.n_time, Sym("n"))
        if isinstance(obj, Sym) and attr in ("size", "magnitude", "units"):
            return Sym("attr", obj, attr)
        if isinstance(obj, Sym) and attr == "dtype":
            return Sym("dtype", obj)
        if isinstance(obj, Sym) and attr in ("astype", "round", "view"):
            return Sym("arr_method", obj, attr)
        return super().get_attr(obj, attr, node, mod)

    def sym_compare(self, op, left, right, node):
        if isinstance(op, (ast.Eq, ast.NotEq)) and all(isinstance(x, Sym) and x.op == "dtype" for x in (left, right)):
            # converting units may change the dtype (integers become floats): data before and after a conversion differ in dtype
            eq = left == right
            return eq if isinstance(op, ast.Eq) else not eq
        return super().sym_compare(op, left, right, node)

    def sym_item(self, c, k, node):
        if isinstance(c, Sym):
            return Sym("item", c, repr(k))
        return super().sym_item(c, k, node)

    def iterate(self, v, node):
        # iterating an array (or its magnitude) runs over the leading time axis
        if isinstance(v, Sym) and (v.op in ("raw", "transformed") or (v.op == "attr" and v.args[1] == "magnitude")):
            return [Sym("item", v, repr(i)) for i in range(self.n_time)]
        return super().iterate(v, node)

    def ext_call(self, name, args, kwargs, node):
        short = name.split(".")[-1]
        if short in ("isMaskedArray", "isMA", "is_masked_array"):
            return bool(getattr(self, "masked_slices", False))
        if short in ("stack", "concatenate", "vstack"):
            # numpy's plain functions return plain arrays for masked input (the masks are dropped); the np.ma ones keep them
            return Sym("mastack" if ".ma." in "." + name else "stack", tuple(args[0]))
        if short == "Quantity":
            return Sym("qty", args[0], args[1])
        return super().ext_call(name, args, kwargs, node)


def _linked(repo, it, static=False, same_grid=False):
    from .exchange import linked_input
    src = Obj(label="source", markers={"IOutput", "IAdapter"}, fields={"logger_name": "src", "name": "src"})
    return linked_input(repo, it, static=static, same_grid=same_grid, src=src)


def r18_pullpath(repo, sink):
    """Pull path of an Input that was constructed, linked and connected by the real code
    (constructor, source setter, exchange_info - no private attribute is named): what
    pull_data(time) does with the data its source returns."""
    from .exchange import U2
    inp = repo.cls("Input")
    pd = repo.resolve(inp, "pull_data", "method")
    q = Sym("q")
    for with_tr, converting in ((False, False), (True, False), (False, True), (True, True)):
        it = _ConvRec(repo)
        it.converting = converting
        it.order.name(q, "q", 1)
        me, _src, _req, _deliv = _linked(repo, it, same_grid=not with_tr)
        info = _prop_info(repo, it, me)
        it.events.clear()
        try:
            got = it.run(pd, [q], self_obj=me)
        except (Raised, Undecided) as exc:
            raise AnalysisError(f"Input.pull_data outside vocabulary: {exc}") from exc
        kinds = [e[0] for e in it.events]
        tu = [e for e in it.events if e[0] == "to_units"]
        ck = [e for e in it.events if e[0] == "check"]
        why = None
        if kinds.count("fetch") != 1:
            why = f"the source is asked {kinds.count('fetch')} times"
        elif with_tr and "transform" not in kinds:
            why = "the grid transformation is not applied"
        elif not with_tr and "transform" in kinds:
            why = "a transformation is applied although none is set"
        elif len(tu) != 1 or len(ck) != 1:
            why = f"stages are {kinds}: exactly one unit conversion and one check are required"
        elif kinds.index("to_units") > kinds.index("check") or (with_tr and max(i for i, k in enumerate(kinds) if k == "transform") > kinds.index("to_units")):
            why = f"stages are out of order: {kinds} (transform -> to_units -> check)"
        elif tu[0][2] != U2 or tu[0][3] is not True:
            why = f"units are converted to {tu[0][2]!r} with check_equivalent={tu[0][3]}; must be the input's units with check_equivalent=True"
        elif ck[0][1] != Sym("converted", tu[0][1]) or ck[0][2] is not info:
            why = "the converted data is not checked against the input's info"
        elif got != Sym("converted", tu[0][1]):
            why = f"returns {got!r}, not the converted and checked data"
        elif with_tr and "transformed" not in repr(tu[0][1]):
            why = "unit conversion runs on the untransformed data"
        elif "raw" not in repr(tu[0][1]):
            why = "the converted data is not what the source returned"
        else:
            for qn in _find_syms(tu[0][1], "qty"):
                if "raw" not in repr(qn.args[1]):
                    why = (f"before the unit conversion the data is wrapped into a quantity labelled {qn.args[1]!r} instead of the units it arrived with: "
                           "the following conversion becomes a no-op (1000 m arrive as 1000 km)")
        sink.check(why is None, "R18", f"convert:{'with' if with_tr else 'without'}-transform" + (":units-converted" if converting else ""), pd,
                   ok="fetch -> transform (if any) -> to_units(input units, check_equivalent) -> check(input info) -> return", bad=why or "")
    # several time entries (e.g. behind StackTime): the re-assembled array keeps the units of the transformed slices
    it = _ConvRec(repo)
    it.order.name(q, "q", 1)
    it.n_time = 2
    try:
        me, _src, _req, _deliv = _linked(repo, it)
        it.events.clear()
        it.run(pd, [q], self_obj=me)
        tu = [e for e in it.events if e[0] == "to_units"]
        arg = tu[0][1] if tu else None
        ok = len([e for e in it.events if e[0] == "transform"]) == 2 and tu
        if ok and isinstance(arg, Sym) and arg.op == "qty":
            units = arg.args[1]
            ok = "transformed" in repr(units) and "req" not in repr(units)
            why = f"re-assembled time slices are labelled with {units!r}"
        elif ok:
            why = ""
        else:
            why = f"stages {[e[0] for e in it.events]}"
        sink.check(bool(ok), "R18", "convert:several-time-entries", pd,
                   ok="every time slice is transformed; the re-assembled data keeps the slices' own units before the unit conversion",
                   bad=why + ": labelling them with the input's units turns the following conversion into a no-op (1000 m arrive as 1000 km)")
    except (Raised, Undecided, AnalysisError) as exc:
        sink.unknown("R18", "convert:several-time-entries", pd, f"outside vocabulary: {exc}")
    # the same with masked slices: the re-assembled array keeps their masks (plain np.stack returns an unmasked array)
    it = _ConvRec(repo)
    it.order.name(q, "q", 1)
    it.n_time = 2
    it.masked_slices = True
    try:
        me, _src, _req, _deliv = _linked(repo, it)
        it.events.clear()
        it.run(pd, [q], self_obj=me)
        tu = [e for e in it.events if e[0] == "to_units"]
        arg = tu[0][1] if tu else None
        plain = "stack(" in repr(arg).replace("mastack(", "")
        sink.check(bool(tu) and not plain, "R18", "convert:several-masked-time-entries", pd,
                   ok="masked time slices are re-assembled with a mask-preserving function",
                   bad=f"masked time slices are re-assembled as {arg!r}: numpy's plain stacking drops the masks, masked cells arrive as valid values")
    except (Raised, Undecided, AnalysisError) as exc:
        sink.unknown("R18", "convert:several-masked-time-entries", pd, f"outside vocabulary: {exc}")


def _prop_info(repo, it, me):
    g = repo.resolve(me.cls, "info", "getter")
    if g is None:
        raise AnalysisError("Input.info is not a property")
    return it.run(g, [], self_obj=me)


def _block(st):
    p = st._parent
    for field in ("body", "orelse", "finalbody"):
        blk = getattr(p, field, None)
        if isinstance(blk, list) and st in blk:
            return blk
    return []


# =========================================================================== R40
def r40_cbtime(repo, sink):
    """CallbackOutput.get_data hands its `time` unchanged to the provider; WeightedSum's
    provider pulls every input with that time and multiplies value by its own weight."""
    f = repo.method("CallbackOutput", "get_data")
    it = _CbRec(repo)
    q = Sym("q")
    it.order.name(q, "q", 1)
    from .exchange import built_output
    cb = Obj(label="stub")
    me = built_output(repo, "CallbackOutput", ctor={"callback": Sym("stubcall", Ref(cb), "provider"), "name": "o"},
                      targets=[Obj(label="t", markers={"IInput"}, fields={"name": "t"})], pinged=[Obj(label="t2", markers={"IInput"}, fields={"name": "t2"})])
    tgt = Obj(label="target")
    try:
        it.run(f, [q, tgt], self_obj=me)
        got = [c for c in it.calls if c[1] == "provider"]
        ok = len(got) == 1 and got[0][2] == (me, q)
        why = f"provider invoked as {got!r}"
    except Raised as r:
        ok, why = False, f"raises {r.name}"
    sink.check(ok, "R40", "provider-time", f, ok="provider is invoked once with (output, requested time)", bad=why)
    # None from the provider means "no data yet"
    it2 = _CbRec(repo, none_result=True)
    it2.order.name(q, "q", 1)
    try:
        it2.run(f, [q, tgt], self_obj=me)
        sink.bad("R40", "provider-none", f, "a provider returning None does not raise FinamNoDataError")
    except Raised as r:
        sink.check(r.name == "FinamNoDataError", "R40", "provider-none", f, ok="None from the provider raises FinamNoDataError (retry)", bad=f"raises {r.name}")
    # WeightedSum: abstract run of the provider
    if repo.has_cls("WeightedSum"):
        wc = repo.cls("WeightedSum")
        ws = repo.resolve(wc, "_get_data", "method")
        names = ["a", "b", "c"]

        class _WS(_Rec):
            def __init__(self, repo):
                super().__init__(repo)
                self.pulled = []
                self.pull_targets = []
                self.inplace = []

            def aug_assign(self, op, cur, value, node):
                if isinstance(cur, Sym) and cur.op in ("mul", "add") and "v(" in repr(cur):
                    self.inplace.append((type(op).__name__, cur))  # numpy: `a += b` writes into a's own array
                return super().aug_assign(op, cur, value, node)

            def call_hook(self, fv, args, kwargs, node, mod):
                if isinstance(fv, Closure) and getattr(fv.func, "name", "") == "strip_time":
                    return Sym("st", args[0])
                if isinstance(fv, Closure) and getattr(fv.func, "name", "") == "try_connect":
                    return None
                if isinstance(fv, Closure) and getattr(fv.func, "name", "") == "get_magnitude":
                    return Sym("magnitude", args[0])
                if isinstance(fv, Closure) and getattr(fv.func, "name", "") in ("quantify", "to_units"):
                    return Sym(fv.func.name, args[0], args[1] if len(args) > 1 else kwargs.get("units"))
                if isinstance(fv, Sym) and fv.op == "method" and fv.args[1] in ("to", "to_reduced_units", "m_as"):
                    return Sym("to_units", fv.args[0], *args)
                if isinstance(fv, Sym) and fv.op == "stubcall" and fv.args[1] == "pull_data":
                    self.pull_targets.append(args[1] if len(args) > 1 else kwargs.get("target"))
                    self.pulled.append((fv.args[0].obj.fields["name"], args[0]))
                    return Sym("v", fv.args[0].obj.fields["name"], args[0])
                if isinstance(fv, Sym) and fv.op == "method" and fv.args[1] == "copy":
                    return Sym("copy", fv.args[0])
                return super().call_hook(fv, args, kwargs, node, mod)

            def get_attr(self, obj, attr, node, mod):
                if isinstance(obj, Sym) and attr in ("copy", "to", "to_reduced_units", "m_as"):
                    return Sym("method", obj, attr)
                if isinstance(obj, Sym) and attr in ("magnitude", "units"):
                    return Sym(attr, obj)
                return super().get_attr(obj, attr, node, mod)

            def ext_isinstance(self, v, name, node):
                if name.endswith("Quantity"):
                    return isinstance(v, Sym)
                return super().ext_isinstance(v, name, node)

            def ext_call(self, name, args, kwargs, node):
                if name.endswith("Quantity"):
                    return Sym("requantified", args[0], args[1] if len(args) > 1 else None)
                return super().ext_call(name, args, kwargs, node)

        inputs = {}
        for n in names:
            for nm in (n, n + "_weight"):
                st = Obj(label="stub")
                st.fields["name"] = nm
                # the source has published ahead and does not publish again between the two requests
                st.fields["source"] = Obj(label="stub-source", fields={"time": Sym("T_published", nm), "name": "src_" + nm})
                inputs[nm] = st
        me = Obj(cls=wc, label="WeightedSum")
        from ..absbase import seed_from_init
        seed_from_init(FinamInterp(repo), wc, me, {"inputs": list(names), "grid": Sym("grid")})
        stale = {nm: Sym("stale-connect-phase-data", nm) for nm in inputs}
        # the connect phase, run by the real code against a connector that has pulled everything: whatever attribute
        # keeps the initial data is filled by WeightedSum itself
        conn_stub = Obj(label="stub")
        conn_stub.fields.update(all_data_pulled=True, in_data=stale, in_infos={nm: None for nm in inputs}, infos_pushed={"WeightedSum": True})
        me.fields.update(inputs=inputs, logger=Logger(label="logger"), name="ws")
        from ..absbase import set_backed
        set_backed(repo, me, "connector", conn_stub)
        prep = _WS(repo)
        prep.store_attr(me, "status", Sym("enum", "ComponentStatus", "CONNECTING"), None)
        cn = repo.resolve(wc, "_connect", "method")
        if cn is not None:
            try:
                prep.run(cn, [Sym("q0")], self_obj=me)
            except (Raised, Undecided, AnalysisError) as exc:
                raise AnalysisError(f"WeightedSum._connect outside vocabulary: {exc}") from exc
        prep.store_attr(me, "status", Sym("enum", "ComponentStatus", "VALIDATED"), None)
        it = _WS(repo)
        q, q2 = Sym("q"), Sym("q2")
        it.order.name(q, "q", 1)
        it.order.name(q2, "q2", 2)
        try:
            r1 = it.run(ws, [None, q], self_obj=me)
            n_pulls_1 = len(it.pulled)
            r1b = it.run(ws, [None, q], self_obj=me)
            n_pulls_2 = len(it.pulled)
            r2 = it.run(ws, [None, q2], self_obj=me)
            n_pulls_3 = len(it.pulled)
            r3 = it.run(ws, [None, q], self_obj=me)  # a second, slower consumer asks for the earlier time again
        except (Raised, Undecided) as exc:
            raise AnalysisError(f"WeightedSum._get_data outside vocabulary: {exc}") from exc
        from ..absbase import same_value

        def expect(t):
            tot = None
            for n in names:
                term = Sym("mul", Sym("st", Sym("v", n, t)), Sym("st", Sym("v", n + "_weight", t)))
                tot = term if tot is None else Sym("add", tot, term)
            return tot

        def strip_copy(v):
            return v.args[0] if isinstance(v, Sym) and v.op == "copy" else v

        def drops_units(v, converted=False):
            """A magnitude taken from a value that was not converted to a common unit first."""
            if isinstance(v, Sym):
                if v.op == "magnitude" and not converted and "to_units" not in repr(v.args[0]) and "_weight" not in repr(v.args[0]):
                    return True
                return any(drops_units(a, converted) for a in v.args)
            if isinstance(v, (tuple, list)):
                return any(drops_units(a, converted) for a in v)
            return False

        why = None
        if it.inplace:
            why = ("the running sum is accumulated in place (`result += ...`) in the array of the first product: that array keeps the type of the "
                   "first value x weight, so an integer-valued first input followed by a fractional one cannot be added (numpy refuses the cast) "
                   "- the merger raises instead of returning the sum")
        elif drops_units(strip_copy(r1)):
            why = (f"result is {strip_copy(r1)!r}: the bare magnitudes of the value inputs are added without converting them to a common unit "
                   "(inputs in km and m are summed as plain numbers and labelled with one of the units)")
        elif sorted(it.pulled[:n_pulls_1]) != sorted((nm, q) for nm in inputs):
            why = f"first request pulls {sorted(it.pulled[:n_pulls_1])!r}; every input must be pulled once for the requested time"
        elif not same_value(strip_copy(r1), expect(q)):
            why = f"result is {strip_copy(r1)!r}, expected the sum over all names of value x own weight (time-stripped)"
        elif n_pulls_2 != n_pulls_1 or not same_value(strip_copy(r1b), expect(q)):
            why = "a repeated request for the same time must serve the same sum without pulling again"
        elif not same_value(strip_copy(r2), expect(q2)) or sorted(it.pulled[n_pulls_2:n_pulls_3], key=repr) != sorted(((nm, q2) for nm in inputs), key=repr):
            why = f"request for a later time yields {strip_copy(r2)!r} after pulls {it.pulled[n_pulls_2:n_pulls_3]!r}"
        elif not same_value(strip_copy(r3), expect(q)) or sorted(it.pulled[n_pulls_3:], key=repr) != sorted(((nm, q) for nm in inputs), key=repr):
            why = (f"a request for an earlier time after a later one yields {strip_copy(r3)!r} after pulls {it.pulled[n_pulls_3:]!r}: the provider must be invoked "
                   "for exactly the requested time, the memo only serves repeated requests for the same time")
        sink.check(why is None, "R40", "weighted-sum", ws,
                   ok="provider pulls every input for the requested time and returns sum(value x own weight), memoised per time", bad=why or "")
        repo._ws_pull_targets = list(it.pull_targets)
        me2 = Obj(cls=wc, label="WeightedSum")
        seed_from_init(FinamInterp(repo), wc, me2, {"inputs": list(names), "grid": Sym("grid")})
        me2.fields.update(inputs=inputs, logger=Logger(label="logger"))
        _WS(repo).store_attr(me2, "status", Sym("enum", "ComponentStatus", "CONNECTING"), None)
        sink.check(_WS(repo).run(ws, [None, q], self_obj=me2) is None, "R40", "weighted-sum-not-ready", ws,
                   ok="before the initial data is there the provider answers None (no data yet)", bad="provider does not answer None before its inputs were pulled")


def r40c_shared_conduit(repo, sink):
    """Several consumers behind one pull-based component (own rule: it belongs to C20 / C01 only)."""
    if not repo.has_cls("WeightedSum"):
        return
    wc = repo.cls("WeightedSum")
    ws = repo.resolve(wc, "_get_data", "method")
    if getattr(repo, "_ws_pull_targets", None) is None:
        r40_cbtime(repo, Sink_null())

    class _It:
        pull_targets = getattr(repo, "_ws_pull_targets", None) or []
    it = _It()
    # Several consumers behind one pull-based component: the upstream output sees all of their requests under ONE end
    # point (the component's own input).  If the requester's identity is not handed upstream (A) and the upstream output
    # refuses a request of that end point that lies before its previous one (B), then a slower consumer that pulled ahead
    # makes the output discard what a faster consumer still requests: the scheduling guarantee does not extend through
    # the pull-based component.
    from .buffer import BufInterp, Q, T, _output_obj, make_order
    collapsed = all(t is None for t in it.pull_targets)
    out_cls = repo.cls("Output")
    gd = repo.resolve(out_cls, "get_data", "method")
    late, early = Sym("late"), Sym("early")
    order = make_order(4, {late: ("eq", 3), early: ("eq", 1)})
    conduit = Obj(label="input-of-the-pull-based-component")
    o = _output_obj(repo, 4, ["ram"] * 4, {conduit: None})
    bi = BufInterp(repo, order)
    refused = None
    try:
        bi.run(gd, [late, conduit], self_obj=o)
        bi.run(gd, [early, conduit], self_obj=o)
        refused = False
    except Raised as r:
        refused = r.name
    except (Undecided, AnalysisError) as exc:
        sink.unknown("R40", "pull-based-two-consumers", ws, f"outside vocabulary: {exc}")
        refused = "unknown"
    if refused != "unknown":
        bad = collapsed and refused is not False
        sink.check(not bad, "R40", "pull-based-two-consumers" + (f":earlier-request-refused-{refused}" if bad else ""), ws,
                   ok="requests of several consumers behind a pull-based component are served (requester identity forwarded / earlier request served)",
                   bad=("two time-stepped consumers with different steps read one pull-based output (WeightedSum): the provider pulls its inputs "
                        "without a target, so the upstream Output sees one end point; after the slower consumer's request (publication 3) the "
                        f"faster consumer's request (publication 1) is refused with {refused}: the data was discarded although a consumer was "
                        "still entitled to it"))


class Sink_null:
    """Swallows obligations (used to run a rule only for the facts it leaves on the repo)."""

    def __getattr__(self, _name):
        return lambda *a, **k: None


class _CbRec(_Rec):
    def __init__(self, repo, none_result=False):
        super().__init__(repo)
        self.none_result = none_result
        self.share_checks = []
        self.shares_script = None

    def call_hook(self, fv, args, kwargs, node, mod):
        if isinstance(fv, Sym) and fv.op == "stubcall" and fv.args[1] == "provider":
            self.calls.append(("stub", "provider", tuple(args), {}))
            self.n_provided = getattr(self, "n_provided", 0) + 1
            return None if self.none_result else Sym("provided", self.n_provided)
        if isinstance(fv, Closure) and getattr(fv.func, "name", "") == "prepare":
            r = Sym("prepared", args[0])
            return (r, None) if kwargs.get("report_conversion") else r
        if isinstance(fv, Closure) and getattr(fv.func, "name", "") == "get_magnitude":
            return Sym("mag", args[0])
        return super().call_hook(fv, args, kwargs, node, mod)

    def ext_call(self, name, args, kwargs, node):
        if name.endswith("may_share_memory") or name.endswith("shares_memory"):
            if not hasattr(self, "share_checks"):
                self.share_checks = []
            self.share_checks.append((args[0], args[1]))
            script = getattr(self, "shares_script", None)
            return script.pop(0) if script else False
        return super().ext_call(name, args, kwargs, node)


# ========================================================================== R18s
class _Arr(Obj):
    """Array stand-in with a concrete (small) shape: shapes are configuration, not data."""


def _arr(shape, label="data"):
    o = _Arr(label=label)
    size = 1
    for s_ in shape:
        size *= s_
    o.fields.update(shape=tuple(shape), size=size)
    return o


class _ShapeInterp(FinamInterp):
    def get_attr(self, obj, attr, node, mod):
        if isinstance(obj, _Arr) and attr == "reshape":
            return Sym("reshape_of", Ref(obj))
        if isinstance(obj, _Arr) and attr == "ndim" and "shape" in obj.fields:
            return len(obj.fields["shape"])
        if isinstance(obj, _Arr) and attr == "size" and "shape" in obj.fields and all(isinstance(x, int) for x in obj.fields["shape"]):
            n = 1
            for x in obj.fields["shape"]:
                n *= x
            return n
        return super().get_attr(obj, attr, node, mod)

    def call_hook(self, fv, args, kwargs, node, mod):
        if isinstance(fv, Sym) and fv.op == "reshape_of":
            src = fv.args[0].obj
            shp = tuple(args[0]) if isinstance(args[0], (list, tuple)) else (args[0],)
            n = _arr(shp, "reshaped")
            n.fields["order"] = kwargs.get("order")
            n.fields["from"] = src.fields["shape"]
            return n
        return super().call_hook(fv, args, kwargs, node, mod)

    def ext_call(self, name, args, kwargs, node):
        short = name.split(".")[-1]
        if short == "expand_dims" and isinstance(args[0], _Arr):
            n = _arr((1,) + tuple(args[0].fields["shape"]), "expanded")
            return n
        if short in ("array",) and isinstance(args[0], (tuple, list)):
            from ..absbase import Vec
            return Vec(args[0])
        if short == "all" and isinstance(args[0], (bool, list, tuple)):
            return bool(args[0]) if isinstance(args[0], bool) else all(args[0])
        if short == "any" and isinstance(args[0], (bool, list, tuple)):
            return bool(args[0]) if isinstance(args[0], bool) else any(args[0])
        # elementwise comparisons of concrete shape vectors (configuration values)
        if short in ("not_equal", "equal", "greater", "less") and len(args) == 2:
            from ..absbase import Vec
            a, b = args
            if isinstance(a, (tuple, list)) or isinstance(b, (tuple, list)):
                a = list(a) if isinstance(a, (tuple, list)) else [a] * len(b)
                b = list(b) if isinstance(b, (tuple, list)) else [b] * len(a)
                if len(a) == len(b) and all(isinstance(x, int) for x in a + b):
                    fn = {"not_equal": lambda x, y: x != y, "equal": lambda x, y: x == y, "greater": lambda x, y: x > y, "less": lambda x, y: x < y}[short]
                    return Vec(fn(x, y) for x, y in zip(a, b))
        if short in ("array_equal", "array_equiv") and len(args) == 2 and all(isinstance(a, (tuple, list)) for a in args):
            return list(args[0]) == list(args[1])
        if short in ("asarray",) and isinstance(args[0], (tuple, list)):
            from ..absbase import Vec
            return Vec(args[0])
        return super().ext_call(name, args, kwargs, node)

    def sym_compare(self, op, left, right, node):
        if isinstance(op, (ast.Eq, ast.NotEq)) and isinstance(left, tuple) and isinstance(right, tuple):
            eq = tuple(left) == tuple(right)
            return eq if isinstance(op, ast.Eq) else not eq
        return super().sym_compare(op, left, right, node)

    def compare(self, op, left, right, node):
        from ..absbase import Vec
        if isinstance(left, Vec) and isinstance(op, (ast.Eq, ast.NotEq)):
            if isinstance(right, int):
                return Vec((a == right) if isinstance(op, ast.Eq) else (a != right) for a in left)
            if isinstance(right, Vec) and len(right) == len(left):
                return Vec((a == b) if isinstance(op, ast.Eq) else (a != b) for a, b in zip(left, right))
        if isinstance(op, (ast.Eq, ast.NotEq)) and isinstance(left, tuple) and isinstance(right, tuple):
            eq = tuple(left) == tuple(right)
            return eq if isinstance(op, ast.Eq) else not eq
        return super().compare(op, left, right, node)

    def get_item(self, c, k, node):
        from ..absbase import Vec
        if isinstance(c, Vec) and isinstance(k, Vec) and len(c) == len(k) and all(isinstance(x, bool) for x in k):
            return Vec(a for a, keep in zip(c, k) if keep)
        return super().get_item(c, k, node)


def r18s_shape(repo, sink):
    """prepare() normalises the shape: a leading time axis and the grid's data shape; flat
    data is reshaped in the grid's memory order; anything else is refused."""
    f = repo.func("src/finam/data/tools/core.py", "_check_input_shape")
    gcls = repo.cls("Grid")
    grid = Obj(cls=None, label="grid", markers={"Grid"})
    grid.fields.update(data_shape=(3, 2), data_size=6, order=Sym("ORDER"))
    info = Obj(label="info", fields={"grid": grid})

    class _I(_ShapeInterp):
        def isinstance(self, v, klass, node):
            from ..loader import Class
            if isinstance(klass, Class) and isinstance(v, Obj) and v.label == "grid":
                return klass.name in ("Grid", "GridBase") or (klass.name == "StructuredGrid" and "axes_reversed" in v.fields)
            if isinstance(klass, Class) and isinstance(v, Obj) and v.label == "nogrid":
                return klass.name in ("NoGrid", "GridBase")
            return super().isinstance(v, klass, node)

        def get_attr(self, obj, attr, node, mod):
            if isinstance(obj, Obj) and obj.label in ("info", "grid", "nogrid") and attr in obj.fields:
                return obj.fields[attr]
            return super().get_attr(obj, attr, node, mod)

    table = [
        ((3, 2), 1, ("shape", (1, 3, 2))),
        ((1, 3, 2), 1, ("shape", (1, 3, 2))),
        ((2, 3, 2), 1, ("shape", (2, 3, 2))),
        ((6,), 1, ("reshape", (1, 3, 2))),
        ((12,), 2, ("reshape", (2, 3, 2))),
        ((2, 3), 1, ("raise", "FinamDataError")),
        ((5,), 1, ("raise", "FinamDataError")),
        ((1, 2, 3), 1, ("raise", "FinamDataError")),
        ((4, 2), 1, ("raise", "FinamDataError")),
    ]
    worst = None
    # (the grid's memory order as a symbol, and as every concrete layout: the data shape and data points of a grid are given in
    #  grid.order whether or not its axes are listed in reverse, so a flat payload is always read in grid.order)
    layouts = [(Sym("ORDER"), None)] + [(o, r) for o in ("F", "C") for r in (False, True)]
    for (order, rev), (shape, te, want) in itertools.product(layouts, table):
        grid.fields["order"] = order
        grid.fields.pop("axes_reversed", None)
        if rev is not None:
            grid.fields["axes_reversed"] = rev
        it = _I(repo)
        try:
            got = it.run(f, [_arr(shape), info, te])
            res = ("shape", got.fields["shape"]) if got.label != "reshaped" else ("reshape", got.fields["shape"])
            if got.label == "reshaped" and got.fields.get("order") != order:
                res = (f"reshape in order {got.fields.get('order')!r} instead of the grid's order {order!r}", got.fields["shape"])
        except Raised as r:
            res = ("raise", r.name)
        except Undecided as u:
            raise AnalysisError(f"_check_input_shape: undecidable {u}") from u
        except AnalysisError:
            if rev is None:
                continue  # the symbolic order is outside the vocabulary of this body: the concrete layouts decide
            raise
        if res != want:
            worst = worst or (f"data of shape {shape} ({te} time entr{'y' if te == 1 else 'ies'}) on a grid with data shape (3, 2), order {order!r}"
                              f"{'' if rev is None else ', axes_reversed=' + str(rev)}: {res}, expected {want}")
    grid.fields["order"] = Sym("ORDER")
    grid.fields.pop("axes_reversed", None)
    sink.check(worst is None, "R18", "shape-table:grid", f,
               ok=f"{len(table)} shapes: leading time axis added, flat data reshaped in the grid's order, mismatches refused", bad=worst or "")
    # data without a grid
    g = repo.func("src/finam/data/tools/core.py", "_check_input_shape_no_grid")
    nog = Obj(label="nogrid")
    nog.fields.update(dim=1, data_shape=(-1,))
    info2 = Obj(label="info", fields={"grid": nog})
    table2 = [((4,), 1, ("shape", (1, 4))), ((1, 4), 1, ("shape", (1, 4))), ((2, 4), 2, ("shape", (2, 4))), ((2, 4), 1, ("raise", "FinamDataError")),
              ((1, 2, 2), 1, ("raise", "FinamDataError")), ((), 1, ("raise", "FinamDataError"))]
    worst = None
    for shape, te, want in table2:
        it = _I(repo)
        try:
            got = it.run(g, [_arr(shape), info2, te])
            res = ("shape", got.fields["shape"])
        except Raised as r:
            res = ("raise", r.name)
        except (Undecided, AnalysisError) as exc:
            sink.unknown("R18", "shape-table:no-grid", g, f"outside vocabulary: {exc}")
            return
        if res != want:
            worst = worst or f"grid-less 1-D data of shape {shape}, {te} time entries: {res}, expected {want}"
    sink.check(worst is None, "R18", "shape-table:no-grid", g, ok="grid-less data gets a leading time axis; rank and time-entry mismatches are refused", bad=worst or "")
    # grid-less data with a partly or completely prescribed shape: -1 entries are free, the others are binding
    worst, ncase = None, 0
    for gshape, rows in (
        ((3, -1), [((3, 5), ("shape", (1, 3, 5))), ((1, 3, 5), ("shape", (1, 3, 5))), ((4, 5), ("raise", "FinamDataError")), ((1, 4, 5), ("raise", "FinamDataError")),
                   ((3,), ("raise", "FinamDataError"))]),
        ((-1, 2), [((7, 2), ("shape", (1, 7, 2))), ((7, 3), ("raise", "FinamDataError"))]),
        ((3, 2), [((3, 2), ("shape", (1, 3, 2))), ((1, 3, 2), ("shape", (1, 3, 2))), ((2, 3), ("raise", "FinamDataError")), ((1, 2, 3), ("raise", "FinamDataError"))]),
        ((-1, -1), [((4, 9), ("shape", (1, 4, 9)))]),
    ):
        nog2 = Obj(label="nogrid")
        nog2.fields.update(dim=len(gshape), data_shape=gshape)
        info3 = Obj(label="info", fields={"grid": nog2})
        for shape, want in rows:
            ncase += 1
            it = _I(repo)
            try:
                got = it.run(g, [_arr(shape), info3, 1])
                res = ("shape", got.fields["shape"])
            except Raised as r:
                res = ("raise", r.name)
            except (Undecided, AnalysisError) as exc:
                sink.unknown("R18", "shape-table:no-grid-prescribed", g, f"outside vocabulary: {exc}")
                return
            if res != want:
                worst = worst or f"grid-less data of shape {shape} against a prescribed data shape {gshape}: {res}, expected {want}"
    sink.check(worst is None, "R18", "shape-table:no-grid-prescribed", g,
               ok=f"{ncase} shapes: prescribed extents are binding, -1 extents are free", bad=worst or "")


# =========================================================================== R19s: strip_time removes the time axis and nothing else
def r19s_strip_time(repo, sink):
    """strip_time(data, grid): data with a leading time axis of one entry loses exactly that axis - every other axis stays,
    also those of length one (a vector of length 1, a 1 x n array, a grid with a single layer); data without a time axis is
    returned as it is; several time entries are refused.  Decided on arrays with concrete small shapes (shapes are
    configuration) through the public function, whatever helpers it uses."""
    f = repo.func("src/finam/data/tools/core.py", "strip_time")

    class _I(_ShapeInterp):
        def isinstance(self, v, klass, node):
            from ..loader import Class
            if isinstance(klass, Class) and isinstance(v, Obj) and v.label == "grid":
                return klass.name in ("Grid", "GridBase")
            if isinstance(klass, Class) and isinstance(v, Obj) and v.label == "nogrid":
                return klass.name in ("NoGrid", "GridBase")
            return super().isinstance(v, klass, node)

        def get_attr(self, obj, attr, node, mod):
            if isinstance(obj, _Arr) and attr == "shape":
                return tuple(obj.fields["shape"])
            if isinstance(obj, _Arr) and attr in ("squeeze", "reshape", "__getitem__"):
                return Sym("arr_method", Ref(obj), attr)
            return super().get_attr(obj, attr, node, mod)

        def _squeeze(self, a, axis, node):
            shp = list(a.fields["shape"])
            if axis is None:
                out = [n for n in shp if n != 1]
            else:
                axes = [axis] if isinstance(axis, int) else list(axis)
                if any(shp[x] != 1 for x in axes):
                    self.on_raise(Sym("exc", "ValueError", "cannot select an axis to squeeze out which has size not equal to one"), node)
                out = [n for i, n in enumerate(shp) if i not in [x % len(shp) for x in axes]]
            return _arr(out, "view")

        def call_hook(self, fv, args, kwargs, node, mod):
            if isinstance(fv, Sym) and fv.op == "arr_method" and fv.args[1] == "squeeze":
                return self._squeeze(fv.args[0].obj, kwargs.get("axis", args[0] if args else None), node)
            return super().call_hook(fv, args, kwargs, node, mod)

        def ext_call(self, name, args, kwargs, node):
            short = name.split(".")[-1]
            if short == "squeeze" and args and isinstance(args[0], _Arr):
                return self._squeeze(args[0], kwargs.get("axis", args[1] if len(args) > 1 else None), node)
            if short in ("take",) and args and isinstance(args[0], _Arr) and args[1] == 0 and kwargs.get("axis", args[2] if len(args) > 2 else None) == 0:
                return _arr(args[0].fields["shape"][1:], "view")
            if short in ("ndim",) and args and isinstance(args[0], _Arr):
                return len(args[0].fields["shape"])
            if short in ("shape",) and args and isinstance(args[0], _Arr):
                return tuple(args[0].fields["shape"])
            return super().ext_call(name, args, kwargs, node)

        def get_item(self, c, k, node):
            if isinstance(c, _Arr):
                ks = list(k) if isinstance(k, tuple) else [k]
                shp = list(c.fields["shape"])
                if ks and ks[0] == 0 and all(x is Ellipsis or (isinstance(x, Sym) and x.op in ("ellipsis",)) or (isinstance(x, Sym) and x.op == "slice" and x.args == (None, None, None)) for x in ks[1:]):
                    return _arr(shp[1:], "view")
                raise AnalysisError(f"array subscript {k!r}")
            return super().get_item(c, k, node)

        def e_Slice(self, e, env, mod):
            return Sym("slice", *(self.eval(x, env, mod) if x is not None else None for x in (e.lower, e.upper, e.step)))

        def e_Constant(self, e, env, mod):
            return e.value

    def grid(shape):
        g = Obj(cls=None, label="grid", markers={"Grid"})
        g.fields.update(data_shape=tuple(shape), data_size=1, dim=len(shape))
        return g

    def nogrid(dim):
        g = Obj(cls=None, label="nogrid", markers={"NoGrid"})
        g.fields.update(dim=dim, data_shape=(-1,) * dim)
        return g

    table = [  # (data shape, grid, expected)
        ((1, 3, 2), grid((3, 2)), ("shape", (3, 2))), ((3, 2), grid((3, 2)), ("same", (3, 2))), ((2, 3, 2), grid((3, 2)), ("raise", "FinamDataError")),
        ((1, 1, 4), grid((1, 4)), ("shape", (1, 4))), ((1, 4, 1), grid((4, 1)), ("shape", (4, 1))), ((1, 3, 2, 1), grid((3, 2, 1)), ("shape", (3, 2, 1))),
        ((1, 1, 1), grid((1, 1)), ("shape", (1, 1))), ((1, 4), grid((1, 4)), ("same", (1, 4))),
        ((1, 1), nogrid(1), ("shape", (1,))), ((1, 5), nogrid(1), ("shape", (5,))), ((1,), nogrid(1), ("same", (1,))), ((1, 1, 6), nogrid(2), ("shape", (1, 6))),
        ((1,), nogrid(0), ("shape", ())), ((), nogrid(0), ("same", ())), ((3, 1), nogrid(1), ("raise", "FinamDataError")),
    ]
    worst = None
    for shp, g, want in table:
        data = _arr(shp)
        try:
            got = _I(repo).run(f, [data, g])
            res = ("same", tuple(shp)) if got is data else ("shape", tuple(got.fields["shape"])) if isinstance(got, _Arr) else ("value", got)
        except Raised as r:
            res = ("raise", r.name)
        except (Undecided, AnalysisError) as exc:
            sink.unknown("R19s", "strip_time-table", f, f"outside vocabulary: {exc}")
            return
        ok = res == want or (want[0] == "same" and res == ("shape", want[1]))
        if not ok:
            worst = worst or (f"data of shape {shp} on {'a grid with data shape ' + str(g.fields['data_shape']) if g.label == 'grid' else 'grid-less data of rank ' + str(g.fields['dim'])}: "
                              f"strip_time gives {res}, expected {want} - only the leading time axis goes, axes of length one of the payload stay")
    sink.check(worst is None, "R19s", "strip_time-table", f,
               ok=f"{len(table)} shapes: exactly the leading time axis of one entry is removed; payload axes of length one stay; several entries are refused", bad=worst or "")
