"""Semantic replacements for the former text checks of R32: gen_points, order_map, the casts
between grid classes and the validation of data locations are decided by abstract runs in which
numpy calls become uninterpreted terms with arguments bound to their documented names."""
from __future__ import annotations

import ast
import itertools

from ..absbase import FinamInterp, Logger, Ref
from ..interp import Closure, Obj, Raised, Sym, Undecided
from ..loader import AnalysisError, Class

_NP_SIG = {
    "ravel": ["a", "order"], "reshape": ["a", "shape", "order"], "logical_not": ["x"], "invert": ["x"],
    "empty_like": ["prototype", "dtype"], "prod": ["a", "axis"], "compress": ["a", "condition", "axis"],
    "arange": ["start"], "flip": ["m", "axis"], "transpose": ["a", "axes"],
}
_NP_ALIAS = {"newshape": "shape"}
_NP_DROP = {"dtype"}  # never changes which element goes where


def np_term(short, args, kwargs, method=False):
    """Uninterpreted numpy term with arguments bound to the documented parameter names, so that
    `np.ravel(m, order=o)`, `np.ravel(m, o)` and `m.ravel(o)` are one and the same term."""
    kwargs = {k: v for k, v in kwargs.items() if k not in _NP_DROP or short == "empty_like"}
    sig = _NP_SIG.get(short)
    if sig is None:
        return Sym(short, *args, *[Sym("kw", k, v) for k, v in sorted(kwargs.items())])
    args = list(args)
    if short == "compress" and not method and len(args) >= 2:
        args[0], args[1] = args[1], args[0]  # np.compress(condition, a) == a.compress(condition)
    bound = dict(zip(sig, args))
    extra = list(args[len(sig):])
    for k, v in kwargs.items():
        bound[_NP_ALIAS.get(k, k)] = v
    if short == "compress" and not method and "condition" in kwargs and "a" in kwargs:
        bound["a"], bound["condition"] = kwargs["a"], kwargs["condition"]
    if short == "reshape" and method and len(args) > 2 and "shape" in bound and not isinstance(bound["shape"], (tuple, list)):
        # a.reshape(n0, n1) == a.reshape((n0, n1))
        pass
    out = []
    for name in sig:
        if name in bound:
            out.append(bound.pop(name))
        else:
            break
    rest = [Sym("kw", k, v) for k, v in sorted(bound.items(), key=lambda kv: kv[0])]
    return Sym(short, *out, *extra, *rest)


# ------------------------------------------------------------------------------ gen_points
class _Points(Obj):
    pass


class _PtsInterp(FinamInterp):
    """Index-grid typing for gen_points: `np.mgrid[0:a, 0:b, 0:c]` / `np.indices(shape)` yield
    one index grid per axis; flattening one with order O gives flat(k, O); an axis indexed by it
    gives take(axis, flat(k, O)); assigning to points[:, j] records column j."""

    def e_Slice(self, e, env, mod):
        return Sym("slice", *(self.eval(x, env, mod) if x is not None else None for x in (e.lower, e.upper, e.step)))

    def sym_len(self, v, node):
        if isinstance(v, Sym) and v.op == "pad_axis":
            return 1  # np.zeros(1): the padding axis has one entry
        return Sym("len", v)

    def binop(self, op, left, right, node):
        ints = (int,)
        if isinstance(op, ast.Mult) and (isinstance(left, Sym) or isinstance(right, Sym)) and all(isinstance(x, (Sym,) + ints) and not isinstance(x, bool) for x in (left, right)):
            if left == 1:
                return right
            if right == 1:
                return left
            return Sym("mul", left, right)
        if isinstance(op, ast.FloorDiv) and (isinstance(left, Sym) or isinstance(right, Sym)):
            return left if right == 1 else Sym("floordiv", left, right)
        return super().binop(op, left, right, node)

    def ext_call(self, name, args, kwargs, node):
        short = name.split(".")[-1]
        if short == "full":
            n, val = args[0], args[1]
            if isinstance(n, int):
                return [val] * n
        if short in ("zeros", "ones") and args and args[0] == 1:
            return Sym("pad_axis")
        if short == "empty":
            return _Points(label="points", fields={"cols": {}, "shape": args[0]})
        if short == "indices":
            shp = args[0]
            return tuple(Sym("idgrid", k, tuple(shp)) for k in range(len(shp)))
        if short == "arange" and len(args) == 1:
            return Sym("arange", args[0])
        if short == "prod" and args and isinstance(args[0], (tuple, list)):
            return Sym("prod", tuple(args[0]))
        if short == "unravel_index" and len(args) >= 2 and isinstance(args[0], Sym) and args[0].op == "posflat":
            # positions numbered in order `of`, listed in order `to`, decoded as multi-indices of a block numbered in `dec`
            shp, of, to = args[0].args
            dec = kwargs.get("order", args[2] if len(args) > 2 else "C")
            if tuple(args[1]) != tuple(shp) or dec != of:
                raise AnalysisError("flat positions decoded for another block / numbering than they were made for")
            return tuple(Sym("flat", k, tuple(shp), to) for k in range(len(shp)))
        if short == "broadcast_to" and len(args) == 2 and isinstance(args[0], Sym) and args[0].op == "axisvec":
            k, n = args[0].args
            shp = tuple(args[1])
            if k is None:
                return Sym("idgrid", None, shp)
            if k >= len(shp) or shp[k] != n:
                raise AnalysisError("index vector broadcast to a block whose extent along its axis differs")
            return Sym("idgrid", k, shp)  # the index along axis k for every point of the block
        if short in ("asarray", "array", "atleast_1d", "ascontiguousarray"):
            return args[0]
        if short == "repeat" and len(args) == 2:
            return Sym("repeat", args[0], args[1])
        if short == "tile" and len(args) == 2:
            return Sym("tile", args[0], args[1])
        return super().ext_call(name, args, kwargs, node)

    def get_attr(self, obj, attr, node, mod):
        if isinstance(obj, Sym) and obj.op == "ext" and attr == "mgrid":
            return Sym("mgrid")
        if isinstance(obj, Sym) and obj.op == "idgrid" and attr in ("reshape", "ravel", "flatten"):
            return Sym("method", obj, attr)
        if isinstance(obj, Sym) and obj.op == "arange" and attr == "reshape":
            return Sym("method", obj, "reshape")
        if isinstance(obj, Sym) and obj.op == "posgrid" and attr in ("reshape", "ravel", "flatten"):
            return Sym("method", obj, attr)
        if isinstance(obj, Sym) and obj.op in ("ax", "rev", "pad_axis") and attr == "size":
            return Sym("len", obj)
        return super().get_attr(obj, attr, node, mod)

    def call_hook(self, fv, args, kwargs, node, mod):
        if isinstance(fv, Sym) and fv.op == "method" and fv.args[0].op == "arange":
            # np.arange(n).reshape((1, .., n, .., 1)): the index vector lying along one axis
            n = fv.args[0].args[0]
            shp = list(args[0]) if args and isinstance(args[0], (list, tuple)) else list(args)
            if isinstance(n, Sym) and n.op == "prod" and tuple(n.args[0]) == tuple(shp):
                # all positions of the block, numbered in the given order
                return Sym("posgrid", tuple(shp), kwargs.get("order", args[1] if len(args) > 1 and isinstance(args[0], (list, tuple)) else "C"))
            along = [i for i, x in enumerate(shp) if x != 1]
            if len(along) == 1 and shp[along[0]] == n:
                return Sym("axisvec", along[0], n)
            if not along and n == 1:
                return Sym("axisvec", None, 1)  # the single index 0 of a one-point (padding) axis: the same along any axis
            raise AnalysisError("index vector reshaped to something else than a vector along one axis")
        if isinstance(fv, Sym) and fv.op == "method" and fv.args[0].op == "posgrid":
            g, m = fv.args
            if m == "reshape" and (args[0] if args else kwargs.get("shape", kwargs.get("newshape"))) not in (-1, (-1,), [-1]):
                raise AnalysisError("position grid reshaped to something else than a flat array")
            order = kwargs.get("order", (args[1] if len(args) > 1 else "C") if m == "reshape" else (args[0] if args else "C"))
            return Sym("posflat", g.args[0], g.args[1], order)
        if isinstance(fv, Sym) and fv.op == "method":
            g, m = fv.args
            if m == "reshape":
                shp = args[0] if args else kwargs.get("shape", kwargs.get("newshape"))
                if shp not in (-1, (-1,), [-1]):
                    raise AnalysisError("index grid reshaped to something else than a flat array")
                order = kwargs.get("order", args[1] if len(args) > 1 else "C")
            else:
                order = kwargs.get("order", args[0] if args else "C")
            return Sym("flat", g.args[0], g.args[1], order)
        return super().call_hook(fv, args, kwargs, node, mod)

    def sym_item(self, c, k, node):
        if isinstance(c, Sym) and c.op == "mgrid":
            ks = k if isinstance(k, tuple) else (k,)
            ext = []
            for s_ in ks:
                if not (isinstance(s_, Sym) and s_.op == "slice" and s_.args[0] in (0, None) and s_.args[2] is None):
                    raise AnalysisError("np.mgrid with a start / step")
                ext.append(s_.args[1])
            return tuple(Sym("idgrid", i, tuple(ext)) for i in range(len(ext)))
        if isinstance(c, Sym) and c.op in ("ax", "pad_axis", "rev"):
            if isinstance(k, Sym) and k.op == "slice" and k.args == (None, None, -1):
                return c.args[0] if c.op == "rev" else Sym("rev", c)
            if isinstance(k, Sym) and k.op == "flat":
                return Sym("take", c, k)
        if isinstance(c, _Points):
            if isinstance(k, tuple) and len(k) == 2 and isinstance(k[0], Sym) and k[0].op == "slice" and k[0].args == (None, None, None):
                if isinstance(k[1], Sym) and k[1].op == "slice" and k[1].args[0] in (None, 0) and k[1].args[2] is None and isinstance(k[1].args[1], int):
                    return ("points", tuple(c.fields["cols"].get(j) for j in range(k[1].args[1])))
        return super().sym_item(c, k, node)

    def get_item(self, c, k, node):
        if isinstance(c, (_Points,)) or (isinstance(c, Sym) and c.op in ("mgrid", "ax", "pad_axis", "rev")):
            return self.sym_item(c, k, node)
        return super().get_item(c, k, node)

    def set_item(self, c, k, v, node):
        if isinstance(c, _Points):
            if isinstance(k, tuple) and len(k) == 2 and isinstance(k[0], Sym) and k[0].op == "slice" and k[0].args == (None, None, None) and isinstance(k[1], int):
                c.fields["cols"][k[1]] = v
                return
            raise AnalysisError(f"store into the point table at {k!r}")
        super().set_item(c, k, v, node)

def _stride_form(col, want_axis, k, dim, order, axes, inc):
    """tile(repeat(axis, inner), outer): inner must be the number of points of all faster-running axes, outer that of all slower ones."""
    from ..absbase import poly_of, same_value
    rep, outer = col.args
    axis, inner = rep.args
    if axis != want_axis:
        return f"repeats {axis!r}, must be {want_axis!r}"

    def ln(j):
        return Sym("len", axes[j] if inc[j] else Sym("rev", axes[j]))

    def norm(v):
        # len(rev(ax)) == len(ax)
        if isinstance(v, Sym):
            if v.op == "len" and isinstance(v.args[0], Sym) and v.args[0].op == "rev":
                return Sym("len", v.args[0].args[0])
            return Sym(v.op, *[norm(a) for a in v.args])
        return v

    def prod(js):
        out = 1
        for j in js:
            out = Sym("mul", out, norm(ln(j))) if out != 1 else norm(ln(j))
        return out

    faster = [j for j in range(dim) if (j < k if order == "F" else j > k)]
    slower = [j for j in range(dim) if (j > k if order == "F" else j < k)]
    try:
        if not same_value(norm(inner), prod(faster)):
            return (f"each entry of axis {k} is repeated {inner!r} times; in order {order} it must be repeated once per point of the faster-running axes "
                    f"{faster} ({prod(faster)!r} times): points are duplicated / missing for grids with more than one entry on those axes")
        o = norm(outer)
        if isinstance(o, Sym) and o.op == "floordiv":
            total = prod(range(dim))
            denom = Sym("mul", norm(inner), norm(ln(k))) if inner != 1 else norm(ln(k))
            if not (same_value(o.args[0], total) and same_value(o.args[1], denom)):
                return f"the repeated axis is tiled {outer!r} times, must be the number of points of the slower-running axes {slower}"
        elif not same_value(o, prod(slower)):
            return f"the repeated axis is tiled {outer!r} times, must be {prod(slower)!r}"
    except Exception as exc:  # pylint: disable=broad-except
        raise AnalysisError(f"stride form outside vocabulary: {exc}") from exc
    return None


def r32p_gen_points(repo, sink):
    gp = repo.func("src/finam/data/grid_tools.py", "gen_points")
    worst, cases = None, 0
    for dim in (1, 2, 3):
        for order in ("C", "F"):
            for inc in itertools.product((True, False), repeat=dim):
                cases += 1
                axes = [Sym("ax", k) for k in range(dim)]
                it = _PtsInterp(repo)
                try:
                    got = it.run(gp, [list(axes)], {"order": order, "axes_increase": list(inc)})
                except Raised as r:
                    worst = worst or f"{dim}D, order {order}, axes_increase {list(inc)}: raises {r.name}"
                    continue
                except (AnalysisError, Undecided) as exc:
                    sink.unknown("R32", "gen_points", gp, f"gen_points outside vocabulary: {exc}")
                    return
                if not (isinstance(got, tuple) and got and got[0] == "points" and len(got[1]) == dim):
                    sink.unknown("R32", "gen_points", gp, f"gen_points returns {got!r}: not the first `dim` columns of the point table")
                    return
                for k, col in enumerate(got[1]):
                    want_axis = axes[k] if inc[k] else Sym("rev", axes[k])
                    if isinstance(col, Sym) and col.op == "tile" and isinstance(col.args[0], Sym) and col.args[0].op == "repeat":
                        # stride form: tile(repeat(axis, inner), outer) puts axis[(p // inner) % n] at flat position p
                        why_s = _stride_form(col, want_axis, k, dim, order, axes, inc)
                        if why_s:
                            worst = worst or f"{dim}D, order {order}, axes_increase {list(inc)}: coordinate column {k}: {why_s}"
                        continue
                    ok = isinstance(col, Sym) and col.op == "take" and col.args[0] == want_axis
                    fl = col.args[1] if ok else None
                    ok = ok and fl.args[0] == k and fl.args[2] == order
                    if ok:
                        ext = fl.args[1]
                        ok = len(ext) >= dim and all(ext[j] == Sym("len", axes[j] if inc[j] else Sym("rev", axes[j])) or ext[j] == Sym("len", axes[j]) for j in range(dim))
                    if not ok:
                        worst = worst or (f"{dim}D, order {order}, axes_increase {list(inc)}: coordinate column {k} is {col!r}; it must take "
                                          f"{'the reversed ' if not inc[k] else ''}axis {k} at the index grid of axis {k} flattened in order {order}")
    sink.check(worst is None, "R32", "gen_points", gp,
               ok=f"{cases} cases (1-3D, C/F, all axis directions): column k = axis k (reversed if decreasing) at index grid k, flattened in the requested order",
               bad=worst or "")


# ------------------------------------------------------------------------------- order_map
class _NpInterp(FinamInterp):
    def ext_call(self, name, args, kwargs, node):
        short = name.split(".")[-1]
        if short in _NP_SIG:
            return np_term(short, list(args), kwargs)
        return super().ext_call(name, args, kwargs, node)

    def get_attr(self, obj, attr, node, mod):
        if isinstance(obj, Sym) and obj.op in _NP_SIG and attr in _NP_SIG:
            return Sym("method", obj, attr)
        return super().get_attr(obj, attr, node, mod)

    def call_hook(self, fv, args, kwargs, node, mod):
        if isinstance(fv, Sym) and fv.op == "method":
            return np_term(fv.args[1], [fv.args[0]] + list(args), kwargs, method=True)
        return super().call_hook(fv, args, kwargs, node, mod)


def _canon_flat(v):
    """x.ravel(o) == x.flatten(o) == x.reshape(-1, order=o): one term."""
    if isinstance(v, Sym):
        args = [_canon_flat(a) for a in v.args]
        if v.op in ("ravel", "flatten") and 1 <= len(args) <= 2:
            o = args[1] if len(args) > 1 else "C"
            if isinstance(o, Sym) and o.op == "kw" and o.args[0] == "order":
                o = o.args[1]
            return Sym("reshape", args[0], -1, o)
        if v.op == "reshape" and len(args) == 3 and args[1] in ((-1,), [-1]):
            return Sym("reshape", args[0], -1, args[2])
        return Sym(v.op, *args)
    return v


class _CArr:
    """Exact small integer array (shape + entries in C order): index arithmetic on concrete block shapes."""

    def __init__(self, shape, data):
        self.shape, self.data = tuple(shape), list(data)

    @staticmethod
    def _indices(shape, order):
        idx = list(itertools.product(*[range(n) for n in (shape if order == "C" else shape[::-1])]))
        return idx if order == "C" else [i[::-1] for i in idx]

    def _pos(self, idx):
        p = 0
        for n, i in zip(self.shape, idx):
            p = p * n + i
        return p

    def seq(self, order="C"):
        return [self.data[self._pos(i)] for i in self._indices(self.shape, order)]

    def reshape(self, shape, order="C"):
        shape = [shape] if isinstance(shape, int) else list(shape)
        size = len(self.data)
        if -1 in shape:
            known = 1
            for n in shape:
                known *= n if n != -1 else 1
            shape[shape.index(-1)] = size // known if known else 0
        total = 1
        for n in shape:
            total *= n
        if total != size:
            raise ValueError("cannot reshape")
        out = _CArr(shape, [None] * size)
        for v, i in zip(self.seq(order), self._indices(tuple(shape), order)):
            out.data[out._pos(i)] = v
        return out

    def transpose(self, axes=None):
        axes = tuple(axes) if axes is not None else tuple(reversed(range(len(self.shape))))
        shp = tuple(self.shape[a] for a in axes)
        out = _CArr(shp, [None] * len(self.data))
        for i in self._indices(shp, "C"):
            src = [0] * len(axes)
            for d, a in enumerate(axes):
                src[a] = i[d]
            out.data[out._pos(i)] = self.data[self._pos(src)]
        return out

    def swapaxes(self, a, b):
        axes = list(range(len(self.shape)))
        axes[a], axes[b] = axes[b], axes[a]
        return self.transpose(axes)


class _ConcreteNp(FinamInterp):
    def ext_call(self, name, args, kwargs, node):
        short = name.split(".")[-1]
        a0 = args[0] if args else None
        try:
            if short == "prod" and isinstance(a0, (tuple, list)):
                out = 1
                for n in a0:
                    out *= n
                return out
            if short == "arange" and isinstance(a0, int) and len(args) == 1:
                return _CArr((a0,), range(a0))
            if isinstance(a0, _CArr):
                if short == "reshape":
                    return a0.reshape(kwargs.get("newshape", kwargs.get("shape", args[1] if len(args) > 1 else None)), kwargs.get("order", args[2] if len(args) > 2 else "C"))
                if short in ("ravel", "flatten"):
                    return a0.reshape(-1, kwargs.get("order", args[1] if len(args) > 1 else "C"))
                if short == "swapaxes":
                    return a0.swapaxes(args[1], args[2])
                if short == "transpose":
                    return a0.transpose(kwargs.get("axes", args[1] if len(args) > 1 else None))
                if short in ("asarray", "array", "ascontiguousarray", "copy"):
                    return _CArr(a0.shape, a0.data)
        except (ValueError, IndexError, TypeError) as exc:
            self.on_raise(Sym("exc", type(exc).__name__, str(exc)), node)
        return super().ext_call(name, args, kwargs, node)

    def get_attr(self, obj, attr, node, mod):
        if isinstance(obj, _CArr):
            if attr in ("reshape", "ravel", "flatten", "transpose", "swapaxes", "copy", "astype"):
                return Sym("cmethod", Ref(obj), attr)
            if attr == "T":
                return obj.transpose()
            if attr == "shape":
                return obj.shape
            if attr == "size":
                return len(obj.data)
            if attr == "ndim":
                return len(obj.shape)
        return super().get_attr(obj, attr, node, mod)

    def call_hook(self, fv, args, kwargs, node, mod):
        if isinstance(fv, Sym) and fv.op == "cmethod":
            a, m = fv.args[0].obj, fv.args[1]
            try:
                if m == "reshape":
                    shp = args[0] if len(args) == 1 else tuple(args)
                    return a.reshape(shp, kwargs.get("order", "C"))
                if m in ("ravel", "flatten"):
                    return a.reshape(-1, kwargs.get("order", args[0] if args else "C"))
                if m == "transpose":
                    return a.transpose(args[0] if len(args) == 1 and isinstance(args[0], (tuple, list)) else (args or None))
                if m == "swapaxes":
                    return a.swapaxes(args[0], args[1])
                return _CArr(a.shape, a.data)
            except (ValueError, IndexError, TypeError) as exc:
                self.on_raise(Sym("exc", type(exc).__name__, str(exc)), node)
        return super().call_hook(fv, args, kwargs, node, mod)


def r32p_order_map(repo, sink):
    om = repo.func("src/finam/data/grid_tools.py", "order_map")
    shape, of, to = Sym("shape"), Sym("of"), Sym("to")
    want = Sym("reshape", Sym("reshape", Sym("arange", Sym("prod", shape)), shape, of), -1, to)
    try:
        got = _canon_flat(_NpInterp(repo).run(om, [shape], {"of": of, "to": to}))
    except (AnalysisError, Undecided, Raised):
        got = None
    if got == want:
        sink.ok("R32", "order_map-definition", om, "order_map = arange(size).reshape(shape, of).reshape(-1, to)")
        return
    # another formulation than the defining one: decided by exact index arithmetic on concrete small blocks (1-3 axes, flat
    # axes, every pair of orders) - shapes are configuration, not data
    worst, n = None, 0
    for shp in ((4,), (1,), (2, 3), (3, 2), (1, 3), (3, 1), (2, 3, 4), (4, 3, 2), (2, 2, 2), (1, 3, 2), (3, 1, 2), (3, 2, 1)):
        for o_of, o_to in itertools.product(("C", "F"), repeat=2):
            size = 1
            for k in shp:
                size *= k
            ref = _CArr((size,), range(size)).reshape(shp, o_of).reshape(-1, o_to).data
            try:
                res = _ConcreteNp(repo).run(om, [tuple(shp)], {"of": o_of, "to": o_to})
            except Raised as r:
                worst = worst or f"order_map({shp}, of={o_of!r}, to={o_to!r}) raises {r.name}"
                continue
            except (AnalysisError, Undecided) as exc:
                sink.unknown("R32", "order_map-definition", om, f"order_map outside vocabulary: {exc}")
                return
            n += 1
            if not isinstance(res, _CArr) or list(res.data) != ref or len(res.shape) != 1:
                worst = worst or (f"order_map({shp}, of={o_of!r}, to={o_to!r}) gives {getattr(res, 'data', res)!r}, the positions numbered in order `of` and "
                                  f"listed in order `to` are {ref!r}")
    sink.check(worst is None, "R32", "order_map-definition", om,
               ok=f"order_map equals arange(size).reshape(shape, of).reshape(-1, to) on {n} concrete blocks (1-3 axes, flat axes, all order pairs)",
               bad=worst or "")


# ------------------------------------------------------------------------------------ casts
class _CastInterp(FinamInterp):
    def __init__(self, repo):
        super().__init__(repo)
        self.built = []

    def construct(self, cls, args, kwargs, node):
        if self.repo.is_subclass(cls, "GridBase") or cls.name.endswith("Grid"):
            init = self.repo.resolve(cls, "__init__", "method")
            names = init.params if init is not None else []
            bound = dict(zip(names, args))
            bound.update(kwargs)
            o = Obj(cls=None, label="built:" + cls.name)
            try:
                # private state as the constructors would leave it (spec objects, memo slots): the cast may patch it afterwards
                from ..absbase import seed_from_init
                seed_from_init(self, cls, o, dict(bound))
            except (AnalysisError, Undecided, Raised):
                pass
            o.fields.update(bound)
            self.built.append((cls.name, bound, o))
            return o
        return super().construct(cls, args, kwargs, node)

    def get_attr(self, obj, attr, node, mod):
        # private state of the freshly built grid that the partial evaluation could not seed (it depends on real coordinates):
        # an opaque term - the obligation is about the constructor arguments, what the cast patches afterwards is its own business
        if isinstance(obj, Obj) and obj.label.startswith("built:") and attr not in obj.fields and attr.startswith("_"):
            return Sym("built-state", attr)
        return super().get_attr(obj, attr, node, mod)

    def ext_call(self, name, args, kwargs, node):
        if name.split(".")[-1] == "replace" and args and isinstance(args[0], Sym) and args[0].op in ("built-state", "replaced"):
            return Sym("replaced", args[0], tuple(sorted((k, repr(v)) for k, v in kwargs.items())))
        return super().ext_call(name, args, kwargs, node)


def r32p_casts(repo, sink):
    for cname, meth, target, fields in (
        ("RectilinearGrid", "to_unstructured", "UnstructuredGrid",
         ("points", "cells", "cell_types", "data_location", "order", "axes_attributes", "axes_names", "crs")),
        ("UniformGrid", "to_rectilinear", "RectilinearGrid",
         ("axes", "data_location", "order", "axes_reversed", "axes_attributes", "axes_names", "crs")),
    ):
        if not repo.has_cls(cname):
            continue
        c = repo.cls(cname)
        m = repo.resolve(c, meth, "method")
        if m is None:
            continue
        me = Obj(cls=c, label=cname)
        from ..absbase import seed_from_init
        seed_from_init(FinamInterp(repo), c, me, {})  # private state as the constructors leave it (memo slots and the like)
        for f in fields + ("axes_increase", "dims", "spacing", "origin", "name"):
            me.fields[f] = Sym("field", f)
        it = _CastInterp(repo)
        try:
            it.run(m, [], self_obj=me)
        except (AnalysisError, Undecided, Raised) as exc:
            sink.unknown("R32", f"cast:{cname}.{meth}", m, f"cast outside vocabulary: {exc}")
            continue
        hits = [b for n, b, _o in it.built if n == target]
        if len(hits) != 1:
            sink.unknown("R32", f"cast:{cname}.{meth}", m, f"{meth} constructs {[n for n, _b, _o in it.built]} instead of one {target}")
            continue
        missing = [f for f in fields if hits[0].get(f) != Sym("field", f)]
        sink.check(not missing, "R32", f"cast:{cname}.{meth}", m, ok="cast forwards every layout field",
                   bad=f"{cname}.{meth} does not forward {missing} (got {[hits[0].get(f) for f in missing]!r})")


# -------------------------------------------------------------------------- data locations
def _loc_base():
    from .link import _Tolerant
    return _Tolerant


class _LocInterp(_loc_base()):
    """Only the validation of the location is watched: whatever else the setter keeps up to date (cached shapes, sizes) works on
    opaque terms - the grid stand-in has no axes."""

    def call_hook(self, fv, args, kwargs, node, mod):
        if isinstance(fv, Closure) and getattr(fv.func, "name", "") == "get_enum_value":
            return args[0]
        return super().call_hook(fv, args, kwargs, node, mod)

    def builtin(self, name, args, kwargs, node):
        try:
            return super().builtin(name, args, kwargs, node)
        except AnalysisError:
            return Sym("opaque", name)


def r32p_locations(repo, sink):
    n = 0
    good, bad = Sym("enum", "Location", "CELLS"), Sym("enum", "Location", "NONE")
    seen_setters = set()
    for k in repo.subclasses(repo.cls("Grid")):
        st = repo.resolve(k, "data_location", "setter")
        if st is None or repo.is_abstract(k) or any("abstractmethod" in ast.unparse(d) for d in st.node.decorator_list):
            continue
        # one representative class per distinct setter / override structure
        key = (st.qualname, tuple(m.qualname for m in (repo.resolve(k, h, "method") for h in sorted({x.func.attr for x in ast.walk(st.node)
               if isinstance(x, ast.Call) and isinstance(x.func, ast.Attribute) and isinstance(x.func.value, ast.Name) and x.func.value.id == "self"})) if m is not None))
        if key in seen_setters and k.name not in ("RectilinearGrid", "UnstructuredGrid"):
            continue
        seen_setters.add(key)
        gt = repo.resolve(k, "data_location", "getter")
        n += 1
        why = None
        for loc, valid in ((good, True), (bad, False)):
            from ..absbase import seed_from_init
            it = _LocInterp(repo)
            me = Obj(cls=k, label=k.name)
            seed_from_init(it, k, me, {})
            me.fields.update(valid_locations=(good, Sym("enum", "Location", "POINTS")), name=k.name, logger=Logger(label="logger"))
            try:
                it.run(st, [loc], self_obj=me)
                raised = None
            except Raised as r:
                raised = r.name
            except (AnalysisError, Undecided) as exc:
                sink.unknown("R32", f"location-checked:{k.name}", st, f"setter outside vocabulary: {exc}")
                why = "skip"
                break
            if valid and raised:
                why = f"a valid location raises {raised}"
            elif not valid and raised != "ValueError":
                why = f"a location outside valid_locations {'is accepted' if raised is None else 'raises ' + raised}"
            elif valid and gt is not None:
                try:
                    back = it.run(gt, [], self_obj=me)
                except (AnalysisError, Undecided, Raised):
                    back = loc
                if back != loc:
                    why = f"after setting {loc!r} the grid reports {back!r}"
                else:
                    # a refused change leaves the grid as it was
                    try:
                        it.run(st, [bad], self_obj=me)
                        why = "a location outside valid_locations is accepted"
                    except Raised:
                        try:
                            after = it.run(gt, [], self_obj=me)
                        except (AnalysisError, Undecided, Raised):
                            after = loc
                        if after != loc:
                            why = (f"setting a location outside valid_locations raises, but the grid then reports {after!r} instead of {loc!r}: "
                                   "the refused change sticks")
        if why == "skip":
            continue
        sink.check(why is None, "R32", f"location-checked:{k.name}", st, ok="data_location is validated against valid_locations",
                   bad=f"{k.name}.data_location setter: {why}")
    sink.floor("R32", "data_location setters", n, 2)


# ---------------------------------------------------------------- copies and cached shapes
def r32p_copy_independent(repo, sink):
    """A grid and its (shallow) copy answer data_shape / data_size for their own data location,
    whatever was read or set on the other one in between."""
    from ..absbase import seed_from_init
    from .grid import _SibInterp

    class _I(_SibInterp):
        def call_hook(self, fv, args, kwargs, node, mod):
            if isinstance(fv, Closure) and getattr(fv.func, "name", "") == "get_enum_value":
                return args[0]
            return super().call_hook(fv, args, kwargs, node, mod)

    cells, points = Sym("enum", "Location", "CELLS"), Sym("enum", "Location", "POINTS")
    n = 0
    for c in repo.subclasses(repo.cls("StructuredGrid")):
        st = repo.resolve(c, "data_location", "setter")
        gs, gz = repo.resolve(c, "data_shape", "getter"), repo.resolve(c, "data_size", "getter")
        if st is None or gs is None or repo.is_abstract(c) or c.name != "RectilinearGrid":
            continue
        n += 1
        dims = (5, 4)
        want = {"CELLS": ((4, 3), 12), "POINTS": ((5, 4), 20)}

        def fresh():
            it = _I(repo)
            g = Obj(cls=c, label="grid")
            seed_from_init(it, c, g, {})
            g.fields.update(dims=dims, dim=2, axes_reversed=False, axes_increase=[True, True], order="C", name="g",
                            valid_locations=(cells, points), axes=[Sym("ax", 0), Sym("ax", 1)])
            it.run(st, [cells], self_obj=g)
            return it, g

        def read(it, g):
            return (tuple(it.run(gs, [], self_obj=g)), it.run(gz, [], self_obj=g))

        worst = None
        try:
            # one object: a shape read before the location changes must not survive the change
            it, g = fresh()
            before = read(it, g)
            it.run(st, [points], self_obj=g)
            after = read(it, g)
            if before != want["CELLS"] or after != want["POINTS"]:
                worst = worst or (f"one grid, shape/size read as {before} for CELLS, then switched to POINTS: it reports {after}, must be {want['POINTS']} "
                                  "(the cached shape is stale)")
            for scenario in ("copy-then-change-copy", "copy-then-change-original", "read-copy-change-copy-read-original"):
                it, g = fresh()
                if scenario != "copy-then-change-original":
                    read(it, g)
                cp = Obj(cls=c, label="copy")
                cp.fields.update(g.fields)  # shallow copy: attribute values are shared objects
                changed, other = (g, cp) if scenario == "copy-then-change-original" else (cp, g)
                it.run(st, [points], self_obj=changed)
                first = read(it, changed)
                second = read(it, other)
                third = read(it, changed)
                if first != want["POINTS"] or third != want["POINTS"]:
                    worst = worst or f"{scenario}: the grid switched to POINTS reports shape/size {first} then {third}, must be {want['POINTS']}"
                elif second != want["CELLS"]:
                    worst = worst or (f"{scenario}: after the {'original' if changed is g else 'copy'} was switched to POINTS, the "
                                      f"{'copy' if changed is g else 'original'} (still CELLS) reports shape/size {second}, must be {want['CELLS']}: "
                                      "cached shapes are shared between a grid and its shallow copy")
        except Raised as r:
            worst = worst or f"raises {r.name}"
        except (AnalysisError, Undecided) as exc:
            sink.unknown("R31", f"copy-independent:{c.name}", gs, f"outside vocabulary: {exc}")
            continue
        sink.check(worst is None, "R31", f"copy-independent:{c.name}", gs,
                   ok="a grid and its shallow copy report data_shape / data_size of their own data location", bad=worst or "")
    sink.floor("R31", "structured grid classes with cached shapes", n, 1)


# ------------------------------------------------------------------------------ cell axes on concrete small grids
class _NumInterp(FinamInterp):
    """Exact arithmetic on small concrete coordinate vectors (Vec of Fractions / ints): enough numpy for the per-axis
    formulas of the grid classes.  Values are exactly representable, so equality is decidable."""

    def binop(self, op, left, right, node):
        from fractions import Fraction
        from ..absbase import Vec
        num = (int, float, Fraction)
        fn = {ast.Add: lambda a, b: a + b, ast.Sub: lambda a, b: a - b, ast.Mult: lambda a, b: a * b,
              ast.Div: lambda a, b: Fraction(a) / Fraction(b)}.get(type(op))
        if fn is not None:
            lv, rv = isinstance(left, Vec), isinstance(right, Vec)
            if lv and rv:
                if len(left) != len(right):
                    self.on_raise(Sym("exc", "ValueError", "operands could not be broadcast together"), node)
                return Vec(fn(_fr(a), _fr(b)) for a, b in zip(left, right))
            if lv and isinstance(right, num) and not isinstance(right, bool):
                return Vec(fn(_fr(a), _fr(right)) for a in left)
            if rv and isinstance(left, num) and not isinstance(left, bool):
                return Vec(fn(_fr(left), _fr(b)) for b in right)
            if isinstance(left, num) and isinstance(right, num) and not isinstance(left, bool) and not isinstance(right, bool) and isinstance(op, ast.Div):
                return _fr(left) / _fr(right)
        return super().binop(op, left, right, node)

    def ext_call(self, name, args, kwargs, node):
        from ..absbase import Vec
        short = name.split(".")[-1]
        if short == "arange" and len(args) == 1 and isinstance(args[0], int):
            return Vec(range(args[0]))
        if short in ("asarray", "array", "atleast_1d", "ascontiguousarray") and args and isinstance(args[0], (Vec, tuple, list)):
            return Vec(args[0])
        if short == "linspace" and len(args) >= 3 and all(isinstance(a, (int, float)) for a in args[:2]) and isinstance(args[2], int) and args[2] > 1:
            from fractions import Fraction
            a, b, n = _fr(args[0]), _fr(args[1]), args[2]
            return Vec(a + (b - a) * Fraction(i, n - 1) for i in range(n))
        if short == "diff" and args and isinstance(args[0], Vec):
            return Vec(b - a for a, b in zip(args[0][:-1], args[0][1:]))
        if short == "mean" and args and isinstance(args[0], Vec):
            from fractions import Fraction
            return sum(args[0]) / Fraction(len(args[0]))
        if short in ("maximum", "minimum") and len(args) == 2 and all(isinstance(a, int) for a in args):
            return max(args) if short == "maximum" else min(args)
        return super().ext_call(name, args, kwargs, node)

    def builtin(self, name, args, kwargs, node):
        if name in ("max", "min") and args and all(isinstance(a, int) and not isinstance(a, bool) for a in args):
            return max(args) if name == "max" else min(args)
        return super().builtin(name, args, kwargs, node)


def _fr(x):
    from fractions import Fraction
    return x if isinstance(x, Fraction) else Fraction(x)


def r32x_cell_axes(repo, sink):
    """cell_axes of every structured grid class (the base definition and every override), evaluated exactly on small concrete
    grids including axes with a single node: the cell axis holds the midpoints of neighbouring nodes, and the node itself on
    a flat axis (a one-point axis has one 'cell' located at its node: points, cells and cell centres stay consistent)."""
    from fractions import Fraction
    from ..absbase import Vec
    sg = repo.cls("StructuredGrid")
    configs = [  # dims, spacing, origin
        ((3, 2), (2, 5), (1, 10)), ((3, 1), (2, 5), (1, 10)), ((1, 4), (3, 1), (0, -2)), ((2, 3, 1), (1, 2, 4), (0, 0, 7)), ((1,), (2,), (5,)), ((4,), (3,), (-1,)),
    ]
    classes = [k for k in [sg] + list(repo.subclasses(sg)) if repo.resolve(k, "cell_axes", "getter") is not None]
    seen, n = set(), 0
    for k in classes:
        g = repo.resolve(k, "cell_axes", "getter")
        if g.qualname in seen:
            continue
        seen.add(g.qualname)
        worst = None
        try:
            for dims, spacing, origin in configs:
                axes = [Vec(Fraction(o) + Fraction(s) * i for i in range(d)) for d, s, o in zip(dims, spacing, origin)]
                o = Obj(cls=k, label=k.name)
                o.fields.update(axes=axes, dims=dims, spacing=spacing, origin=origin, dim=len(dims), axes_increase=[True] * len(dims))
                got = _NumInterp(repo).run(g, [], self_obj=o)
                want = [Vec((a + b) / 2 for a, b in zip(ax[:-1], ax[1:])) if len(ax) > 1 else ax for ax in axes]
                n += 1
                if [tuple(_fr(x) for x in v) if isinstance(v, (tuple, list)) else v for v in got] != [tuple(v) for v in want]:
                    worst = worst or (f"dims {dims}, spacing {spacing}, origin {origin}: cell_axes is {[list(map(str, v)) if isinstance(v, (tuple, list)) else v for v in got]}, "
                                      f"the midpoints of neighbouring nodes (the node itself on a one-point axis) are {[list(map(str, v)) for v in want]}")
        except (AnalysisError, Undecided, Raised) as exc:
            sink.unknown("R32", f"cell-axes:{g.qualname}", g, f"outside vocabulary: {exc}")
            continue
        sink.check(worst is None, "R32", f"cell-axes:{g.qualname}", g, ok="cell axes are the node midpoints; a flat axis keeps its node", bad=worst or "")
    sink.floor("R32", "cell_axes evaluations", n, 6)


def r32p(repo, sink):
    for fn in (r32p_gen_points, r32p_order_map, r32p_casts, r32p_locations, r32p_copy_independent, r32x_cell_axes, r32o_axes_owned):
        try:
            fn(repo, sink)
        except (AnalysisError, Undecided) as exc:
            sink.unknown("R32", f"analysis:{fn.__name__}", None, f"outside the rule's vocabulary: {exc}")


# =========================================================================== R32o: the axes a grid is built from stay the caller's
class _MArr(Obj):
    """A float64 coordinate array with identity: `vals` are its (exactly representable) numbers, `caller` says whose it is."""


def _marr(vals, caller=True, label="axis array"):
    o = _MArr(label=label)
    o.fields.update(vals=list(vals), caller=caller, written=False)
    return o


def _has_marr(v):
    if isinstance(v, _MArr):
        return True
    if isinstance(v, (list, tuple)):
        return any(_has_marr(x) for x in v)
    return False


class _OwnTolerant(_NumInterp):
    """What the constructor computes besides handling the given arrays (cached shapes, sizes, names) runs on opaque terms."""

    def ext_call(self, name, args, kwargs, node):
        try:
            return super().ext_call(name, args, kwargs, node)
        except AnalysisError:
            if _has_marr(list(args) + list(kwargs.values())):
                raise
            return Sym("opaque", name)

    def binop(self, op, left, right, node):
        try:
            return super().binop(op, left, right, node)
        except AnalysisError:
            if _has_marr([left, right]):
                raise
            return Sym("opaque", "binop")

    def builtin(self, name, args, kwargs, node):
        try:
            return super().builtin(name, args, kwargs, node)
        except AnalysisError:
            if _has_marr(list(args)):
                raise
            return Sym("opaque", name)

    def iterate(self, v, node):
        if isinstance(v, Sym) and v.op == "opaque":
            return []
        return super().iterate(v, node)

    def sym_compare(self, op, left, right, node):
        try:
            return super().sym_compare(op, left, right, node)
        except Undecided:
            if any(isinstance(x, Sym) and x.op == "opaque" for x in (left, right)):
                return False
            raise


class _OwnInterp(_OwnTolerant):
    """numpy's aliasing rules for the calls a constructor makes on the arrays it is given: asarray / atleast_1d /
    ascontiguousarray of a float64 array ARE that array, array / copy / astype are new ones; `a[:] = ...` writes into the array."""

    def e_Slice(self, e, env, mod):
        return Sym("slice", *(self.eval(x, env, mod) if x is not None else None for x in (e.lower, e.upper, e.step)))

    def _vec(self, v):
        from ..absbase import Vec
        return Vec(v.fields["vals"]) if isinstance(v, _MArr) else v

    def get_item(self, c, k, node):
        from ..absbase import Vec
        if isinstance(c, (_MArr, Vec)) and isinstance(k, Sym) and k.op == "slice":
            vals = list(self._vec(c))
            if not all(x is None or (isinstance(x, int) and not isinstance(x, bool)) for x in k.args):
                raise AnalysisError("symbolic slice of a coordinate array")
            return Vec(vals[slice(*k.args)])  # (a view; the constructors under analysis write through whole-array slices only)
        if isinstance(c, _MArr) and isinstance(k, int) and not isinstance(k, bool):
            return c.fields["vals"][k]
        if isinstance(c, list) and isinstance(k, Sym) and k.op == "slice":
            return c[slice(*k.args)]
        return super().get_item(c, k, node)

    def set_item(self, c, k, v, node):
        from ..absbase import Vec
        if isinstance(c, _MArr):
            if isinstance(k, Sym) and k.op == "slice" and k.args == (None, None, None) or k is Ellipsis or (isinstance(k, Sym) and k.op == "ext" and k.args[0] == "Ellipsis"):
                new = list(self._vec(v)) if isinstance(v, (Vec, _MArr, list, tuple)) else [v] * len(c.fields["vals"])
                if len(new) != len(c.fields["vals"]):
                    self.on_raise(Sym("exc", "ValueError", "could not broadcast"), node)
                if new != c.fields["vals"]:
                    c.fields["written"] = True
                c.fields["vals"] = new
                return None
            if isinstance(k, int) and not isinstance(k, bool):
                if c.fields["vals"][k] != v:
                    c.fields["written"] = True
                c.fields["vals"][k] = v
                return None
            raise AnalysisError(f"store into a coordinate array at {k!r}")
        return super().set_item(c, k, v, node)

    def iterate(self, v, node):
        if isinstance(v, _MArr):
            return list(v.fields["vals"])
        return super().iterate(v, node)

    def binop(self, op, left, right, node):
        return super().binop(op, self._vec(left), self._vec(right), node)

    def compare(self, op, left, right, node):
        from ..absbase import Vec
        left, right = self._vec(left), self._vec(right)
        if isinstance(left, Vec) and isinstance(right, (int, float)) and not isinstance(right, bool):
            fn = {ast.Gt: lambda a: a > right, ast.GtE: lambda a: a >= right, ast.Lt: lambda a: a < right, ast.LtE: lambda a: a <= right,
                  ast.Eq: lambda a: a == right, ast.NotEq: lambda a: a != right}.get(type(op))
            if fn is not None:
                return Vec(bool(fn(a)) for a in left)
        return super().compare(op, left, right, node)

    def unaryop(self, op, v, node):
        from ..absbase import Vec
        if isinstance(op, ast.Invert) and isinstance(v, (Vec, list)) and all(isinstance(x, bool) for x in v):
            return Vec(not x for x in v)
        return super().unaryop(op, v, node)

    def ext_isinstance(self, v, name, node):
        if name == "type" and isinstance(v, Class):
            return True
        return super().ext_isinstance(v, name, node)

    def builtin(self, name, args, kwargs, node):
        if name == "len" and args and isinstance(args[0], _MArr):
            return len(args[0].fields["vals"])
        return super().builtin(name, args, kwargs, node)

    def get_attr(self, obj, attr, node, mod):
        from ..absbase import Vec
        if isinstance(obj, _MArr) and attr in ("copy", "astype"):
            return Sym("arr_method", Ref(obj), attr)
        if isinstance(obj, (_MArr, Vec)) and attr == "size":
            return len(self._vec(obj))
        if isinstance(obj, (_MArr, Vec)) and attr == "ndim":
            return 1
        if isinstance(obj, (_MArr, Vec)) and attr == "shape":
            return (len(self._vec(obj)),)
        if isinstance(obj, _MArr) and attr == "dtype":
            return Sym("ext", "float")
        return super().get_attr(obj, attr, node, mod)

    def call_hook(self, fv, args, kwargs, node, mod):
        if isinstance(fv, Closure) and getattr(fv.func, "name", "") == "get_enum_value":
            return args[0]  # (enum conversion of the data location: not part of this obligation)
        if isinstance(fv, Sym) and fv.op == "arr_method":
            src = fv.args[0].obj
            if fv.args[1] == "astype" and kwargs.get("copy") is False:
                return src
            return _marr(src.fields["vals"], caller=False, label="copy")
        return super().call_hook(fv, args, kwargs, node, mod)

    def ext_call(self, name, args, kwargs, node):
        from ..absbase import Vec
        short = name.split(".")[-1]
        a0 = args[0] if args else None
        if isinstance(a0, _MArr):
            if short in ("asarray", "atleast_1d", "ascontiguousarray", "asanyarray", "ravel", "squeeze"):
                return a0  # float64 in, float64 asked for: numpy hands back the very same array
            if short == "array":
                return a0 if kwargs.get("copy") is False else _marr(a0.fields["vals"], caller=False, label="copy")
            if short in ("copy", "deepcopy", "sort", "flip", "flipud", "float64"):
                vals = list(a0.fields["vals"])
                if short == "sort":
                    vals = sorted(vals)
                if short in ("flip", "flipud"):
                    vals = vals[::-1]
                return _marr(vals, caller=False, label="copy")
            if short == "diff":
                return super().ext_call(name, [Vec(a0.fields["vals"])] + list(args[1:]), kwargs, node)
        if short in ("all", "any") and isinstance(a0, (Vec, list, tuple)) and all(isinstance(x, bool) for x in a0):
            return all(a0) if short == "all" else any(a0)
        if short in ("empty", "zeros", "ones") and isinstance(a0, int):
            return [None if short == "empty" else (short == "ones")] * a0
        if short == "flatnonzero" and isinstance(a0, (Vec, list, tuple)):
            return Vec(i for i, x in enumerate(a0) if x)
        return super().ext_call(name, args, kwargs, node)


def r32o_axes_owned(repo, sink):
    """A rectilinear grid built from coordinate arrays of the caller: the directions it reports are those of the arrays as given
    - also when one array serves two axes, or two grids are built from the same arrays - and the caller's arrays keep their
    numbers (numpy's asarray of a float64 array is that array: making it increasing in place rewrites the caller's data, and
    the next look at it finds an increasing axis)."""
    if not repo.has_cls("RectilinearGrid"):
        raise AnalysisError("RectilinearGrid not found")
    c = repo.cls("RectilinearGrid")
    init = repo.resolve(c, "__init__", "method")

    def build(it, axes):
        o = Obj(cls=c, label="RectilinearGrid")
        it.run(init, [], {"axes": list(axes)}, self_obj=o)
        inc = it.attr(o, "axes_increase", None, None)
        return o, [bool(x) for x in (inc if isinstance(inc, (list, tuple)) else it.iterate(inc, None))]

    scenarios = []
    try:
        # one decreasing array given for both axes
        it = _OwnInterp(repo)
        a = _marr([3, 2, 1])
        _g, inc = build(it, [a, a])
        scenarios.append(("one decreasing array for both axes", inc, [False, False], [a], [[3, 2, 1]]))
        # two grids from the same arrays
        it = _OwnInterp(repo)
        x, y = _marr([0, 1, 2]), _marr([5, 3, 1])
        _g1, inc1 = build(it, [x, y])
        _g2, inc2 = build(it, [x, y])
        scenarios.append(("the first of two grids built from the same arrays (x increasing, y decreasing)", inc1, [True, False], [x, y], [[0, 1, 2], [5, 3, 1]]))
        scenarios.append(("the second of two grids built from the same arrays (x increasing, y decreasing)", inc2, [True, False], [x, y], [[0, 1, 2], [5, 3, 1]]))
    except Raised as r:
        sink.bad("R32", "axes-owned:RectilinearGrid", init, f"building a rectilinear grid from the caller's float arrays raises {r.name}")
        return
    except (Undecided, AnalysisError) as exc:
        sink.unknown("R32", "axes-owned:RectilinearGrid", init, f"constructor outside vocabulary: {exc}")
        return
    worst = None
    for name, inc, want, arrays, given in scenarios:
        if inc != want:
            worst = worst or (f"{name}: axes_increase is {inc}, the arrays as given say {want} - a decreasing axis that is taken for an increasing one "
                              "pairs every value with the mirrored coordinate")
    for name, _inc, _want, arrays, given in scenarios:
        for arr, g in zip(arrays, given):
            if arr.fields["vals"] != g:
                worst = worst or (f"{name}: the caller's array {g} reads {arr.fields['vals']} after the construction (the constructor works on the array "
                                  "it was given, not on a copy): whoever uses it next - a second grid, the model itself - sees other coordinates")
    sink.check(worst is None, "R32", "axes-owned:RectilinearGrid", init,
               ok="the grid works on its own copies of the given coordinate arrays: directions as given, also for shared arrays and repeated use",
               bad=worst or "")
