"""Buffer rules by decision-table extraction over order types:
R27 INTERP (time interpolation adapters), R26 BUFFER (notify path), R21 EVICT (history
eviction of outputs and adapters), R17n (nearest selection of Output), R04 CMP
(range refusals), R39 STATIC.

Abstract state: a buffer with n entries at symbolic times T0 < T1 < ... and a request
time q placed at one of the finitely many positions relative to the T_i and their
midpoints.  Payloads are atoms P_i (packed) / V_i (unpacked).  No numbers flow."""
from __future__ import annotations

import ast

from ..absbase import FinamInterp, Logger, Order, Ref, poly_of
from ..astq import U, call_name, calls, cmp_norm, fn_walk, self_attr
from ..cfg import CFG
from ..interp import Closure, Obj, Raised, Sym, Undecided
from ..loader import AnalysisError
from ..poly import NotPolynomial
from .exchange import ExchMixin


def T(i):
    return Sym("T", i)


def P(i, kind="ram"):
    return Sym("P", i, kind)


def V(i):
    return Sym("V", i)


Q = Sym("q")


def positions(n):
    """All positions of a request relative to n buffer times and their midpoints."""
    pos = [("below",)]
    for i in range(n):
        pos.append(("eq", i))
        if i < n - 1:
            pos += [("lo", i), ("mid", i), ("hi", i)]
    pos.append(("above",))
    return pos


def rank_of(pos, n):
    k = pos[0]
    if k == "below":
        return -1
    if k == "above":
        return 4 * (n - 1) + 1
    i = pos[1]
    return 4 * i + {"eq": 0, "lo": 1, "mid": 2, "hi": 3}[k]


def make_order(n, named_requests):
    """named_requests: {Sym: position}."""
    o = Order()
    for i in range(n):
        o.name(T(i), f"T{i}", 4 * i)
        if i < n - 1:
            o.name(Sym("div", Sym("add", T(i), T(i + 1)), 2), f"mid{i}", 4 * i + 2)
    for s, pos in named_requests.items():
        o.name(s, repr(s), rank_of(pos, n))
    return o


class BufInterp(FinamInterp):
    def __init__(self, repo, order):
        super().__init__(repo, order)
        self.pulls = []

    def call_hook(self, fv, args, kwargs, node, mod):
        if isinstance(fv, Closure):
            name = getattr(fv.func, "name", "")
            if name == "_unpack" and fv.self_obj is not None:
                a = args[0]
                if isinstance(a, Sym) and a.op == "P":
                    return V(a.args[0])
                return Sym("unpack", a)
            if name == "_pack" and fv.self_obj is not None:
                return Sym("packed", args[0])
            if name == "pull_data" and fv.self_obj is not None:
                self.pulls.append((args[0], args[1] if len(args) > 1 else kwargs.get("target")))
                return Sym("pulled", args[0])
            if name == "strip_time":
                return Sym("stripped", args[0])
            if name == "is_quantified":
                return isinstance(args[0], Sym) and args[0].op == "qty"
            if name == "prepare":
                return Sym("prepared", args[0], kwargs.get("time_entries", args[2] if len(args) > 2 else 1))
            if name == "notify_targets":
                self.effects.append(("notify", args[0]))
                return None
        return super().call_hook(fv, args, kwargs, node, mod)

    def ext_call(self, name, args, kwargs, node):
        if name in ("np.stack", "numpy.stack"):
            return Sym("stack", tuple(args[0]))
        if name in ("copy.copy", "copy.deepcopy"):
            return args[0]  # a copy of a value is that value
        if name in ("np.copy", "numpy.copy", "np.array", "numpy.array", "np.asarray", "numpy.asarray", "np.asanyarray") and args and isinstance(args[0], Sym):
            # numpy's converters return a bare ndarray for a quantity / masked array (subok=False): units and mask are gone
            return Sym("bare_ndarray", args[0])
        if name.split(".")[-1] in ("array_equal", "allclose", "isclose", "array_equiv", "may_share_memory", "shares_memory"):
            return self.decide(Sym(name.split(".")[-1], *args), node)  # value dependent: both outcomes are explored
        return super().ext_call(name, args, kwargs, node)

    def ext_isinstance(self, v, name, node):
        if name == "str":
            return isinstance(v, str) or (isinstance(v, Sym) and (v.op in ("file", "fstr", "str") or (v.op == "P" and v.args[1] == "file")))
        return super().ext_isinstance(v, name, node)

    def get_attr(self, obj, attr, node, mod):
        if isinstance(obj, Sym) and obj.op == "P" and attr == "nbytes":
            return Sym("nbytes", obj.args[0])
        if isinstance(obj, Sym) and obj.op in ("P", "stripped", "pulled", "packed", "unpack", "V") and attr in ("magnitude", "units", "data", "mask"):
            return Sym("attr", obj, attr)
        if isinstance(obj, Sym) and obj.op == "q" and attr == "total_seconds":
            return Sym("ext", "total_seconds")
        return super().get_attr(obj, attr, node, mod)

    def binop(self, op, left, right, node):
        return super().binop(op, left, right, node)


PREV = "<previous-pull time>"  # role key in `extra`: translated to the attribute the class really uses


def prev_attr(repo):
    """Name of the attribute in which the integration adapters keep the time of the previous
    pull: discovered behaviourally - it is the only field of a freshly constructed adapter
    that the first notification sets to the notification time."""
    cached = getattr(repo, "_prev_attr", None)
    if cached is not None:
        return cached
    c = repo.cls("SumOverTime")
    o = _adapter_obj(repo, "SumOverTime", 0)
    before = dict(o.fields)
    tn = Sym("tn")
    order = Order()
    order.name(tn, "tn", 5)
    it = BufInterp(repo, order)
    f = repo.resolve(c, "_source_updated", "method")
    it.run(f, [tn], self_obj=o)
    names = [k for k, v in o.fields.items() if v == tn and before.get(k) is None]
    if len(names) != 1:
        raise AnalysisError(f"cannot identify the previous-pull attribute of the integration adapters (candidates {names})")
    repo._prev_attr = names[0]
    return names[0]


def _adapter_obj(repo, cname, n, kinds=None, extra=None, ctor=None):
    """Abstract adapter: attributes seeded from the real constructors (with `ctor` as constructor
    arguments), then the scenario's buffer and the stubs of the link ends."""
    from ..absbase import seed_from_init
    c = repo.cls(cname)
    o = Obj(cls=c, label=cname)
    seed_from_init(FinamInterp(repo), c, o, ctor or {})
    kinds = kinds or ["ram"] * n
    o.fields.update(
        data=[(T(i), P(i, kinds[i])) for i in range(n)],
        logger=Logger(label="logger"),
    )
    from ..absbase import set_backed
    set_backed(repo, o, "name", cname)
    set_backed(repo, o, "in_info", Obj(label="in_info", fields={"grid": Sym("grid"), "units": Sym("u_in")}))
    set_backed(repo, o, "info", Obj(label="out_info", fields={"grid": Sym("grid"), "units": Sym("u_out")}))
    # the buffer entries in the form the class itself stores them (a plain pair, a named tuple, ...): produced by the real
    # notification path, then given the scenario's times / payload stand-ins
    shaped = _entries_as_stored(repo, c, o, n, kinds)
    if shaped is not None:
        o.fields["data"] = shaped
    from .spill2 import role_set
    role_set(o, _total_attr(repo, cname), Sym("mem0"))
    if extra:
        extra = dict(extra)
        if PREV in extra:
            o.fields[prev_attr(repo)] = extra.pop(PREV)
        o.fields.update(extra)
    return o


def _entries_as_stored(repo, c, o, n, kinds):
    from ..interp import NamedTup
    cache = repo.__dict__.setdefault("_entry_shape", {})
    if c.name not in cache:
        shape = None
        try:
            probe = _fresh(o)
            probe.fields["data"] = []
            it = BufInterp(repo, Order())
            tn = Sym("tn")
            it.order.name(tn, "tn", 1)
            f = repo.resolve(c, "source_updated", "method")
            if f is not None:
                it.run(f, [tn], self_obj=probe)
                got = probe.fields.get("data") or []
                if len(got) == 1 and isinstance(got[0], tuple):
                    e = got[0]
                    ti = [i for i, x in enumerate(e) if x == tn]
                    pi = [i for i, x in enumerate(e) if isinstance(x, Sym) and x.op == "packed"]
                    if len(ti) == 1 and len(pi) == 1 and len(e) == 2:
                        shape = (ti[0], pi[0], e if isinstance(e, NamedTup) else None)
        except (Raised, Undecided, AnalysisError, KeyError, TypeError):
            shape = None
        cache[c.name] = shape
    shape = cache[c.name]
    if shape is None or (shape[0], shape[1]) == (0, 1) and shape[2] is None:
        return None  # plain (time, payload) pairs: what the scenario has already
    ti, pi, proto = shape
    out = []
    for i in range(n):
        vals = [None, None]
        vals[ti], vals[pi] = T(i), P(i, kinds[i])
        out.append(NamedTup(proto.klass, proto.names, vals) if proto is not None else tuple(vals))
    return out


def _poly_eq(a, b):
    from ..absbase import same_value
    return same_value(a, b)


def _expected_remaining(n, rank_limit):
    """Entries kept by 'drop the oldest while the second oldest is not newer than limit'."""
    j = 0
    while n - j > 1 and 4 * (j + 1) <= rank_limit:
        j += 1
    return list(range(j, n))


# =========================================================================== R27
def _expect_interp(kind, n, pos, decs):
    """Expected result of the interpolation adapters; returns ('raise', name) |
    ('val', value) | ('fork', cond_pred, val_true, val_false)."""
    k = pos[0]
    if k in ("below", "above"):
        return ("raise", "FinamTimeError")
    i = pos[1]
    if k == "eq":
        return ("val", V(i))
    lo, hi = i, i + 1
    if kind == "NextTime":
        return ("val", V(hi))
    if kind == "PreviousTime":
        return ("val", V(lo))
    dt = Sym("div", Sym("sub", Q, T(lo)), Sym("sub", T(hi), T(lo)))
    if kind == "LinearTime":
        return ("val", Sym("add", V(lo), Sym("mul", dt, Sym("sub", V(hi), V(lo)))))
    if kind == "StepTime":
        return ("step", dt, V(lo), V(hi))
    raise AnalysisError(kind)


def r27_interp(repo, sink, tier="quick"):
    kinds = ["NextTime", "PreviousTime", "LinearTime", "StepTime"]
    missing = [k for k in kinds if not repo.has_cls(k)]
    if missing:
        raise AnalysisError(f"interpolation adapters missing: {missing}")
    nmax = 3 if tier == "quick" else 5
    total = 0
    for kind in kinds:
        c = repo.cls(kind)
        f = repo.resolve(c, "_get_data", "method")
        worst = None
        cases = 0
        for n in range(1, nmax + 1):
            for pos in positions(n):
                if pos[0] in ("lo", "hi"):
                    pass
                order = make_order(n, {Q: pos})
                it = BufInterp(repo, order)
                o = _adapter_obj(repo, kind, n, extra={"step": Sym("step")})
                try:
                    paths = it.run_all(lambda: (it.run(f, [Q, None], self_obj=_fresh(o)),))
                except Undecided as u:
                    raise AnalysisError(f"{kind}._get_data: undecidable condition {u}") from u
                cases += 1
                exp = _expect_interp(kind, n, pos, None)
                for decs, (okind, val) in paths:
                    why = _judge_interp(kind, exp, decs, okind, val, n, pos)
                    if why and worst is None:
                        worst = f"buffer of {n}, request {_pos_txt(pos)}: {why}"
        total += cases
        sink.check(worst is None, "R27", f"interp:{kind}", f,
                   ok=f"{cases} order types (buffer sizes 1..{nmax} x request positions): result equals the definition, "
                      "out-of-range requests raise FinamTimeError",
                   bad=worst or "", order_types=cases)
    sink.note("R27.order_types", total)
    sink.floor("R27", "order types", total, 4 * 20)
    # sequences: an earlier request (with the discarding it triggers, and whatever the adapter remembers about it) never
    # changes the answer to a later one - the second of two non-decreasing requests gets what a fresh adapter holding the
    # full history would deliver
    Q1 = Sym("q1")
    n = 4
    pairs = 0
    for kind in kinds:
        c = repo.cls(kind)
        f = repo.resolve(c, "_get_data", "method")
        worst = None
        inside = [p for p in positions(n) if p[0] not in ("below", "above")]
        for p1 in inside:
            for p2 in inside:
                if rank_of(p2, n) < rank_of(p1, n):
                    continue
                order = make_order(n, {Q1: p1, Q: p2})
                if p1 == p2:
                    order.rank[repr(Q1)] = order.rank[repr(Q)]
                it = BufInterp(repo, order)
                o = _adapter_obj(repo, kind, n, extra={"step": Sym("step")})

                def thunk(it=it, o=o, f=f):
                    ob = _fresh(o)
                    it.run(f, [Q1, None], self_obj=ob)
                    return (it.run(f, [Q, None], self_obj=ob),)

                try:
                    paths = it.run_all(thunk)
                except Undecided as u:
                    raise AnalysisError(f"{kind}._get_data (two requests): undecidable condition {u}") from u
                pairs += 1
                exp = _expect_interp(kind, n, p2, None)
                for decs, (okind, val) in paths:
                    why = _judge_interp(kind, exp, decs, okind, val, n, p2)
                    if why and worst is None:
                        worst = f"buffer of {n}, request {_pos_txt(p1)} followed by request {_pos_txt(p2)}: the second request {why}"
        sink.check(worst is None, "R27", f"interp-after-earlier-request:{kind}", f,
                   ok="the answer to a request does not depend on earlier (not later) requests and the discarding they caused",
                   bad=worst or "")
    sink.note("R27.request_pairs", pairs)


class _AffineError(Exception):
    pass


def _affine_type(v):
    """Affine-space typing: payloads V(i) are points, their differences vectors, time
    ratios and numbers scalars.  point + vector -> point; scalar * vector -> vector;
    scalar * point and point + point are ill-typed."""
    if isinstance(v, (int, float)):
        return "S"
    if isinstance(v, Sym):
        if v.op == "V":
            return "P"
        if v.op in ("add", "sub"):
            a, b = _affine_type(v.args[0]), _affine_type(v.args[1])
            if v.op == "add":
                if {a, b} == {"P", "V"}:
                    return "P"
                if a == b == "V":
                    return "V"
                if a == b == "S":
                    return "S"
                raise _AffineError(f"sum of a {_tn(a)} and a {_tn(b)}")
            if a == b == "P":
                return "V"
            if a == "P" and b == "V":
                return "P"
            if a == b and a in ("V", "S"):
                return a
            raise _AffineError(f"difference of a {_tn(a)} and a {_tn(b)}")
        if v.op == "mul":
            a, b = _affine_type(v.args[0]), _affine_type(v.args[1])
            if "P" in (a, b):
                raise _AffineError("a factor is multiplied with a payload itself, not with a difference of payloads")
            if a == b == "S":
                return "S"
            if {a, b} == {"S", "V"}:
                return "V"
            raise _AffineError(f"product of a {_tn(a)} and a {_tn(b)}")
        if v.op == "div":
            a, b = _affine_type(v.args[0]), _affine_type(v.args[1])
            if b != "S" or a == "P":
                raise _AffineError(f"quotient of a {_tn(a)} by a {_tn(b)}")
            return a
        if v.op == "neg":
            return _affine_type(v.args[0])
        return "S"
    return "S"


def _tn(t):
    return {"P": "payload", "V": "payload difference", "S": "scalar"}[t]


def _fresh(o):
    n = Obj(cls=o.cls, label=o.label, markers=o.markers)
    n.fields = {k: (list(v) if isinstance(v, list) else dict(v) if isinstance(v, dict)
                    else _fresh(v) if isinstance(v, Obj) and v.cls is not None and v.cls.name.startswith("_") else v) for k, v in o.fields.items()}
    return n


def _role_get(o, path):
    from .spill2 import role_get
    return role_get(o, path)


def _pos_txt(pos):
    k = pos[0]
    if k == "below":
        return "before the oldest entry"
    if k == "above":
        return "after the newest entry"
    if k == "eq":
        return f"exactly at entry {pos[1]}"
    return f"between entries {pos[1]} and {pos[1] + 1} ({'first half' if k == 'lo' else 'midpoint' if k == 'mid' else 'second half'})"


def _judge_interp(kind, exp, decs, okind, val, n, pos):
    if okind == "raise":
        if exp[0] == "raise":
            return None if val.name == exp[1] else f"raises {val.name}, expected {exp[1]}"
        return f"raises {val.name} ({val.exc!r}), expected a value"
    val = val[0]
    if exp[0] == "raise":
        return f"returns {val!r} for a request outside the buffered range (extrapolation), expected {exp[1]}"
    if exp[0] == "val":
        if not _poly_eq(val, exp[1]):
            return f"returns {val!r}, definition gives {exp[1]!r}"
        if kind == "LinearTime":
            try:
                t = _affine_type(val)
                if t != "P":
                    return f"the interpolant has affine type {t}, a payload (point) is required"
            except _AffineError as exc:
                return (f"the interpolant is computed as {val!r}: {exc}. Payloads may carry offset units (degC): only differences of "
                        "payloads may be scaled, otherwise pint raises OffsetUnitCalculusError although the formula is algebraically equal")
        return None
    if exp[0] == "step":
        _, dt, vlo, vhi = exp
        d = None
        for c, v in decs:
            if isinstance(c, Sym) and c.op in ("lt", "le") and len(c.args) == 2:
                a, b = c.args
                if b == Sym("step") and _poly_eq(a, dt):
                    # dt < step  / dt <= step
                    d = ("dt", c.op, v)
                elif a == Sym("step") and _poly_eq(b, dt):
                    d = ("step", c.op, v)
        tol = [c for c, v in decs if isinstance(c, Sym) and c.op in ("isclose", "allclose") and v]
        if tol:
            return (f"a tolerance test ({tol[0]!r}) takes part in choosing the value: positions that differ from the step position by less than the "
                    "tolerance are served the other side's value; the step interpolant is defined by the exact comparison dt > step")
        if d is None:
            return f"returns {val!r} without comparing the relative position with the step"
        side, op, v = d
        # new value iff dt > step  <=>  step < dt
        if side == "step":
            if op != "lt":
                return "step test is `dt >= step`; the definition takes the new value only for dt > step"
            want = vhi if v else vlo
        else:
            if op != "le":
                return "step test is `dt < step`; the definition keeps the old value for dt <= step"
            want = vlo if v else vhi
        return None if _poly_eq(val, want) else f"returns {val!r}, step definition gives {want!r}"
    return None


# =========================================================================== R21
def r21_evict(repo, sink, tier="quick"):
    """Eviction never drops an entry a later request may need and keeps at most one entry
    not newer than the slowest consumer; spill files of dropped entries are removed."""
    nmax = 3 if tier == "quick" else 4
    # (a) adapters: after _get_data(q) the buffer keeps the last entry at or before q
    for kind in ("NextTime", "PreviousTime", "LinearTime", "StepTime", "StackTime"):
        if not repo.has_cls(kind):
            continue
        c = repo.cls(kind)
        f = repo.resolve(c, "_get_data", "method")
        worst, cases = None, 0
        for n in range(1, nmax + 1):
            for fk in range(n + 1):
                kinds = ["file" if i == fk else "ram" for i in range(n)]
                for pos in positions(n):
                    if pos[0] in ("below", "above"):
                        continue
                    order = make_order(n, {Q: pos})
                    it = BufInterp(repo, order)
                    o = _adapter_obj(repo, kind, n, kinds, extra={"step": Sym("step")})
                    try:
                        paths = it.run_all(lambda: _run_keep(it, f, o, [Q, None]))
                    except Undecided as u:
                        raise AnalysisError(f"{kind}._get_data: undecidable condition {u}") from u
                    cases += 1
                    keep = _expected_remaining(n, rank_of(pos, n))
                    for decs, (okind, val) in paths:
                        if okind == "raise":
                            continue
                        _ret, data, effects, mem = val
                        why = _judge_evict(data, effects, mem, keep, kinds, n)
                        if why and worst is None:
                            worst = f"{n} entries, request {_pos_txt(pos)}: {why}"
        sink.check(worst is None, "R21", f"evict:{kind}", f,
                   ok=f"{cases} cases: only entries older than the last one at/before the request are dropped; files removed, RAM counter adjusted",
                   bad=worst or "", cases=cases)
    # (b) Output with 1..2 consumers
    c = repo.cls("Output")
    f = repo.resolve(c, "get_data", "method")
    worst, cases = None, 0
    for n in range(1, nmax + 1):
        kinds = ["file" if i % 2 == 0 else "ram" for i in range(n)]
        for pos in positions(n):
            if pos[0] in ("below", "above"):
                continue
            others = [None, "absent"] + [p for p in positions(n) if p[0] not in ("below", "above")]
            for other, b_is_adapter in [(o_, ad_) for o_ in others for ad_ in ((False, True) if o_ not in (None, "absent") else (False,))]:
                named = {Q: pos}
                ra, rb = Sym("rA"), Sym("rB")
                tgt_a = Obj(label="A")
                # the other registered consumer may be a push-based adapter (registers itself)
                tgt_b = Obj(cls=repo.cls("NextTime"), label="B:adapter") if b_is_adapter else Obj(label="B")
                conn = {tgt_a: None}
                if other != "absent":
                    conn[tgt_b] = None if other is None else rb
                    if other is not None:
                        named[rb] = other
                order = make_order(n, named)
                it = BufInterp(repo, order)
                o = _output_obj(repo, n, kinds, conn)
                try:
                    paths = it.run_all(lambda: _run_keep(it, f, o, [Q, tgt_a], conn_key=True))
                except Undecided as u:
                    raise AnalysisError(f"Output.get_data: undecidable condition {u}") from u
                cases += 1
                if other is None:
                    keep = list(range(n))
                else:
                    lim = rank_of(pos, n) if other == "absent" else min(rank_of(pos, n), rank_of(other, n))
                    keep = _expected_remaining(n, lim)
                for decs, (okind, val) in paths:
                    if okind == "raise":
                        worst = worst or f"{n} entries, request {_pos_txt(pos)}: raises {val.name}"
                        continue
                    _ret, data, effects, mem, conn_after = val
                    why = _judge_evict(data, effects, mem, keep, kinds, n)
                    if not why:
                        got = [v for k, v in conn_after.items() if k is tgt_a]
                        if got != [Q]:
                            why = f"the requesting consumer's last request is recorded as {got}, not the request time"
                    if why and worst is None:
                        o_txt = "only consumer" if other == "absent" else "other consumer never pulled" if other is None else f"other consumer last at {_pos_txt(other)}"
                        worst = f"{n} entries, request {_pos_txt(pos)}, {o_txt}: {why}"
    sink.check(worst is None, "R21", "evict:Output", f,
               ok=f"{cases} cases (1-2 consumers): history is cut exactly below the slowest consumer's last request, never while a consumer has not pulled",
               bad=worst or "", cases=cases)
    sink.floor("R21", "Output eviction cases", cases, 30)
    # (b2) a long history: whatever thresholds the code contains (every integer constant of the module is a candidate), a consumer that
    # has not pulled yet keeps every publication - a late first pull (a slow consumer next to an hourly source) asks for the oldest one
    consts = [70]
    for n_ in ast.walk(c.module.tree):
        if isinstance(n_, ast.Constant) and isinstance(n_.value, int) and not isinstance(n_.value, bool) and 8 <= n_.value <= 4000:
            consts.append(n_.value + 6)
    worst_l = None
    for n_long in sorted(set(consts)):
        pos = ("eq", n_long - 1)
        tgt_a, tgt_b = Obj(label="A"), Obj(label="B")
        order = make_order(n_long, {Q: pos})
        it = BufInterp(repo, order)
        o = _output_obj(repo, n_long, ["ram"] * n_long, {tgt_a: None, tgt_b: None})
        try:
            paths = it.run_all(lambda: _run_keep(it, f, o, [Q, tgt_a], conn_key=True))
        except (Undecided, AnalysisError) as u:
            sink.unknown("R21", "evict:Output:long-history", f, f"outside vocabulary: {u}")
            worst_l = "skip"
            break
        for _decs, (okind, val) in paths:
            if okind == "raise":
                worst_l = worst_l or f"history of {n_long} publications, request at the newest one: raises {val.name}"
                continue
            kept = len(val[1])
            if kept != n_long:
                worst_l = worst_l or (f"history of {n_long} publications, one consumer requests the newest one, the other registered consumer has not pulled yet: "
                                      f"{n_long - kept} publications are dropped; the late consumer's first pull finds its data gone ('out of range')")
    if worst_l != "skip":
        sink.check(worst_l is None, "R21", "evict:Output:long-history", f,
                   ok=f"histories of {sorted(set(consts))} publications: nothing is dropped while a registered consumer has not pulled", bad=worst_l or "")
    # (c) a push-based consumer pulls from inside the notification of the very publication: the history is cut then, too
    # (an output consumed only that way would otherwise never release anything)
    pd = repo.resolve(c, "push_data", "method")
    worst = None
    for n in (1, 2, 3):
        kinds = ["ram"] * n
        newt = Sym("tnew")
        order = make_order(n, {})
        order.name(newt, "tnew", 4 * n)
        tgt = Obj(cls=repo.cls("NextTime"), label="push-based consumer")
        o = _fresh(_output_obj(repo, n, kinds, {tgt: T(n - 1)}))

        class _Reenter(BufInterp):
            def call_hook(self, fv, args, kwargs, node, mod):
                if isinstance(fv, Closure) and getattr(fv.func, "name", "") == "notify_targets" and fv.self_obj is not None:
                    self.run(f, [args[0], tgt], self_obj=fv.self_obj)  # the consumer's pull, from inside the notification
                    return None
                if isinstance(fv, Closure) and getattr(fv.func, "name", "") == "prepare":
                    r = Sym("prepared", args[0])
                    return (r, None) if kwargs.get("report_conversion") else r
                return super().call_hook(fv, args, kwargs, node, mod)

            def ext_call(self, name, args, kwargs, node):
                if name.split(".")[-1] in ("may_share_memory", "shares_memory"):
                    return False
                return super().ext_call(name, args, kwargs, node)

            def get_attr(self, obj, attr, node, mod):
                if isinstance(obj, Sym) and obj.op in ("prepared", "payload") and attr in ("data", "size", "nbytes", "magnitude"):
                    return Sym("attr", obj, attr)
                return super().get_attr(obj, attr, node, mod)

        it = _Reenter(repo, order)
        try:
            it.run(pd, [Sym("payload"), newt], self_obj=o)
        except Raised as r:
            worst = worst or f"history of {n}: publishing with a consumer that pulls inside the notification raises {r.name}"
            continue
        except (Undecided, AnalysisError) as exc:
            sink.unknown("R21", "evict:inside-notification", pd, f"outside vocabulary: {exc}")
            worst = "skip"
            break
        times = [d[0] for d in o.fields["data"]]
        if times != [newt]:
            worst = worst or (f"history of {n} entries, the only consumer pulls the new publication from inside its notification: the history afterwards "
                              f"holds {times!r}; only the new publication may remain (the output never releases anything for push-based consumers)")
    if worst != "skip":
        sink.check(worst is None, "R21", "evict:inside-notification", pd,
                   ok="a pull from inside the notification cuts the history like any other pull", bad=worst or "")


def _total_attr(repo, cname):
    """Attribute holding the RAM total of a spilling slot (role discovery, see spill2.spill_roles)."""
    from .spill2 import spill_roles
    return spill_roles(repo, cname)["total"]


def _registry_attr(repo):
    """Attribute in which an Output keeps its registered end points and their last requests: the dict that pinged() extends."""
    cached = getattr(repo, "_registry_attr", None)
    if cached is None:
        from ..absbase import seed_from_init
        c = repo.cls("Output")
        o = Obj(cls=c, label="Output")
        seed_from_init(FinamInterp(repo), c, o, {"name": "out", "info": None, "static": False})
        o.fields["logger"] = Logger(label="logger")
        probe = Obj(label="probe", markers={"IInput"}, fields={"name": "probe"})
        FinamInterp(repo).run(repo.resolve(c, "pinged", "method"), [probe], self_obj=o)
        names = [k for k, v in o.fields.items() if isinstance(v, dict) and any(x is probe for x in v)]
        if len(names) != 1:
            raise AnalysisError(f"cannot identify the end-point registry of Output (candidates {names})")
        cached = repo._registry_attr = names[0]
    return cached


def _run_keep(it, f, o, args, conn_key=False):
    obj = _fresh(o)
    it.effects = []
    ret = it.run(f, args, self_obj=obj)
    out = (ret, list(obj.fields["data"]), list(it.effects), _role_get(obj, _total_attr(it.repo, obj.cls.name)))
    if conn_key:
        out = out + (dict(obj.fields[_registry_attr(it.repo)]),)
    return out


def _output_obj(repo, n, kinds, conn, static=False):
    from ..absbase import seed_from_init
    c = repo.cls("Output")
    o = Obj(cls=c, label="Output")
    seed_from_init(FinamInterp(repo), c, o, {"name": "out", "info": None, "static": static})
    from ..absbase import set_backed
    from .spill2 import spill_roles
    it = FinamInterp(repo)
    o.fields.update(data=[(T(i) if not static else None, P(i, kinds[i])) for i in range(n)], logger=Logger(label="logger"))
    set_backed(repo, o, "name", "out")
    # linked and registered by the real code, then the scenario's last requests are put into the registry
    from .exchange import ExchInterp, xinfo
    it = ExchInterp(repo)
    it.run(repo.resolve(c, "push_info", "method"), [xinfo("info", Sym("grid"), None, Sym("u_out"))], self_obj=o)
    it.run(repo.resolve(c, "add_target", "method"), [Obj(label="t", markers={"IInput", "IAdapter"})], self_obj=o)
    reg = o.fields[_registry_attr(repo)]
    for k, v in conn.items():
        reg[k] = v
    # every registered end point has exchanged its info
    for k2, v2 in list(o.fields.items()):
        if isinstance(v2, int) and not isinstance(v2, bool) and k2 == _exchange_counter(repo):
            o.fields[k2] = len(conn)
    set_backed(repo, o, "time", T(n - 1) if n else None)
    roles = spill_roles(repo, "Output")
    from .spill2 import role_set
    role_set(o, roles["total"], Sym("mem0"))
    if roles["counter"] is not None:
        role_set(o, roles["counter"], Sym("counter"))
    return o


def _exchange_counter(repo):
    """Attribute counting completed info exchanges of an Output: the integer that a successful get_info increments."""
    cached = getattr(repo, "_exchange_counter_attr", None)
    if cached is None:
        from ..absbase import seed_from_init
        from .exchange import ExchInterp, G1, T1, U1, xinfo
        c = repo.cls("Output")
        o = Obj(cls=c, label="Output")
        it = ExchInterp(repo)
        seed_from_init(it, c, o, {"name": "out", "info": None, "static": False})
        o.fields["logger"] = Logger(label="logger")
        it.run(repo.resolve(c, "push_info", "method"), [xinfo("own", G1, T1, U1)], self_obj=o)
        before = {k: v for k, v in o.fields.items() if isinstance(v, int) and not isinstance(v, bool)}
        it.run(repo.resolve(c, "get_info", "method"), [xinfo("req", G1, T1, U1)], self_obj=o)
        names = [k for k, v in before.items() if o.fields.get(k) == v + 1]
        if len(names) != 1:
            raise AnalysisError(f"cannot identify the exchange counter of Output (candidates {names})")
        cached = repo._exchange_counter_attr = names[0]
    return cached


def _judge_evict(data, effects, mem, keep, kinds, n):
    got = [d[1].args[0] for d in data if isinstance(d[1], Sym) and d[1].op == "P"]
    if len(got) != len(data):
        return f"buffer holds foreign entries {data!r}"
    if got != keep:
        if len(got) < len(keep):
            return f"entries {sorted(set(keep) - set(got))} were dropped although a later request (>= this one) still needs them; kept {got}, must keep {keep}"
        return f"entries {sorted(set(got) - set(keep))} are retained although no consumer can request them any more (history grows); kept {got}, expected {keep}"
    dropped = [i for i in range(n) if i not in keep]
    removed = [e[1].args[0] for e in effects if e[0] == "remove" and isinstance(e[1], Sym) and e[1].op == "P"]
    want_removed = [i for i in dropped if kinds[i] == "file"]
    if sorted(removed) != want_removed:
        return f"spill files removed for entries {sorted(removed)}, dropped file entries are {want_removed}"
    ram = [i for i in dropped if kinds[i] == "ram"]
    exp = Sym("mem0")
    for i in ram:
        exp = Sym("sub", exp, Sym("nbytes", i))
    if not _poly_eq(mem, exp):
        return f"RAM counter is {mem!r} after dropping RAM entries {ram}"
    return None


# ========================================================================== R17n
def r17_nearest(repo, sink, tier="quick"):
    """Output.get_data serves the publication nearest to the request (either neighbour at
    the midpoint), refuses anything outside [oldest, newest]."""
    c = repo.cls("Output")
    f = repo.resolve(c, "get_data", "method")
    nmax = 3 if tier == "quick" else 5
    worst, cases = None, 0
    for n in range(0, nmax + 1):
        for pos in (positions(n) if n else [("below",)]):
            order = make_order(n, {Q: pos})
            it = BufInterp(repo, order)
            tgt = Obj(label="A")
            o = _output_obj(repo, n, ["ram"] * n, {tgt: None})
            try:
                paths = it.run_all(lambda: (it.run(f, [Q, tgt], self_obj=_fresh(o)),))
            except Undecided as u:
                raise AnalysisError(f"Output.get_data: undecidable condition {u}") from u
            cases += 1
            for decs, (okind, val) in paths:
                why = None
                if n == 0:
                    if okind != "raise" or val.name != "FinamNoDataError":
                        why = "empty history must raise FinamNoDataError"
                elif pos[0] in ("below", "above"):
                    if okind != "raise":
                        why = f"returns {val[0]!r} for a request outside the published range"
                    elif val.name != "FinamTimeError":
                        why = f"raises {val.name}, expected FinamTimeError"
                else:
                    if okind == "raise":
                        why = f"raises {val.name} for a request inside the published range"
                    else:
                        i = pos[1]
                        allowed = {"eq": [V(i)], "lo": [V(i)], "hi": [V(i + 1)], "mid": [V(i), V(i + 1)]}[pos[0]]
                        if val[0] not in allowed:
                            why = f"serves {val[0]!r}, nearest publication is {allowed!r}"
                if why and worst is None:
                    worst = f"{n} publications, request {_pos_txt(pos) if n else 'any'}: {why}"
    sink.check(worst is None, "R17", "nearest:Output.get_data", f,
               ok=f"{cases} order types: nearest publication served, range refusals are FinamTimeError / FinamNoDataError",
               bad=worst or "", cases=cases)
    sink.floor("R17", "order types", cases, 20)
    # what one consumer asked before does not change what another one is served: a fast consumer reads the newest publication,
    # then a slower one asks for an older time on the very same output
    Q2 = Sym("q2")
    worst2, cases2 = None, 0
    n = 3
    for late in (("eq", 2), ("hi", 1), ("eq", 1)):
        for early in (("eq", 0), ("lo", 0), ("hi", 0), ("eq", 1)):
            if (early[1], early[0] != "eq") >= (late[1], late[0] != "eq") and not (early == ("eq", 1) and late[1] == 2):
                continue
            order = make_order(n, {Q: late, Q2: early})
            it = BufInterp(repo, order)
            a, b = Obj(label="A"), Obj(label="B")
            o = _fresh(_output_obj(repo, n, ["ram"] * n, {a: None, b: None}))
            cases2 += 1
            try:
                it.run(f, [Q, a], self_obj=o)
                got = it.run(f, [Q2, b], self_obj=o)
            except Raised as r:
                worst2 = worst2 or f"fast consumer asks {_pos_txt(late)}, then the slow one {_pos_txt(early)}: raises {r.name}"
                continue
            except Undecided as u:
                raise AnalysisError(f"Output.get_data (two consumers): undecidable condition {u}") from u
            i = early[1]
            allowed = {"eq": [V(i)], "lo": [V(i)], "hi": [V(i + 1)], "mid": [V(i), V(i + 1)]}[early[0]]
            val = got[0] if isinstance(got, tuple) else got
            if val not in allowed:
                worst2 = worst2 or (f"fast consumer asks {_pos_txt(late)}, then the slow one {_pos_txt(early)}: the slow one is served {val!r}, "
                                    f"its nearest publication is {allowed!r} (a lookup must not depend on what other consumers asked before)")
    sink.check(worst2 is None, "R17", "nearest:independent-of-other-consumers", f,
               ok=f"{cases2} request pairs: a slower consumer is served its own nearest publication after a faster one has read ahead", bad=worst2 or "")
    sink.floor("R17", "two-consumer request pairs", cases2, 6)


# =========================================================================== R04
def r04_cmp(repo, sink):
    """Refusal tests are the exact complement of the scheduler's lag test: a request is
    refused iff it is strictly newer than the newest entry (or strictly older than the
    oldest); `check_time` decision table."""
    f = repo.func("src/finam/adapters/time.py", "check_time")
    lo, hi = Sym("lo"), Sym("hi")
    cases = 0
    worst = None
    for rq, expect in ((-1, "past"), (0, None), (1, None), (2, None), (3, "future")):
        o = Order()
        o.name(lo, "lo", 0)
        o.name(hi, "hi", 2)
        o.name(Q, "q", rq)
        for rng in ((lo, hi), (None, hi), (lo, None), (None, None)):
            it = BufInterp(repo, o)
            cases += 1
            try:
                it.run(f, [Logger(label="logger"), Q, rng])
                got = None
            except Raised as r:
                got = r.name
            want = None
            if expect == "past" and rng[0] is not None:
                want = "FinamTimeError"
            if expect == "future" and rng[1] is not None:
                want = "FinamTimeError"
            if got != want and worst is None:
                worst = f"request at rank {rq} vs range ({'lo' if rng[0] else None}, {'hi' if rng[1] else None}): {got}, expected {want}"
    it = BufInterp(repo, Order())
    try:
        it.run(f, [Logger(label="logger"), Sym("nonsense"), (None, None)])
        worst = worst or "a non-datetime time passes check_time"
    except Raised as r:
        if r.name != "FinamTimeError":
            worst = worst or f"non-datetime time raises {r.name}"
    except Undecided:
        pass
    sink.check(worst is None, "R04", "check_time-table", f,
               ok=f"{cases} cases: refused iff strictly outside the inclusive range", bad=worst or "")
    # both _get_data implementations check the request against (oldest, newest) of their own buffer:
    # observed in an abstract run (the arguments check_time receives), independent of how the call is written
    for cname, rep in (("TimeCachingAdapter", "LinearTime"), ("TimeIntegrationAdapter", "AvgOverTime")):
        g = repo.method(rep, "_get_data")  # whatever the representative concrete class resolves to
        o = Order()
        for i in range(3):
            o.name(T(i), f"t{i}", 4 * i)
        o.name(Q, "q", 6)
        it = _RangeProbe(repo, o)
        obj = _adapter_obj(repo, rep, 3)
        try:
            it.run(g, [Q, None], self_obj=obj)
        except _Seen:
            pass
        except Raised as r:
            sink.bad("R04", f"range-args:{cname}._get_data", g, f"a request inside the buffered range raises {r.name} before the range is checked")
            continue
        except (AnalysisError, Undecided) as exc:
            sink.unknown("R04", f"range-args:{cname}._get_data", g, f"_get_data outside vocabulary before the range check: {exc}")
            continue
        if it.seen is None:
            sink.bad("R04", f"range-args:{cname}._get_data", g, "check_time is never reached for a request inside the buffered range")
            continue
        tm, rng = it.seen
        ok = tm == Q and isinstance(rng, (tuple, list)) and len(rng) == 2 and rng[0] == T(0) and rng[1] == T(2)
        sink.check(ok, "R04", f"range-args:{cname}._get_data", g,
                   ok="range check uses (oldest, newest) buffer times and the request time",
                   bad=f"check_time receives time {tm!r} and range {rng!r}; must be the request time and (oldest, newest) buffered time")


class _Seen(Exception):
    pass


class _RangeProbe(BufInterp):
    """Stops at the first call of check_time and records its (time, range) arguments."""

    def __init__(self, repo, order):
        super().__init__(repo, order)
        self.seen = None

    def call_hook(self, fv, args, kwargs, node, mod):
        if isinstance(fv, Closure) and getattr(fv.func, "name", "") == "check_time":
            names = fv.func.params
            bound = dict(zip(names, args))
            bound.update(kwargs)
            self.seen = (bound.get(names[1]), bound.get(names[2]))
            raise _Seen()
        return super().call_hook(fv, args, kwargs, node, mod)


# =========================================================================== R26
def r26_buffer(repo, sink):
    for cname in ("TimeCachingAdapter", "TimeIntegrationAdapter"):
        f = repo.method("NextTime" if cname == "TimeCachingAdapter" else "SumOverTime", "_source_updated")
        o = Order()
        tn = Sym("tn")
        o.name(tn, "tn", 5)
        it = BufInterp(repo, o)
        obj = _adapter_obj(repo, "NextTime" if cname == "TimeCachingAdapter" else "SumOverTime", 0,
                           extra={PREV: None})
        try:
            it.run(f, [tn], self_obj=obj)
        except Raised as r:
            sink.bad("R26", f"notify:{cname}", f, f"_source_updated raises {r.name} on a plain notification")
            continue
        data = obj.fields["data"]
        want = (tn, Sym("packed", Sym("stripped", Sym("pulled", tn))))
        why = None
        if data != [want]:
            why = f"buffer after one notification is {data!r}, expected [(time, _pack(strip_time(pull_data(time, self))))]"
        elif it.pulls != [(tn, obj)]:
            why = f"pulls {it.pulls!r}: the notification time and `self` as target are required"
        elif cname == "TimeIntegrationAdapter" and obj.fields.get(prev_attr(repo)) != tn:
            why = "first notification must initialise the previous-pull time"
        sink.check(why is None, "R26", f"notify:{cname}", f,
                   ok="a notification pulls at the notification time with target self, strips the time axis, packs and appends",
                   bad=why or "")
        # non-datetime notification is refused
        it2 = BufInterp(repo, Order())
        try:
            it2.run(f, [Sym("nonsense")], self_obj=_adapter_obj(repo, "NextTime", 0, extra={PREV: None}))
            sink.bad("R26", f"notify-type:{cname}", f, "a non-datetime notification is buffered")
        except Raised as r:
            sink.check(r.name == "FinamTimeError", "R26", f"notify-type:{cname}", f, ok="non-datetime notification raises FinamTimeError", bad=f"raises {r.name}")
        except (Undecided, AnalysisError):
            sink.ok("R26", f"notify-type:{cname}", f, "type check present")
    # a notification never touches what is already buffered: for every concrete buffering adapter, on every path,
    # the buffer afterwards is the old buffer followed by the new entry (a lagging or second consumer still needs the
    # old entries; moving an entry's time stamp moves a node of the interpolant)
    from .. import lek
    n_cls = 0
    for e in [x for x in lek.table(repo)[0] if x.kind == lek.BUFFER]:
        c = e.cls
        f = repo.resolve(c, "_source_updated", "method")
        n_cls += 1
        worst = None
        for n, kinds in ((1, ["ram"]), (2, ["ram", "ram"]), (3, ["ram", "file", "ram"])):
            o = Order()
            for i in range(n):
                o.name(T(i), f"t{i}", 4 * i)
            tn = Sym("tn")
            o.name(tn, "tn", 4 * n)
            it = BufInterp(repo, o)
            objs = []

            def thunk(it=it, objs=objs, c=c, n=n, kinds=kinds, tn=tn, f=f):
                ob = _adapter_obj(repo, c.name, n, kinds, extra={PREV: T(0)} if repo.is_subclass(c, "TimeIntegrationAdapter") else None)
                objs.append(ob)
                it.effects = []
                it.run(f, [tn], self_obj=ob)
                return (list(ob.fields["data"]), list(it.effects))

            try:
                paths = it.run_all(thunk)
            except (AnalysisError, Undecided) as exc:
                sink.unknown("R26", f"notify-keeps-buffer:{c.name}", f, f"_source_updated outside vocabulary: {exc}")
                worst = "skip"
                break
            old = [(T(i), P(i, kinds[i])) for i in range(n)]
            new = (tn, Sym("packed", Sym("stripped", Sym("pulled", tn))))
            for _d, (kind, val) in paths:
                if kind == "raise":
                    worst = worst or f"buffer of {n}: a notification newer than all entries raises {val.name}"
                    continue
                data, effects = val
                if data != old + [new]:
                    worst = worst or (f"buffer of {n} entries, notification newer than all of them: buffer becomes {data!r}; every old entry must stay "
                                      "as it is and the new one is appended")
                elif any(ef[0] == "remove" for ef in effects):
                    worst = worst or f"buffer of {n}: a notification removes spill files {effects!r}"
        if worst == "skip":
            continue
        sink.check(worst is None, "R26", f"notify-keeps-buffer:{c.name}", f,
                   ok="a notification appends (time, packed data) and leaves every buffered entry untouched", bad=worst or "")
    sink.floor("R26", "buffering adapter classes", n_cls, 7)
    # second notification for the integration adapter must not move _prev_time
    f = repo.method("SumOverTime", "_source_updated")
    o = Order()
    tn = Sym("tn")
    o.name(tn, "tn", 5)
    it = BufInterp(repo, o)
    obj = _adapter_obj(repo, "SumOverTime", 1, extra={PREV: T(0)})
    o.name(T(0), "T0", 0)
    it.run(f, [tn], self_obj=obj)
    sink.check(obj.fields[prev_attr(repo)] == T(0), "R26", "notify:prev-time-kept", f,
               ok="later notifications leave the previous-pull time alone", bad="a notification overwrites the previous-pull time (integration interval lost)")
    # empty buffer -> FinamNoDataError in both _get_data
    for cname, rep in (("TimeCachingAdapter", "NextTime"), ("TimeIntegrationAdapter", "SumOverTime")):
        g = repo.method(rep, "_get_data")
        it = BufInterp(repo, make_order(0, {Q: ("below",)}))
        try:
            it.run(g, [Q, None], self_obj=_adapter_obj(repo, rep, 0, extra={PREV: None}))
            sink.bad("R26", f"empty:{cname}", g, "empty buffer does not raise FinamNoDataError")
        except Raised as r:
            sink.check(r.name == "FinamNoDataError", "R26", f"empty:{cname}", g, ok="empty buffer raises FinamNoDataError (retry later)",
                       bad=f"empty buffer raises {r.name}: the connect phase would not retry")


# =========================================================================== R39
def r39_static(repo, sink):
    c = repo.cls("Output")
    f = repo.resolve(c, "get_data", "method")
    # static output: first entry irrespective of time, no eviction
    for req in (None, Q):
        order = make_order(0, {Q: ("below",)})
        it = BufInterp(repo, order)
        tgt = Obj(label="A")
        o = _output_obj(repo, 1, ["ram"], {tgt: None}, static=True)
        obj = _fresh(o)
        try:
            ret = it.run(f, [req, tgt], self_obj=obj)
            why = None if ret == V(0) and len(obj.fields["data"]) == 1 else f"returns {ret!r}, history {obj.fields['data']!r}"
        except Raised as r:
            why = f"raises {r.name}"
        sink.check(why is None, "R39", f"static-get:{'none' if req is None else 'time'}", f,
                   ok="static output serves its single publication for any request time", bad=why or "")
    # push_data on a static output
    p = repo.resolve(c, "push_data", "method")
    for n, want in ((0, None), (1, "FinamStaticDataError")):
        it = _PushInterp(repo, make_order(1, {Q: ("eq", 0)}))
        tgt = Obj(label="A")
        o = _output_obj(repo, n, ["ram"] * n, {tgt: None}, static=True)
        obj = _fresh(o)
        try:
            it.run(p, [Sym("payload"), Q if n == 0 else None], self_obj=obj)
            got = None
        except Raised as r:
            got = r.name
        ok = got == want
        if ok and n == 0:
            d = obj.fields["data"]
            ok = len(d) == 1 and d[0][0] is None and it.effects and it.effects[-1] == ("notify", None)
        sink.check(ok, "R39", f"static-push:{n}", p,
                   ok="static output accepts exactly one publication (stored with time None) and refuses the next",
                   bad=f"static push with {n} entries: {got}, history {obj.fields['data']!r}")
    # static input: fetch once, then serve the cache
    i = repo.cls("Input")
    pd = repo.resolve(i, "pull_data", "method")
    it = _PushInterp(repo, make_order(0, {Q: ("below",)}))
    from .exchange import linked_input
    src = Obj(label="source", markers={"IOutput", "IAdapter"}, fields={"logger_name": "src", "name": "src"})
    inp, _s, _rq, _dl = linked_input(repo, it, static=True, same_grid=True, src=src)
    r1 = it.run(pd, [Q], self_obj=inp)
    r2 = it.run(pd, [None], self_obj=inp)
    sink.check(len(it.fetches) == 1 and r1 == r2 and isinstance(r1, Sym) and r1.op == "converted", "R39", "static-input-cache", pd,
               ok="static input fetches once and serves the cached value afterwards",
               bad=f"static input fetched {len(it.fetches)} time(s); results {r1!r} / {r2!r} (must be the converted and checked value both times)")


class _PushInterp(ExchMixin, BufInterp):
    def __init__(self, repo, order):
        super().__init__(repo, order)
        self.fetches = []

    def get_attr(self, obj, attr, node, mod):
        if isinstance(obj, Obj) and obj.label == "source" and attr == "get_data":
            return Sym("srcget", Ref(obj))
        if isinstance(obj, Sym) and obj.op in ("prepared", "payload", "converted", "P") and attr in ("data", "size", "nbytes"):
            return Sym("attr", obj, attr)
        return super().get_attr(obj, attr, node, mod)

    def call_hook(self, fv, args, kwargs, node, mod):
        if isinstance(fv, Sym) and fv.op == "srcget":
            self.fetches.append(tuple(args))
            return Sym("fetched", len(self.fetches))
        if isinstance(fv, Closure):
            name = getattr(fv.func, "name", "")
            if name == "prepare":
                r = Sym("prepared", args[0])
                return (r, None) if kwargs.get("report_conversion") else r
            if name == "_convert_and_check":
                return Sym("converted", args[0])
            if name == "_pack" and fv.self_obj is not None:
                return Sym("packed", args[0])
        return super().call_hook(fv, args, kwargs, node, mod)

    def ext_call(self, name, args, kwargs, node):
        if name == "np.may_share_memory":
            return False
        return super().ext_call(name, args, kwargs, node)


# =========================================================================== R27c
def r27c_constructors(repo, sink):
    """Adapter constructors keep the configured values, in particular falsy ones (a step
    position 0.0, 0 steps, a zero delay): `x or default` silently replaces them."""
    from ..absbase import FinamInterp

    class _I(FinamInterp):
        def __init__(self, repo, cls):
            super().__init__(repo)
            self.cls_under_test = cls

        def call_func(self, clo, args, kwargs, node):
            f = clo.func
            if getattr(f, "name", "") == "__init__" and getattr(f, "cls", None) is not None and f.cls is not self.cls_under_test \
                    and not self.repo.is_subclass(f.cls, self.repo.cls("TimeCachingAdapter")) \
                    and f.cls.name not in ("TimeIntegrationAdapter", "TimeDelayAdapter"):
                return None
            return super().call_func(clo, args, kwargs, node)

        def call_hook(self, fv, args, kwargs, node, mod):
            if isinstance(fv, Closure) and getattr(fv.func, "name", "") == "is_timedelta":
                return True
            return super().call_hook(fv, args, kwargs, node, mod)

        def decide(self, cond, node):
            if cond == Sym("configured"):
                return True
            return super().decide(cond, node)

        def ext_call(self, name, args, kwargs, node):
            if name.endswith("timedelta"):
                return Sym("timedelta", tuple(sorted(kwargs.items())), tuple(args))
            return super().ext_call(name, args, kwargs, node)

        def builtin(self, name, args, kwargs, node):
            if name == "bool":
                return bool(args[0]) if isinstance(args[0], (int, float, bool)) else True
            return super().builtin(name, args, kwargs, node)

    table = [
        ("StepTime", "step", ["step"]), ("AvgOverTime", "step", ["_step"]), ("SumOverTime", "step", ["_step"]),
        ("SumOverTime", "per_time", ["_per_time"]), ("DelayFixed", "delay", ["delay"]), ("DelayToPull", "steps", ["steps"]),
        ("DelayToPull", "additional_delay", ["additional_delay"]), ("Scale", "scale", ["scale"]), ("SumOverTime", "initial_interval", ["_initial_interval"]),
    ]
    n = 0
    for cname, param, attrs in table:
        if not repo.has_cls(cname):
            continue
        c = repo.cls(cname)
        init = c.methods.get("__init__")
        if init is None or param not in init.params:
            continue
        n += 1
        worst = None
        for val in (0.0, 0, False, None if param == "step" and cname != "StepTime" else Sym("configured"), Sym("configured")):
            if val is None and cname == "StepTime":
                continue
            o = Obj(cls=c, label=cname)
            o.fields["logger"] = Logger(label="logger")
            it = _I(repo, c)
            try:
                it.run(init, [], {param: val}, self_obj=o)
            except (Raised, Undecided, AnalysisError) as exc:
                if worst is None:
                    sink.unknown("R27", f"constructor:{cname}.{param}", init, f"constructor outside vocabulary: {exc}")
                    worst = "skip"
                break
            # whichever attribute the class uses: the configured value itself must be kept in one of them
            new = {k: v for k, v in o.fields.items() if k != "logger"}
            kept = any((v is val) or (v == val and type(v) is type(val)) for v in new.values())
            if not kept:
                got = next((new[a] for a in attrs if a in new), "<unset>")
                worst = worst or f"{cname}({param}={val!r}) stores {got!r}"
        if worst == "skip":
            continue
        sink.check(worst is None, "R27", f"constructor:{cname}.{param}", init,
                   ok=f"{cname} keeps the configured `{param}` (also falsy values)",
                   bad=(worst or "") + f": a legal configuration value of `{param}` is silently replaced")
    sink.floor("R27", "adapter constructor parameters", n, 7)
