"""R38 VALID: decision table of the composition validation over small topologies, and the
link enumeration of Composition.metadata."""
from __future__ import annotations

import ast
import itertools

from .. import lek
from ..absbase import Logger, Ref
from ..astq import U, call_name, calls, fn_walk
from ..cfg import CFG
from ..interp import Obj, Raised, Sym, Undecided
from ..loader import AnalysisError
from ..schedmodel import SchedInterp, Topo

SCHED = "src/finam/schedule.py"


def _facts(repo):
    ads, eps = lek.require_table(repo)
    f = {}
    for e in ads + eps:
        f[e.name] = e.facts
    return f


_MUTATORS = {"append", "pop", "clear", "extend", "insert", "remove", "popleft", "appendleft", "update", "add", "discard", "sort", "reverse"}


def _pull_path_container_writes(repo, c):
    """Container attributes (lists, dicts, deques created in the constructors) that a request changes: mutated or re-bound in a
    method reachable from get_data through self. / super(). calls."""
    from ..absbase import FinamInterp, seed_from_init
    from ..astq import fn_walk, self_attr
    from ..interp import Obj
    from ..lek import _callee_of
    probe = Obj(cls=c, label=c.name)
    seed_from_init(FinamInterp(repo), c, probe, {})
    containers = {k for k, v in probe.fields.items() if isinstance(v, (list, dict, set))}
    out, seen = set(), set()

    def walk_fn(f, depth):
        if f is None or f.qualname in seen or depth > 4:
            return
        seen.add(f.qualname)
        for n in fn_walk(f.node):
            if isinstance(n, (ast.Assign, ast.AugAssign)):
                for t in (n.targets if isinstance(n, ast.Assign) else [n.target]):
                    base = t.value if isinstance(t, ast.Subscript) else t
                    a = self_attr(base) if isinstance(base, ast.Attribute) else None
                    if a in containers:
                        out.add(a)
            if isinstance(n, ast.Delete):
                for t in n.targets:
                    base = t.value if isinstance(t, ast.Subscript) else t
                    a = self_attr(base) if isinstance(base, ast.Attribute) else None
                    if a in containers:
                        out.add(a)
            if isinstance(n, ast.Call) and isinstance(n.func, ast.Attribute) and n.func.attr in _MUTATORS and isinstance(n.func.value, ast.Attribute) \
                    and self_attr(n.func.value) in containers:
                out.add(self_attr(n.func.value))
            if isinstance(n, ast.Call):
                name, callee = _callee_of(repo, c, f, n)
                if callee is not None and callee is not f and name != "pull_data":
                    walk_fn(callee, depth + 1)

    walk_fn(repo.resolve(c, "get_data", "method"), 0)
    return out


def required_nobranch(repo):
    """Adapters whose answer to a request depends on the requests they saw before (they keep a history that a request changes)
    serve ONE consumer: they must carry the no-branch marker, whatever the class statement says today."""
    cached = getattr(repo, "_required_nobranch", None)
    if cached is None:
        ads, _eps = lek.require_table(repo)
        cached = repo._required_nobranch = {e.name: sorted(_pull_path_container_writes(repo, e.cls)) for e in ads}
        cached = repo._required_nobranch = {k: v for k, v in cached.items() if v}
    return cached


def _expected(topo, comps_in, facts):
    """Reference: which error (if any) validation must raise. Order of checks is free: we
    return the *set* of reasons; the code must raise FinamConnectError iff the set is non-empty."""
    reasons = set()
    members = set(id(c) for c in comps_in)
    for (out, elems, comp, inp) in topo.links:
        pass
    # unconnected inputs / static mismatch / dead links
    for c in comps_in:
        for inp in c.fields["inputs"].values():
            chain = [inp]
            cur = inp
            broken = False
            while cur.cls is not None and topo.repo.is_subclass(cur.cls, topo.repo.cls("IInput")):
                src = cur.fields.get("source")
                if src is None:
                    reasons.add("unconnected")
                    broken = True
                    break
                cur = src
                chain.append(cur)
            if broken:
                continue
            if inp.fields["is_static"] and not cur.fields["is_static"]:
                reasons.add("static-input-nonstatic-output")
            up_to_down = list(reversed(chain))
            seen_pull = False
            for el in up_to_down:
                fx = facts[el.cls.name]
                if seen_pull and fx["needs_push"] is True:
                    reasons.add("dead-link")
                if fx["needs_pull"] is True:
                    seen_pull = True
            if id(topo.owner.get(cur)) not in members:
                reasons.add("missing-upstream")
    # branching and missing downstream
    nobranch = topo.repo.cls("NoBranchAdapter")
    for c in comps_in:
        for out in c.fields["outputs"].values():
            stack = [(out, False)]
            while stack:
                el, nb = stack.pop()
                nb = nb or (el.cls is not None and (topo.repo.is_subclass(el.cls, nobranch) or el.cls.name in required_nobranch(topo.repo)))
                tg = el.fields.get("targets", [])
                if nb and len(tg) > 1:
                    reasons.add("branching")
                for t in tg:
                    if t.cls is not None and topo.repo.is_subclass(t.cls, topo.repo.cls("IOutput")):
                        stack.append((t, nb))
                    else:
                        owner = next((k for k in topo.comps.values() if any(i is t for i in k.fields["inputs"].values())), None)
                        if owner is None or id(owner) not in members:
                            reasons.add("missing-downstream")
    return reasons


def _topologies(repo):
    """(name, topo, components in the composition)."""
    out = []
    PASS, BUF, DPULL, DFIX, BRK = "Scale", "NextTime", "DelayToPull", "DelayFixed", "DelayToPush"
    for need in (PASS, BUF, DPULL, DFIX, BRK):
        if not repo.has_cls(need):
            raise AnalysisError(f"representative adapter {need} not found")

    def base():
        t = Topo(repo)
        return t, t.comp("A"), t.comp("B")

    # chains of up to 3 adapters between every source/sink kind
    for src_pull, sink in itertools.product((False, True), ("Input", "CallbackInput")):
        for L in range(0, 3):
            for chain in itertools.product((PASS, BUF, DFIX, BRK), repeat=L):
                t, a, b = base()
                o = t.output(a, pull=src_pull)
                t.link(o, list(chain), b, sink=sink)
                out.append((f"chain:{'cb' if src_pull else 'out'}>{'>'.join(chain) or '-'}>{sink}", t, [a, b]))
    # static combinations
    for so, si in itertools.product((False, True), repeat=2):
        t, a, b = base()
        o = t.output(a, static=so)
        t.link(o, [], b, static_in=si)
        out.append((f"static:out={so},in={si}", t, [a, b]))
    # static combinations through adapters (adapters are never static themselves: the root output decides)
    for chain in ([PASS], [PASS, PASS], [DFIX], [PASS, BUF]):
        for so, si in itertools.product((False, True), repeat=2):
            t, a, b = base()
            o = t.output(a, static=so)
            t.link(o, list(chain), b, static_in=si)
            out.append((f"static-through:{'>'.join(chain)}:out={so},in={si}", t, [a, b]))
    # components with several outputs: an unconnected output next to (before / after) a defective or a sound one
    for pos in ("first", "middle", "last"):
        for defect in ("none", "branching", "missing-downstream"):
            t = Topo(repo)
            a, b, c = t.comp("A"), t.comp("B"), t.comp("C")
            x = t.comp("X")
            names = ["o1", "o2", "o3"]
            idle = {"first": 0, "middle": 1, "last": 2}[pos]
            outs = [t.output(a, n) for n in names]
            k = 0
            for i, o in enumerate(outs):
                if i == idle:
                    continue
                k += 1
                if k == 2 and defect == "branching":
                    el = t.link(o, [BUF], None)
                    t.link(o, el, b, f"in{i}")
                    t.link(o, el, c, f"in{i}")
                elif k == 2 and defect == "missing-downstream":
                    t.link(o, [], x, f"in{i}")
                else:
                    t.link(o, [PASS], b if k == 1 else c, f"in{i}")
            out.append((f"multi-output:idle-{pos}:{defect}", t, [a, b, c]))
    # unconnected input
    t, a, b = base()
    t.output(a)
    t.link(None, [], b)
    out.append(("unconnected-input", t, [a, b]))
    t, a, b = base()
    o = t.output(a)
    t.link(o, [], b, "in1")
    t.link(None, [], b, "in2")
    out.append(("one-of-two-unconnected", t, [a, b]))
    # inputs behind adapters that are attached to no output
    for chain in ([PASS], [PASS, PASS], [BUF], [DFIX, PASS]):
        for st in (False, True):
            t, a, b = base()
            t.output(a)
            t.link(None, chain, b, static_in=st)
            out.append((f"dangling-adapters:{'>'.join(chain)}:{'static' if st else 'dynamic'}", t, [a, b]))
    # fan-outs: at the output, at / below pass-through and no-branch adapters
    def fan(name, first, between, at_second=False):
        t = Topo(repo)
        a, b, c = t.comp("A"), t.comp("B"), t.comp("C")
        o = t.output(a)
        el = t.link(o, first, None)
        if between is None:
            # branch at the last element of `first` (or at the output)
            head = el if el else []
            t.link(o, head, b)
            t.link(o, head, c)
        else:
            # branch one/two elements downstream
            el2 = t.link(o, el + between, None)
            t.link(o, el2, b)
            t.link(o, el2, c)
        out.append((name, t, [a, b, c]))

    fan("fan:at-output", [], None)
    fan("fan:at-pass", [PASS], None)
    fan("fan:at-nobranch-buffer", [BUF], None)
    fan("fan:at-nobranch-delay", [DPULL], None)
    fan("fan:at-pass-then-nobranch", [PASS, BUF], None)
    fan("fan:below-nobranch", [BUF], [PASS])
    fan("fan:two-below-nobranch", [BUF], [PASS, PASS])
    fan("fan:at-delayfixed", [DFIX], None)
    fan("fan:nobranch-below-fan", [PASS], None)
    # fan-out upstream of a no-branch adapter is fine
    t = Topo(repo)
    a, b, c = t.comp("A"), t.comp("B"), t.comp("C")
    o = t.output(a)
    t.link(o, [BUF], b)
    t.link(o, [BUF], c)
    out.append(("fan:above-nobranch", t, [a, b, c]))
    # sibling branches of one output: a legal fan-out (at the output / at a pass-through adapter) next to a branch through a
    # no-branch adapter, in both link orders - what holds below the no-branch adapter does not hold for its siblings
    for nb_kind in (BUF, DPULL):
        for nb_first in (False, True):
            for fan_at in ("pass", "output"):
                t = Topo(repo)
                a, b, c, d = t.comp("A"), t.comp("B"), t.comp("C"), t.comp("D")
                o = t.output(a)

                def fan_branch():
                    head = t.link(o, [PASS], None) if fan_at == "pass" else []
                    t.link(o, head, b)
                    t.link(o, head, c)

                if nb_first:
                    t.link(o, [nb_kind], d)
                    fan_branch()
                else:
                    fan_branch()
                    t.link(o, [nb_kind], d)
                out.append((f"fan:sibling-of-{nb_kind}:fan-at-{fan_at}:{'nobranch' if nb_first else 'fan'}-linked-first", t, [a, b, c, d]))
    # the forgotten source component feeds the first / middle / last input of a consumer with three inputs
    for pos in (0, 1, 2):
        for chain in ([], [PASS]):
            t = Topo(repo)
            a, b = t.comp("A"), t.comp("B")
            x = t.comp("X")
            oa = t.output(a, "out")
            ox = t.output(x, "xout")
            for i in range(3):
                t.link(ox if i == pos else oa, list(chain) if i == pos else [], b, f"in{i}")
            out.append((f"missing-upstream:input-{pos}-of-3:{'>'.join(chain) or 'direct'}", t, [a, b]))
    # missing components (distinct and identical slot names)
    for same_names in (False, True):
        t = Topo(repo)
        a, b = t.comp("A"), t.comp("B")
        x = t.comp("X")
        o = t.output(a, "out")
        t.link(o, [], b, "in")
        t.link(o, [], x, "in" if same_names else "xin")
        out.append((f"missing-downstream:{'same' if same_names else 'distinct'}-names", t, [a, b]))
        t = Topo(repo)
        a, b = t.comp("A"), t.comp("B")
        x = t.comp("X")
        oa = t.output(a, "out")
        ox = t.output(x, "out" if same_names else "xout")
        t.link(oa, [], b, "in1")
        t.link(ox, [PASS], b, "in2")
        out.append((f"missing-upstream:{'same' if same_names else 'distinct'}-names", t, [a, b]))
        # the forgotten source offers a static output (the scheduler never looks up owners of static outputs, validation must)
        for chain, static_in in (([], True), ([PASS], True), ([PASS], False)):
            t = Topo(repo)
            a, b = t.comp("A"), t.comp("B")
            x = t.comp("X")
            oa = t.output(a, "out")
            ox = t.output(x, "out" if same_names else "xout", static=True)
            t.link(oa, [], b, "in1")
            t.link(ox, list(chain), b, "in2", static_in=static_in)
            out.append((f"missing-upstream:static-output:{'>'.join(chain) or 'direct'}:static-input={static_in}:{'same' if same_names else 'distinct'}-names", t, [a, b]))
    # a pull-only source feeds a pull-type and a push-type consumer (directly and behind pass-through adapters): the chain to the
    # push-type consumer is dead whichever consumer is listed / linked first
    for n_pass in (0, 1, 2):
        for push_first, list_push_first in itertools.product((False, True), repeat=2):
            t = Topo(repo)
            a = t.comp("A")
            b, c_ = (t.comp("Bpush"), t.comp("Cpull")) if list_push_first else (t.comp("Cpull"), t.comp("Bpush"))
            o = t.output(a, pull=True)
            shared = t.link(o, [PASS] * n_pass, None) if n_pass else []
            ends = [("Bpush", "CallbackInput"), ("Cpull", "Input")]
            if not push_first:
                ends.reverse()
            for cname, sink_kind in ends:
                t.link(o, shared, t.comps[cname], sink=sink_kind)
            out.append((f"dead-link:fan:{n_pass}-pass:{'push' if push_first else 'pull'}-linked-first:{'push' if list_push_first else 'pull'}-listed-first",
                        t, [a, b, c_]))
    # a consumer that is not part of the composition hangs on a fan-out: next to / behind adapter branches, in both link orders
    for name, first_chain, second_chain, missing_first in (
        ("adapter-branch-then-direct", [PASS], [], False), ("direct-then-adapter-branch", [], [PASS], False),
        ("adapter-branch-then-direct:missing-first", [PASS], [], True), ("two-adapter-branches", [PASS], [BUF], False),
        ("two-adapter-branches:missing-first", [BUF], [PASS], True),
    ):
        t = Topo(repo)
        a, b, x = t.comp("A"), t.comp("B"), t.comp("X")
        o = t.output(a, "out")
        t.link(o, first_chain, x if missing_first else b, "in")
        t.link(o, second_chain, b if missing_first else x, "in")
        out.append((f"missing-downstream:fan:{name}", t, [a, b]))
    # the same behind a shared adapter
    for missing_first in (False, True):
        t = Topo(repo)
        a, b, x = t.comp("A"), t.comp("B"), t.comp("X")
        o = t.output(a, "out")
        shared = t.link(o, [PASS], None)
        t.link(o, shared + [PASS], x if missing_first else b, "in")
        t.link(o, shared, b if missing_first else x, "in")
        out.append((f"missing-downstream:fan-at-adapter:{'missing-first' if missing_first else 'missing-second'}", t, [a, b]))
    # everything registered with identical slot names (must pass)
    t = Topo(repo)
    a, b, c = t.comp("A"), t.comp("B"), t.comp("C")
    t.link(t.output(a, "out"), [], b, "in")
    t.link(t.output(b, "out"), [], c, "in")
    out.append(("twins-all-registered", t, [a, b, c]))
    return out


def r38_valid(repo, sink):
    comp_cls = repo.cls("Composition")
    f = repo.resolve(comp_cls, "_validate_composition", "method")
    if f is None:
        raise AnalysisError("Composition._validate_composition not found")
    facts = _facts(repo)
    # adapters that keep a per-consumer history carry the no-branch marker
    nb = repo.cls("NoBranchAdapter")
    req = required_nobranch(repo)
    for name, attrs in sorted(req.items()):
        c = repo.cls(name)
        sink.check(repo.is_subclass(c, nb), "R38", f"no-branch-marker:{name}", (c.file, c.node.lineno),
                   ok=f"{name} changes its own history {attrs} on every request and is marked as no-branch",
                   bad=f"{name} changes its own history {attrs} on every request (one history for all consumers) but is not a NoBranchAdapter: "
                       "a fan-out at or below it passes validation and the consumers corrupt each other's data")
    sink.floor("R38", "adapters with a per-request history", len(req), 6)
    # documented needs_push / needs_pull table of the end points and adapter base
    doc = {"Input": (False, True), "CallbackInput": (True, False), "Output": (True, False), "CallbackOutput": (False, True)}
    for name, (push, pull) in doc.items():
        fx = facts.get(name)
        sink.check(fx is not None and fx["needs_push"] is push and fx["needs_pull"] is pull, "R38", f"needs-table:{name}",
                   (repo.cls(name).file, repo.cls(name).node.lineno),
                   ok=f"needs_push={push}, needs_pull={pull}", bad=f"{name}: needs_push/needs_pull are {fx and (fx['needs_push'], fx['needs_pull'])}, documented {(push, pull)}")
    ad = repo.cls("Adapter")
    okp, vp = repo.const_property(ad, "needs_push")
    okl, vl = repo.const_property(ad, "needs_pull")
    sink.check(okp and okl and vp is False and vl is False, "R38", "needs-table:Adapter", (ad.file, ad.node.lineno),
               ok="plain adapters need neither push nor pull", bad=f"Adapter defaults are needs_push={vp}, needs_pull={vl}")
    _slot_constructors(repo, sink)
    worst_by = {}
    n = 0
    sole_kinds = set()
    for name, topo, members in _topologies(repo):
        n += 1
        me = topo.composition(members)
        for c in topo.comps.values():
            c.fields["logger"] = Logger(label="logger")
        it = SchedInterp(repo)
        want = _expected(topo, members, facts)
        if len(want) == 1:
            sole_kinds.update(want)
        try:
            it.run(f, [], self_obj=me)
            got = None
        except Raised as r:
            got = r.name
        except Undecided as u:
            raise AnalysisError(f"_validate_composition: undecidable {u} on {name}") from u
        if want and got != "FinamConnectError":
            why = f"passes validation" if got is None else f"raises {got}"
            sink.bad("R38", f"validate:{name}", f, f"{why}; expected FinamConnectError ({', '.join(sorted(want))})")
        elif not want and got is not None:
            sink.bad("R38", f"validate:{name}", f, f"workable topology is rejected with {got}")
        else:
            sink.ok("R38", f"validate:{name}", f, f"{'rejected: ' + ', '.join(sorted(want)) if want else 'accepted'}")
    sink.floor("R38", "validation topologies", n, 60)
    # validation has no memory: a set-up that was rejected, then completed by a link that creates a NEW defect in a part that had
    # passed before, is rejected again (connect() may be called again after a FinamConnectError)
    try:
        t = Topo(repo)
        a, b, c2 = t.comp("A"), t.comp("B"), t.comp("C")
        o = t.output(a)
        el = t.link(o, ["NextTime"], None)
        t.link(o, el, b)            # A >> NextTime >> B.in: fine
        t.link(None, [], c2)        # C.in unconnected: rejected
        members = [a, b, c2]
        me = t.composition(members)
        for k in t.comps.values():
            k.fields["logger"] = Logger(label="logger")
        it = SchedInterp(repo)
        first = second = None
        try:
            it.run(f, [], self_obj=me)
        except Raised as r:
            first = r.name
        # the user completes the set-up: C.in is linked below the no-branch adapter of A's chain (a disallowed fan-out)
        inp_c = next(iter(c2.fields["inputs"].values()))
        it2 = SchedInterp(repo)
        it2.run(repo.resolve(el[-1].cls, "chain", "method"), [inp_c], self_obj=el[-1])
        if inp_c not in el[-1].fields["targets"]:  # (the topology stand-ins mirror source / targets next to what the real chain() stored)
            el[-1].fields["targets"].append(inp_c)
        inp_c.fields["source"] = el[-1]
        try:
            it.run(f, [], self_obj=me)
        except Raised as r:
            second = r.name
        sink.check(first == "FinamConnectError" and second == "FinamConnectError", "R38", "validate:again-after-rejection", f,
                   ok="a rejected set-up that is completed by a link creating a fan-out below a no-branch adapter is rejected again",
                   bad=f"first validation: {first or 'passes'} (an unconnected input), second validation after linking that input below the no-branch adapter of a "
                       f"chain that had passed: {second or 'passes'} - what passed once is not looked at again, the disallowed fan-out goes through")
    except (Undecided, AnalysisError, KeyError, StopIteration) as exc:
        sink.unknown("R38", "validate:again-after-rejection", f, f"outside vocabulary: {exc}")
    # validation precedes any exchange (order in connect() is R06); here: all four checks are called for every slot
    # every kind of defect is represented by a topology whose ONLY defect it is: a check that is no longer applied shows up there
    missing = [k for k in ("unconnected", "static-input-nonstatic-output", "dead-link", "branching", "missing-upstream", "missing-downstream") if k not in sole_kinds]
    sink.check(not missing, "R38", "defect-kinds-covered", f, ok="each defect kind is the only defect of some generated topology",
               bad=f"no generated topology has {missing} as its only defect: the table is too narrow")
    _metadata_links(repo, sink)
    _adapter_metadata(repo, sink)


def _metadata_links(repo, sink):
    """Composition.metadata enumerates exactly the created links."""
    comp_cls = repo.cls("Composition")
    g = repo.resolve(comp_cls, "metadata", "getter")
    if g is None:
        sink.unknown("R38", "metadata-links", None, "Composition.metadata not found")
        return
    for variant in ("fan-and-chain", "side-chain-without-consumer:consumer-listed-first", "side-chain-without-consumer:producer-listed-first"):
        _metadata_links_case(repo, sink, comp_cls, g, variant)


def _metadata_links_case(repo, sink, comp_cls, g, variant):
    t = Topo(repo)
    key = "metadata-links" if variant == "fan-and-chain" else f"metadata-links:{variant}"
    if variant == "fan-and-chain":
        a, b, c = t.comp("A"), t.comp("B"), t.comp("C")
        o = t.output(a)
        el = t.link(o, ["Scale"], None)
        t.link(o, el, b)
        t.link(o, el + ["NextTime"], c)
        o2 = t.output(b)
        t.link(o2, [], c, "in2")
        outs, members = [o, o2], None
    else:
        # an adapter that feeds a consumer AND a chain of adapters nobody reads (legal: connect and run work); the walk from the
        # consumer's input reaches the shared adapter before the walk from the producer's output does when the consumer is listed first
        a, b = t.comp("A"), t.comp("B")
        o = t.output(a)
        el = t.link(o, ["Scale"], None)
        t.link(o, el, b)
        t.link(o, el + ["Scale", "Scale"], None)
        outs, members = [o], ([b, a] if "consumer-listed-first" in variant else [a, b])
    adapters = set()
    for (out, elems, comp, inp) in t.links:
        adapters |= set(elems)
    for k in t.comps.values():
        k.fields["metadata"] = {}
    stack = list(outs)
    while stack:
        el = stack.pop()
        for tg in el.fields.get("targets", []):
            if "targets" in tg.fields and tg not in adapters:
                adapters.add(tg)
                stack.append(tg)
    for ad in adapters:
        ad.fields["metadata"] = {}
    me = t.composition(members) if members is not None else t.composition()
    it = SchedInterp(repo)
    try:
        # adapters found by the real collection; "connected" as connect() itself marks it
        it.run(repo.resolve(comp_cls, "_collect_adapters", "method"), [], self_obj=me)
        conn = repo.resolve(comp_cls, "connect", "method")
        flags = [tt.attr for n in ast.walk(conn.node) if isinstance(n, ast.Assign) and isinstance(n.value, ast.Constant) and n.value.value is True
                 for tt in n.targets if isinstance(tt, ast.Attribute) and isinstance(tt.value, ast.Name) and tt.value.id == "self"]
        for fl in flags or ["_is_connected"]:
            me.fields[fl] = True
        md = it.run(g, [], self_obj=me)
    except (Raised, Undecided, AnalysisError) as exc:
        sink.unknown("R38", key, g, f"metadata not in vocabulary: {exc}")
        return
    links = md.get("links") if isinstance(md, dict) else None
    want, stack, seen_el = 0, list(outs), set()
    while stack:  # every link that was created: from the outputs down through all adapters, read by someone or not
        el = stack.pop()
        if id(el) in seen_el:
            continue
        seen_el.add(id(el))
        for tg in el.fields.get("targets", []):
            want += 1
            if "targets" in tg.fields:
                stack.append(tg)
    ok = isinstance(links, list) and len(links) == want
    sink.check(ok, "R38", key, g, ok=f"{want} created links, {want} reported",
               bad=f"metadata reports {len(links) if isinstance(links, list) else links} links, {want} were created ({variant}): adapters on a branch are not found "
                   "(they are then not finalized either)")


def _adapter_metadata(repo, sink):
    """Every adapter the composition collects can report its metadata - also one that hangs on an output without any consumer
    behind it (validation accepts that: nothing is unconnected on the consumer side) and therefore never exchanged an info."""
    from .exchange import ExchInterp, XInfo, _adapter, xinfo, G1, T1, U1, G2, T2, U2
    if not repo.has_cls("Scale"):
        return
    cls = repo.cls("Scale")
    g = repo.resolve(cls, "metadata", "getter")
    if g is None:
        sink.unknown("R38", "metadata:adapter", None, "Adapter.metadata not found")
        return

    class _M(ExchInterp):
        def get_attr(self, obj, attr, node, mod):
            if isinstance(obj, XInfo) and attr == "as_dict":
                return Sym("as_dict", Ref(obj))
            return super().get_attr(obj, attr, node, mod)

        def call_hook(self, fv, args, kwargs, node, mod):
            if isinstance(fv, Sym) and fv.op == "as_dict":
                return {"info-of": fv.args[0].obj.label}
            return super().call_hook(fv, args, kwargs, node, mod)

    why = None
    try:
        for exchanged in (False, True):
            ad = _adapter(repo, cls, linked=True, ctor={"scale": Sym("X", "scale")})
            it = _M(repo, delivered=xinfo("src", G1, T1, U1))
            if exchanged:
                it.run(repo.resolve(cls, "get_info", "method"), [xinfo("req", G2, T2, U2)], self_obj=ad)
            try:
                md = it.run(g, [], self_obj=ad)
            except Raised as r:
                why = why or (f"the metadata of an adapter that {'has' if exchanged else 'never'} exchanged its info raises {r.name}"
                              + ("" if exchanged else ": an adapter attached to an output with no consumer behind it passes validation and connect, "
                                 "then Composition.metadata (the link list) cannot be obtained at all"))
                continue
            if not isinstance(md, dict) or "name" not in md or "class" not in md:
                why = why or f"adapter metadata is {md!r}"
            elif exchanged and "out_info" not in md:
                why = why or "the metadata of a connected adapter does not report its output info"
    except (Undecided, AnalysisError) as exc:
        sink.unknown("R38", "metadata:adapter", g, f"outside vocabulary: {exc}")
        return
    sink.check(why is None, "R38", "metadata:adapter", g, ok="adapters report their metadata whether or not their info was exchanged", bad=why or "")


def _slot_constructors(repo, sink):
    """The static flag (and the name) given to a slot constructor is what the slot reports:
    validation of static inputs against non-static outputs reads it."""
    from ..absbase import FinamInterp

    class _I(FinamInterp):
        def call_hook(self, fv, args, kwargs, node, mod):
            if isinstance(fv, Closure) and getattr(fv.func, "name", "") == "push_info":
                return None
            return super().call_hook(fv, args, kwargs, node, mod)

    from ..interp import Closure
    for cname, has_static, has_cb in (("Input", True, False), ("CallbackInput", True, True), ("Output", True, False), ("CallbackOutput", False, True)):
        c = repo.cls(cname)
        init = repo.resolve(c, "__init__", "method")
        isst = repo.resolve(c, "is_static", "getter")
        nm = repo.resolve(c, "name", "getter")
        for static in ((False, True) if has_static else (False,)):
            o = Obj(cls=c, label=cname)
            kw = {"name": "slot"}
            if has_static:
                kw["static"] = static
            args = [Sym("callback")] if has_cb else []
            try:
                _I(repo).run(init, args, kw, self_obj=o)
                got = _I(repo).run(isst, [], self_obj=o)
                gname = _I(repo).run(nm, [], self_obj=o)
            except (Raised, Undecided, AnalysisError) as exc:
                sink.unknown("R38", f"slot-constructor:{cname}", init, f"constructor outside vocabulary: {exc}")
                break
            sink.check(got is static and gname == "slot", "R38", f"slot-constructor:{cname}:static={static}", init,
                       ok=f"{cname}(static={static}) reports is_static={static}",
                       bad=f"{cname}(name='slot', static={static}) reports is_static={got!r}, name={gname!r}: the static-input/non-static-output "
                           "validation cannot see the declared flag")
